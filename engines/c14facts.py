"""c14facts - two analyses behind the per-batch access control of the batch front end (property C14).

1. PathFlow: string-valued path components (`request.match_info[...]` not converted by `int`) of the `{batch_id}` routes.
   The membership / ownership test is made for the path's batch id only; every further component selects a sub-resource OF THAT
   BATCH and is spliced into secondary lookups (worker URL, object-store key).  A component whose admitted language contains a
   string with '/' can re-address that lookup.  For every use of such a value the language admitted at that program point is
   computed as a regular language (engines/strpred + engines/relang) from the branch conditions that every path to the use has
   passed, and intersected with  .* '/' .* ; a non-empty intersection that reaches a lookup sink (followed through helpers by
   parameter) is a violation, reported with a shortest admitted string containing '/'.

2. Membership: who counts as a member of a billing project.  The readers are the SELECT scopes over `billing_project_users`
   (embedded statements, SQL templates with AND-joined condition lists); the revocation is the write reached from the
   `.../users/{user}/remove` routes.  A revocation that keeps the row (UPDATE ... SET c = v) must be rejected by the filter of every
   reader: decided by a may-analysis of the reader's conjuncts under c = v (three-valued, every other atom unknown).

Nothing here imports or runs repository code.
"""
from __future__ import annotations

import ast
import re
from typing import Any, Dict, Iterable, List, Optional, Sequence, Set, Tuple

from . import pyfacts as pf
from . import relang as R
from . import sqlfront as sf
from . import sqlrules as sr
from . import strpred as sp
from .common import AnalysisError
from .sqlast import N, Parser, SqlParseError, text
from .sqleval import UNKNOWN, may3

# ================================================================================================
# 1. path components
# ================================================================================================

_ANY = R.anychar()
SLASH = R.lang(R.seq(R.star(_ANY), R.lit('/'), R.star(_ANY)), "contains '/'")

LOG_PREFIXES = ('log.', 'logging.', 'logger.')
NUMERIC = {'int', 'float', 'bool', 'len', 'isinstance', 'hash', 'type', 'id'}
TRANSPARENT = {'str', 'repr', 'format', 'quote', 'urllib.parse.quote'}  # value-preserving as far as '/' is concerned (quote keeps '/' by default)
BENIGN = {'json_response', 'web.Response', 'web.json_response', 'web.StreamResponse', 'render_template', 'set_message', 'print'}
SINK_TOKENS = {'file_store', 'fs', 'client_session', 'session', 'storage', 'retry_transient_errors', 'urlopen', 'open', 'request_retry_transient_errors', 'httpx'}
CONTAINER_MUTATORS = {'append', 'extend', 'add', 'update', 'setdefault', 'insert'}


_assign_cache: Dict[int, Dict[str, List[ast.AST]]] = {}


def _assignments(fn: pf.FuncDef) -> Dict[str, List[ast.AST]]:
    k = id(fn)
    if k not in _assign_cache:
        _assign_cache[k] = pf.assignments(fn)
    return _assign_cache[k]


def _resolve_name(fn: pf.FuncDef, e: ast.AST, depth: int = 3) -> ast.AST:
    cur = e
    for _ in range(depth):
        if not isinstance(cur, ast.Name):
            return cur
        d = _assignments(fn).get(cur.id, [])
        if len(d) != 1 or not isinstance(d[0], ast.expr):
            return cur
        cur = d[0]
    return cur


def match_info_key(fn: Optional[pf.FuncDef], e: ast.AST) -> Optional[str]:
    """`<x>.match_info[<k>]` / `<x>.match_info.get(<k>, ...)` (match_info possibly held in a single-definition local) -> k ('?' when
    k is not a literal); None for anything else."""
    base: Optional[ast.AST] = None
    key: Optional[ast.AST] = None
    if isinstance(e, ast.Subscript):
        base, key = e.value, e.slice
    elif isinstance(e, ast.Call) and isinstance(e.func, ast.Attribute) and e.func.attr == 'get' and e.args:
        base, key = e.func.value, e.args[0]
    if base is None:
        return None
    if isinstance(base, ast.Name) and fn is not None:
        base = _resolve_name(fn, base)
    if isinstance(base, ast.Attribute) and base.attr == 'match_info':
        k = pf.const_str(key) if key is not None else None
        return k if k is not None else '?'
    return None


def _const_strs(elts: Sequence[ast.AST]) -> Optional[List[str]]:
    out = []
    for x in elts:
        s = pf.const_str(x)
        if s is None:
            return None
        out.append(s)
    return out


def closed_collection(m: pf.Module, fn: Optional[pf.FuncDef], e: ast.AST, resolve, depth: int = 4) -> Optional[List[str]]:
    """A superset of the strings the collection expression can hold, when it is built from string literals only:
    a display of literals, set()/list()/tuple()/frozenset()/sorted() of one, a module constant, a single-definition local, a local
    list that starts as a display of literals and is only ever .append()ed / .extend()ed with literals, or the result of a
    module function all of whose returns are such collections.  None when not recognised (never a guess)."""
    if depth <= 0:
        return None
    if isinstance(e, ast.Await):
        e = e.value
    if isinstance(e, (ast.Tuple, ast.List, ast.Set)):
        return _const_strs(e.elts)
    if isinstance(e, ast.Dict):
        if any(k is None for k in e.keys):
            return None
        return _const_strs([k for k in e.keys if k is not None])
    if isinstance(e, ast.Call):
        name = pf.dotted(e.func)
        if name in ('set', 'list', 'tuple', 'frozenset', 'sorted') and len(e.args) == 1 and not e.keywords:
            return closed_collection(m, fn, e.args[0], resolve, depth - 1)
        if name in ('set', 'list', 'tuple', 'frozenset') and not e.args and not e.keywords:
            return []
        h = resolve(fn, e) if fn is not None else None
        if h is not None:
            rets = [r for r in pf.walk_shallow(h) if isinstance(r, ast.Return)]
            if not rets:
                return None
            out: List[str] = []
            for r in rets:
                if r.value is None:
                    return None
                c = closed_collection(m, h, r.value, resolve, depth - 1)
                if c is None:
                    return None
                out += c
            return sorted(set(out))
        return None
    if isinstance(e, ast.Name):
        if fn is not None and e.id in _assignments(fn):
            defs = _assignments(fn)[e.id]
            if len(defs) != 1 or not isinstance(defs[0], ast.expr):
                return None
            base = closed_collection(m, fn, defs[0], resolve, depth - 1)
            if base is None:
                return None
            out = list(base)
            par = m.parents()
            # every other occurrence of the name: receiver of .append(lit)/.extend(lits)/.add(lit), or a read
            for n in pf.walk_shallow(fn):
                if isinstance(n, ast.Name) and n.id == e.id and isinstance(n.ctx, ast.Load):
                    p = par.get(n)
                    if isinstance(p, ast.Attribute) and p.value is n and isinstance(par.get(p), ast.Call) and par[p].func is p:
                        call = par[p]
                        if p.attr in ('append', 'add') and len(call.args) == 1:
                            s = pf.const_str(call.args[0])
                            if s is None:
                                return None
                            out.append(s)
                        elif p.attr == 'extend' and len(call.args) == 1:
                            c = closed_collection(m, fn, call.args[0], resolve, depth - 1)
                            if c is None:
                                return None
                            out += c
                        elif p.attr in ('insert', 'update', '__setitem__', 'setdefault'):
                            return None
                elif isinstance(n, (ast.AugAssign,)) and isinstance(n.target, ast.Name) and n.target.id == e.id:
                    return None
                elif isinstance(n, ast.Subscript) and isinstance(n.value, ast.Name) and n.value.id == e.id and isinstance(n.ctx, ast.Store):
                    return None
            return sorted(set(out))
        try:
            v = m.global_assign(e.id)
        except AnalysisError:
            return None
        return closed_collection(m, None, v, resolve, depth - 1)
    return None


class _Tr(sp.Translator):
    """strpred.Translator + membership in a collection that is built from literals somewhere else (helper result, local list)."""

    resolve_fn = None  # set per instance

    def _atomic(self, e: ast.AST):  # type: ignore[override]
        if isinstance(e, ast.Compare) and len(e.ops) == 1 and isinstance(e.ops[0], (ast.In, ast.NotIn)) and self._is_param(e.left) \
                and not isinstance(e.comparators[0], ast.Constant):
            lits = closed_collection(self.m, self.fn, e.comparators[0], self.resolve_fn) if self.resolve_fn is not None else None
            if lits is not None:
                L = R.lang(self._any_of(lits), f'one of {lits!r}')
                return (L, ~L) if isinstance(e.ops[0], ast.In) else (~L, L)
        return super()._atomic(e)


class Raw:
    """A possibly unconfined string on its way through the handler."""

    def __init__(self, origin: str, where: str, line: int, key: str):
        self.origin = origin  # text of the source read
        self.where = where  # qualified name of the function that reads it
        self.line = line
        self.key = key
        self.problems: List[dict] = []
        self.guards_seen: List[str] = []


class PathFlow:
    def __init__(self, m: pf.Module):
        self.m = m
        self.par = m.parents()
        self._ret: Set[Tuple[int, str]] = set()
        self._active: Set[Tuple[int, str]] = set()
        self._index: Optional[Dict[int, Dict[str, pf.FuncDef]]] = None
        self._exit_memo: Dict[Tuple[int, str], Any] = {}
        self._sites: Dict[tuple, Dict[int, List[Tuple[pf.FuncDef, ast.Call, int]]]] = {}
        self.key_lang: Dict[str, Any] = {}  # path component -> language the route pattern itself confines it to

    # ---- name resolution (module functions and nested defs of the enclosing functions)
    def resolve(self, fn: Optional[pf.FuncDef], call: ast.Call) -> Optional[pf.FuncDef]:
        name = pf.dotted(call.func)
        if name is None or '.' in name:
            return None
        return self.resolve_name(fn, name)

    def resolve_name(self, fn: Optional[pf.FuncDef], name: str) -> Optional[pf.FuncDef]:
        if self._index is None:
            self._index = {}
            for n in ast.walk(self.m.tree):
                if isinstance(n, (ast.FunctionDef, ast.AsyncFunctionDef)):
                    owner = self.m.enclosing_func(n)
                    if owner is None and n not in self.m.tree.body:
                        continue  # a method: not callable by bare name
                    self._index.setdefault(id(owner) if owner is not None else 0, {}).setdefault(n.name, n)
        cur: Optional[pf.FuncDef] = fn
        while cur is not None:
            h = self._index.get(id(cur), {}).get(name)
            if h is not None:
                return h
            cur = self.m.enclosing_func(cur)
        return self._index.get(0, {}).get(name)

    def reachable(self, roots: Iterable[pf.FuncDef], depth: int = 5) -> List[pf.FuncDef]:
        seen: Dict[int, pf.FuncDef] = {}
        frontier = list(roots)
        for _ in range(depth + 1):
            nxt = []
            for f in frontier:
                if id(f) in seen:
                    continue
                seen[id(f)] = f
                for n in pf.walk_shallow(f):
                    if isinstance(n, ast.Call):
                        h = self.resolve(f, n)
                        if h is not None:
                            nxt.append(h)
                        for a in list(n.args) + [k.value for k in n.keywords]:  # function references handed to a runner
                            if isinstance(a, ast.Name):
                                h2 = self.resolve_name(f, a.id)
                                if h2 is not None:
                                    nxt.append(h2)
            frontier = nxt
        return list(seen.values())

    def call_sites(self, scope_fns: Sequence[pf.FuncDef]) -> Dict[int, List[Tuple[pf.FuncDef, ast.Call, int]]]:
        """callee id -> [(caller, call, offset)]: offset 0 for a direct call `f(a, b)`; k+1 when the function is handed to a runner as
        positional argument k (`run(f, a, b)`: f's parameters start at argument k+1)."""
        key = tuple(id(f) for f in scope_fns)
        if key not in self._sites:
            idx: Dict[int, List[Tuple[pf.FuncDef, ast.Call, int]]] = {}
            for f in scope_fns:
                for c in pf.walk_shallow(f):
                    if not isinstance(c, ast.Call):
                        continue
                    h = self.resolve(f, c)
                    if h is not None:
                        idx.setdefault(id(h), []).append((f, c, 0))
                    for kpos, a in enumerate(c.args):
                        if isinstance(a, ast.Name):
                            h2 = self.resolve_name(f, a.id)
                            if h2 is not None and a.id not in _assignments(f):
                                idx.setdefault(id(h2), []).append((f, c, kpos + 1))
            self._sites[key] = idx
        return self._sites[key]

    # ---- sources
    def returns_raw(self, fn: pf.FuncDef) -> Optional[str]:
        for r in pf.walk_shallow(fn):
            if isinstance(r, ast.Return) and r.value is not None:
                v = _resolve_name(fn, r.value)
                k = match_info_key(fn, v)
                if k is not None:
                    return k
        return None

    def sources(self, fn: pf.FuncDef) -> List[dict]:
        """One entry per read of a path component in fn: {'key', 'node', 'form': 'int'|'var'|'inline'|'returned', 'var'}."""
        out = []
        for n in pf.walk_shallow(fn):
            k = match_info_key(fn, n)
            src_node: Optional[ast.AST] = n if k is not None else None
            if k is None and isinstance(n, ast.Call):
                h = self.resolve(fn, n)
                if h is not None and h is not fn:
                    k = self.returns_raw(h)
                    if k is not None:
                        src_node = n
            if src_node is None or k is None:
                continue
            # `.get` form: the Subscript form never nests inside the Call form, but `<x>.match_info.get` contains no second match
            p = self.par.get(src_node)
            if isinstance(p, ast.Await):
                src_node, p = p, self.par.get(p)
            if isinstance(p, ast.Call) and pf.dotted(p.func) == 'int' and src_node in p.args:
                out.append({'key': k, 'node': src_node, 'form': 'int'})
            elif isinstance(p, (ast.Assign, ast.AnnAssign)) and p.value is src_node and \
                    ((isinstance(p, ast.Assign) and len(p.targets) == 1 and isinstance(p.targets[0], ast.Name)) or (isinstance(p, ast.AnnAssign) and isinstance(p.target, ast.Name))):
                t = p.targets[0] if isinstance(p, ast.Assign) else p.target
                out.append({'key': k, 'node': src_node, 'form': 'var', 'var': t.id})  # type: ignore[union-attr]
            elif isinstance(p, ast.Return):
                out.append({'key': k, 'node': src_node, 'form': 'returned'})
            else:
                out.append({'key': k, 'node': src_node, 'form': 'inline'})
        return out

    # ---- the flow of one raw value
    def analyse_source(self, fn: pf.FuncDef, s: dict) -> Raw:
        raw = Raw(pf.nsrc(s['node']), self.m.qualname(fn), getattr(s['node'], 'lineno', fn.lineno), s['key'])
        L0 = self.key_lang.get(s['key'], R.everything())
        if s['key'] in self.key_lang:
            raw.guards_seen.append(f"route pattern {{{s['key']}:...}}")
        if s['form'] == 'var':
            self.flow_var(fn, s['var'], L0, raw, 6, [])
        elif s['form'] == 'inline':
            g = pf.cfg(fn)
            for cn in g.node_of(s['node']) or []:
                if self._message_only(cn, s['node']):
                    continue
                w = R.shortest(L0 & SLASH)
                if w is None:
                    continue
                self.escape(fn, g, cn, s['node'], L0, True, raw, 6, [], witness=w)
        return raw

    def _message_only(self, cn: pf.Node, node: ast.AST) -> bool:
        """The occurrence only feeds an exception or a log line."""
        if cn.kind == 'raise':
            return True
        cur: Optional[ast.AST] = node
        while cur is not None and not isinstance(cur, ast.stmt):
            cur = self.par.get(cur)
            if isinstance(cur, ast.Raise):
                return True
            if isinstance(cur, ast.Call):
                name = pf.dotted(cur.func) or ''
                if name.startswith(LOG_PREFIXES):
                    return True
        return False

    def guards(self, fn: pf.FuncDef, g: pf.CFG, var: str, depth: int = 3) -> List[Tuple[pf.Node, str, Any, Any]]:
        """Conditions on var: (cfg node, kind, T, F).
             'test'    a branch condition that mentions var: T / F = language of var on the true / false edge (None: not translatable)
             'assert'  `assert <condition>`: T holds after it
             'call'    a statement that hands var to a checking helper of this module / looks it up in a literal collection with a
                       raising lookup (`COLL.index(v)`, `TABLE[v]`): T = the values for which the statement completes normally"""
        out = []
        single = len(_assignments(fn).get(var, [])) == 1
        for n in g.nodes:
            cond: Optional[ast.AST] = None
            kind = ''
            if n.kind == 'test' and n.ast is not None:
                cond, kind = n.ast, 'test'
            elif n.ast is not None and isinstance(n.ast, ast.Assert):
                cond, kind = n.ast.test, 'assert'
            if cond is not None and var in pf.names_in(cond):
                T = F = None
                if single:
                    try:
                        t = _Tr(self.m, fn, var)
                        t.resolve_fn = self.resolve
                        T, F = t.cond2(cond)
                    except AnalysisError:
                        T = F = None
                out.append((n, kind, T, F))
                continue
            if not single or n.ast is None or n.kind not in ('stmt', 'return', 'test'):
                continue
            for x in pf.node_exprs(n):
                for c in pf.walk_shallow(x):
                    T = None
                    if isinstance(c, ast.Call):
                        h = self.resolve(fn, c)
                        if h is not None and h is not fn and depth > 0:
                            params = [a.arg for a in h.args.posonlyargs + h.args.args]
                            q = None
                            for i, a in enumerate(c.args):
                                if isinstance(a, ast.Name) and a.id == var and i < len(params) and not any(isinstance(b, ast.Starred) for b in c.args[:i]):
                                    q = params[i]
                            for kw in c.keywords:
                                if isinstance(kw.value, ast.Name) and kw.value.id == var and kw.arg is not None:
                                    q = kw.arg
                            if q is not None:
                                T = self.exit_lang(h, q, depth - 1)
                        elif isinstance(c.func, ast.Attribute) and c.func.attr == 'index' and len(c.args) == 1 and isinstance(c.args[0], ast.Name) and c.args[0].id == var:
                            lits = closed_collection(self.m, fn, c.func.value, self.resolve)
                            if lits is not None:
                                T = R.lang(sp.Translator._any_of(lits), f'one of {lits!r}')
                    elif isinstance(c, ast.Subscript) and isinstance(c.slice, ast.Name) and c.slice.id == var and isinstance(c.ctx, ast.Load):
                        lits = closed_collection(self.m, fn, c.value, self.resolve)
                        if lits is not None:
                            T = R.lang(sp.Translator._any_of(lits), f'a key of {lits!r}')
                    if T is not None:
                        out.append((n, 'call', T, None))
        return out

    def _passes_normally(self, g: pf.CFG, t: pf.Node, target: pf.Node) -> bool:
        """Every path entry -> target runs t and leaves it by a normal (non-exceptional) edge."""
        if t is target:
            return False
        return g.path_avoiding(g.entry, lambda x: x is target, lambda x: False, edge_ok=lambda a, b, l: not (a is t and l != 'exc')) is None

    def exit_lang(self, h: pf.FuncDef, q: str, depth: int) -> Optional[Any]:
        """The values of parameter q for which h can return normally (intersection of the conditions every path to the normal exit
        has passed); None when h places no condition on q."""
        key = (id(h), q)
        if key in self._exit_memo:
            return self._exit_memo[key]
        self._exit_memo[key] = None
        g = pf.cfg(h)
        L = None
        for (t, kind, T, F) in self.guards(h, g, q, depth):
            if kind == 'test':
                for lab, lang in (('T', T), ('F', F)):
                    if lang is not None and g.path_avoiding(g.entry, lambda x: x is g.exit, lambda x: False, edge_ok=lambda a, b, l, t=t, lab=lab: not (a is t and l == lab)) is None:
                        L = lang if L is None else (L & lang)
            elif T is not None and self._passes_normally(g, t, g.exit):
                L = T if L is None else (L & T)
        self._exit_memo[key] = L
        return L

    def flow_var(self, fn: pf.FuncDef, var: str, L0: Any, raw: Raw, depth: int, trail: List[str]) -> None:
        key = (id(fn), var)
        if key in self._active:
            return
        if depth <= 0:
            raise AnalysisError(f'{self.m.rel}: path component {raw.origin} is forwarded through more than 6 helpers ({" -> ".join(trail)})')
        self._active.add(key)
        try:
            g = pf.cfg(fn)
            guards = self.guards(fn, g, var)
            # closures that capture the value are not followed
            for n in ast.walk(fn):
                if n is not fn and isinstance(n, (ast.FunctionDef, ast.AsyncFunctionDef, ast.Lambda)):
                    params = {a.arg for a in n.args.posonlyargs + n.args.args + n.args.kwonlyargs}
                    if var not in params and any(isinstance(x, ast.Name) and x.id == var and isinstance(x.ctx, ast.Load) for x in ast.walk(n)):
                        raise AnalysisError(f'{self.m.rel}::{self.m.qualname(fn)}: the path component `{var}` ({raw.origin}) is captured by a nested function: not followed')
            for use in pf.walk_shallow(fn):
                if not (isinstance(use, ast.Name) and use.id == var and isinstance(use.ctx, ast.Load)):
                    continue
                for cn in g.node_of(use):
                    if self._message_only(cn, use):
                        continue
                    if any(x[0] is cn and x[1] in ('test', 'assert') and x[2] is not None for x in guards):
                        continue  # the occurrence is part of a pure string predicate over the value
                    p = self.par.get(use)
                    if isinstance(p, ast.Call) and (pf.dotted(p.func) or '') in NUMERIC and use in p.args:
                        continue
                    L = L0
                    undecided: List[str] = []
                    for (t, kind, T, F) in guards:
                        if t is cn:
                            continue
                        if kind in ('assert', 'call'):
                            if self._passes_normally(g, t, cn):
                                if T is None:
                                    undecided.append(pf.nsrc(t.ast))
                                else:
                                    L = L & T
                                    self._note(raw, t)
                            continue
                        for lab, lang in (('T', T), ('F', F)):
                            if g.path_avoiding(g.entry, lambda x: x is cn, lambda x: False, edge_ok=lambda a, b, l, t=t, lab=lab: not (a is t and l == lab)) is None:
                                if lang is None:
                                    undecided.append(pf.nsrc(t.ast))
                                else:
                                    L = L & lang
                                    self._note(raw, t)
                    w = R.shortest(L & SLASH)
                    if w is None:
                        continue  # confined to strings without '/'
                    before = len(raw.problems)
                    self.escape(fn, g, cn, use, L, True, raw, depth, trail, witness=w)
                    if len(raw.problems) > before and undecided:
                        raise AnalysisError(f'{self.m.rel}::{self.m.qualname(fn)}: the condition `{undecided[0][:80]}` on the path component `{var}` is not a recognised string predicate; '
                                            'cannot decide what it admits')
        finally:
            self._active.discard(key)

    def _note(self, raw: Raw, t: pf.Node) -> None:
        s = pf.nsrc(t.ast.test if isinstance(t.ast, ast.Assert) else t.ast)[:100]
        if s not in raw.guards_seen:
            raw.guards_seen.append(s)

    def escape(self, fn: pf.FuncDef, g: pf.CFG, cn: pf.Node, start: ast.AST, L: Any, direct: bool, raw: Raw, depth: int, trail: List[str], witness: str = '/') -> None:
        """Follow the value of `start` outwards through the expression that contains it."""
        cur = start
        while True:
            p = self.par.get(cur)
            if p is None or p is fn:
                return
            if isinstance(p, ast.keyword):
                cur = p
                continue
            if isinstance(p, ast.Call):
                if cur is p.func:
                    cur, direct = p, False
                    continue
                r = self.call(fn, g, cn, p, cur, L, direct, raw, depth, trail, witness)
                if r == 'stop':
                    return
                cur, direct = p, direct and r == 'same'
                continue
            if isinstance(p, ast.Attribute):
                cur, direct = p, False
                continue
            if isinstance(p, ast.IfExp):
                if cur is p.test:
                    return
                cur = p
                continue
            if isinstance(p, ast.Subscript):
                if cur is p.slice:
                    return  # used as a lookup key of an in-memory mapping
                cur, direct = p, False
                continue
            if isinstance(p, (ast.Compare, ast.UnaryOp)):
                return
            if isinstance(p, ast.BoolOp):
                cur = p
                continue
            if isinstance(p, (ast.ListComp, ast.SetComp, ast.GeneratorExp, ast.DictComp)) and not isinstance(cur, ast.comprehension):
                cur, direct = p, False
                continue
            if isinstance(p, (ast.FormattedValue, ast.JoinedStr, ast.BinOp, ast.Tuple, ast.List, ast.Set, ast.Dict, ast.Starred, ast.Await, ast.NamedExpr)):
                if isinstance(p, ast.NamedExpr) and isinstance(p.target, ast.Name):
                    self.flow_var(fn, p.target.id, L if direct else R.everything(), raw, depth, trail)
                cur, direct = p, direct and isinstance(p, (ast.Await, ast.NamedExpr))
                continue
            if isinstance(p, ast.stmt):
                self.statement(fn, p, cur, L, direct, raw, depth, trail)
                return
            raise AnalysisError(f'{self.m.rel}::{self.m.qualname(fn)}: the path component {raw.origin} is used in `{pf.nsrc(p)[:80]}` (line {getattr(p, "lineno", "?")}): shape not followed')

    def statement(self, fn: pf.FuncDef, st: ast.stmt, cur: ast.AST, L: Any, direct: bool, raw: Raw, depth: int, trail: List[str]) -> None:
        if isinstance(st, (ast.Assign, ast.AnnAssign, ast.AugAssign)):
            targets = st.targets if isinstance(st, ast.Assign) else [st.target]
            if getattr(st, 'value', None) is not cur and not any(cur is x for x in ast.walk(getattr(st, 'value', cur))):
                return  # the value sits in the target (an index), not in what is stored
            for t in targets:
                if isinstance(t, ast.Name):
                    self.flow_var(fn, t.id, L if (direct and isinstance(st, (ast.Assign, ast.AnnAssign))) else R.everything(), raw, depth, trail)
                elif isinstance(t, (ast.Subscript, ast.Attribute)):
                    b: ast.AST = t
                    while isinstance(b, (ast.Subscript, ast.Attribute)):
                        b = b.value
                    if isinstance(b, ast.Name):
                        self.flow_var(fn, b.id, R.everything(), raw, depth, trail)
                    else:
                        raise AnalysisError(f'{self.m.rel}::{self.m.qualname(fn)}: the path component {raw.origin} is stored into `{pf.nsrc(t)[:60]}`: not followed')
                else:
                    raise AnalysisError(f'{self.m.rel}::{self.m.qualname(fn)}: the path component {raw.origin} is unpacked by `{pf.nsrc(st)[:60]}`: not followed')
            return
        if isinstance(st, ast.Return):
            self._ret.add((id(fn), raw.origin))
            return
        if isinstance(st, (ast.Expr, ast.Raise, ast.Assert, ast.Delete, ast.Pass)):
            return
        if isinstance(st, (ast.If, ast.While)) and any(cur is x for x in ast.walk(st.test)):
            return  # truthiness only
        raise AnalysisError(f'{self.m.rel}::{self.m.qualname(fn)}: the path component {raw.origin} is used by `{pf.nsrc(st)[:80]}` (line {st.lineno}): shape not followed')

    def call(self, fn: pf.FuncDef, g: pf.CFG, cn: pf.Node, call: ast.Call, arg: ast.AST, L: Any, direct: bool, raw: Raw, depth: int, trail: List[str], witness: str) -> str:
        """'stop' (the value ends here), 'same' (the result IS the value), 'derived' (the result contains it)."""
        name = pf.dotted(call.func) or pf.nsrc(call.func)
        if name in NUMERIC:
            return 'stop'
        if name in TRANSPARENT:
            return 'same' if name == 'str' else 'derived'
        if name.startswith(LOG_PREFIXES):
            return 'stop'
        while isinstance(arg, ast.keyword):
            arg = arg.value
        h = self.resolve(fn, call)
        if h is not None:
            params = [a.arg for a in h.args.posonlyargs + h.args.args]
            target: Optional[str] = None
            kw = next((k for k in call.keywords if k.value is arg), None)
            if kw is not None:
                target = kw.arg if kw.arg is not None else (h.args.kwarg.arg if h.args.kwarg else None)
            else:
                idx = next((i for i, a in enumerate(call.args) if a is arg), None)
                if idx is not None and not any(isinstance(a, ast.Starred) for a in call.args[:idx + 1]):
                    target = params[idx] if idx < len(params) else (h.args.vararg.arg if h.args.vararg else None)
            if target is None:
                raise AnalysisError(f'{self.m.rel}::{self.m.qualname(fn)}: cannot map the argument `{pf.nsrc(arg)[:40]}` of `{name}(...)` to a parameter')
            before = (id(h), raw.origin) in self._ret
            self.flow_var(h, target, L if direct else R.everything(), raw, depth - 1, trail + [self.m.qualname(fn)])
            return 'derived' if ((id(h), raw.origin) in self._ret or before) else 'stop'
        if isinstance(call.func, ast.Attribute) and call.func.attr in sf.EXEC_METHODS:
            if call.args and any(arg is x for x in ast.walk(call.args[0])):
                self.problem(raw, fn, call, name, witness, 'is spliced into the text of an SQL statement')
            return 'stop'  # a bound %s parameter: compared as a value
        if name in BENIGN or name.startswith('web.HTTP') or name.endswith(('Error', 'Exception')):
            return 'stop'
        toks = set(re.split(r'[^A-Za-z0-9_]+', name))
        for a in list(call.args) + [k.value for k in call.keywords]:
            d = pf.dotted(a)
            if d is not None:
                toks |= set(d.split('.'))
        if toks & SINK_TOKENS:
            self.problem(raw, fn, call, name, witness, 'selects what is fetched')
            return 'stop'
        if isinstance(call.func, ast.Attribute) and len(call.args) >= 1 and call.args[0] is arg and (
                call.func.attr in ('index', 'count') or (call.func.attr in ('get', 'pop') and closed_collection(self.m, fn, call.func.value, self.resolve) is not None)):
            return 'stop'  # looked up in an in-memory collection: the result does not contain the value
        if isinstance(call.func, ast.Attribute) and call.func.attr in CONTAINER_MUTATORS and isinstance(call.func.value, ast.Name):
            self.flow_var(fn, call.func.value.id, R.everything(), raw, depth, trail)
            return 'stop'
        if isinstance(call.func, ast.Attribute) and call.func.attr in ('join', 'format', 'format_map') :
            return 'derived'
        raise AnalysisError(f'{self.m.rel}::{self.m.qualname(fn)}: the unvalidated path component {raw.origin} is handed to `{name}(...)` (line {call.lineno}), which is neither a '
                            'helper of this module nor a classified library call; cannot decide whether it selects a resource')

    def problem(self, raw: Raw, fn: pf.FuncDef, call: ast.Call, name: str, witness: str, what: str) -> None:
        tmpl = ''
        for a in call.args:
            if isinstance(a, ast.JoinedStr):
                tmpl = pf.nsrc(a)
        raw.problems.append({'fn': self.m.qualname(fn), 'sink': name, 'line': call.lineno, 'witness': witness, 'what': what, 'template': tmpl})


# ================================================================================================
# 2. billing-project membership: readers and revocation
# ================================================================================================

TABLE = 'billing_project_users'


def _lc(s: str) -> str:
    return s.lower().replace('`', '')


def _templates_mentioning(module: pf.Module, word: str) -> List[sf.Template]:
    """sqlfront.templates_in(module, must_contain=[word]) with the cheap textual pre-filter applied first.  A literal that is one piece
    of a concatenation is read as the whole concatenation; the text of a module-level constant (`_SQL = '...'`, pieces and other
    constants resolved by engines/c06c14sql) is attributed to every function of the module that mentions the constant."""
    from . import c06c14sql as sq
    out: List[sf.Template] = []
    par = module.parents()
    seen: Set[int] = set()
    for node in ast.walk(module.tree):
        if isinstance(node, ast.Constant):
            if not (isinstance(node.value, str) and word in node.value):
                continue
        elif isinstance(node, ast.JoinedStr):
            if not any(isinstance(v, ast.Constant) and isinstance(v.value, str) and word in v.value for v in node.values):
                continue
        else:
            continue
        p = par.get(node)
        if isinstance(p, (ast.JoinedStr, ast.FormattedValue, ast.Expr)):
            continue
        top: ast.AST = node
        while isinstance(par.get(top), ast.BinOp) and isinstance(par[top].op, ast.Add):
            top = par[top]
        if id(top) in seen:
            continue
        seen.add(id(top))
        fn = module.enclosing_func(node)
        if top is node:
            sql, holes, _how = sf._sql_of_expr(fn, node)
        else:
            sql, holes = sq.sql_of_expr(module, fn, top)  # type: ignore[arg-type]
        if sql is None or not sf._SQLISH.search(sql) or word not in sql:
            continue
        st = par.get(top)
        name = None
        if fn is None and isinstance(st, ast.Assign) and len(st.targets) == 1 and isinstance(st.targets[0], ast.Name) and st in module.tree.body:
            name = st.targets[0].id
        elif fn is None and isinstance(st, ast.AnnAssign) and isinstance(st.target, ast.Name) and st in module.tree.body:
            name = st.target.id
        users: List[pf.FuncDef] = []
        piece_only = False
        if name is not None and sq.module_constants(module).get(name) is not None:
            for n in ast.walk(module.tree):
                if isinstance(n, ast.Name) and n.id == name and isinstance(n.ctx, ast.Load):
                    u = module.enclosing_func(n)
                    if u is None:
                        piece_only = True  # spliced into another module-level constant, which is read as a whole
                    elif not any(u is x for x in users):
                        users.append(u)
        if piece_only and not users:
            continue
        if users:
            for u in users:
                out.append(sf.Template(module, u, top, sql, holes))  # type: ignore[arg-type]
        else:
            out.append(sf.Template(module, fn, top, sql, holes))  # type: ignore[arg-type]
    return out


_CMP = ('=', '<', '>', '<=', '>=', '<>', '!=', 'LIKE')


def _may3(e: N, known) -> set:
    """sqleval.may3 with one more decided leaf: a comparison one of whose operands is a column known to be NULL is NULL whatever
    the other operand is (sqleval gives up as soon as one atom is unknown)."""
    k = e.kind
    if k == 'bin' and e.op in ('AND', 'OR'):
        a, b = _may3(e.left, known), _may3(e.right, known)
        out = set()
        for x in a:
            for y in b:
                if e.op == 'AND':
                    out.add(False if (x is False or y is False) else None if (x is None or y is None) else True)
                else:
                    out.add(True if (x is True or y is True) else None if (x is None or y is None) else False)
        return out
    if k == 'un' and e.op == 'NOT':
        return {None if v is None else (not v) for v in _may3(e.arg, known)}
    if k == 'bin' and e.op in _CMP:
        for side in (e.left, e.right):
            if side.kind == 'col' and known(side) is None:
                return {None}
    return may3(e, known)


def where_fragments(module: pf.Module, fn: Optional[pf.FuncDef], hole: ast.AST, word: str = 'billing_project_users') -> List[N]:
    """Conjuncts of a WHERE clause given as `' AND '.join(<list of condition strings>)`."""
    e = hole
    if isinstance(e, ast.Name) and fn is not None:
        d = pf.single_def(fn, e.id)
        if isinstance(d, ast.expr):
            e = d
    if not (isinstance(e, ast.Call) and isinstance(e.func, ast.Attribute) and e.func.attr == 'join' and len(e.args) == 1 and (pf.const_str(e.func.value) or '').strip().upper() == 'AND'):
        raise AnalysisError(f'{module.rel}: the WHERE clause of a query  is `{pf.nsrc(hole)[:60]}`: not an AND-join of a condition list')
    lst = e.args[0]
    items: List[ast.AST] = []
    if isinstance(lst, (ast.List, ast.Tuple)):
        items = list(lst.elts)
    elif isinstance(lst, ast.Name) and fn is not None:
        defs = [d for d in _assignments(fn).get(lst.id, []) if isinstance(d, ast.expr)]
        if len(defs) != 1 or not isinstance(defs[0], (ast.List, ast.Tuple)):
            raise AnalysisError(f'{module.rel}::{module.qualname(fn)}: condition list `{lst.id}` is not a single list display')
        items = list(defs[0].elts)
        for n in pf.walk_shallow(fn):
            if isinstance(n, ast.Call) and isinstance(n.func, ast.Attribute) and isinstance(n.func.value, ast.Name) and n.func.value.id == lst.id:
                if n.func.attr == 'append' and len(n.args) == 1:
                    items.append(n.args[0])
                elif n.func.attr == 'extend' and len(n.args) == 1 and isinstance(n.args[0], (ast.List, ast.Tuple)):
                    items += list(n.args[0].elts)
    else:
        raise AnalysisError(f'{module.rel}: condition list `{pf.nsrc(lst)[:60]}` not resolved')
    out: List[N] = []
    for it in items:
        s = pf.const_str(it)
        if s is None:
            # a computed term: only its literal parts are visible; it matters only when it talks about the membership table
            t = pf.nsrc(it)
            if word in t:
                raise AnalysisError(f'{module.rel}: computed condition `{t[:60]}` mentions {word}: not analysed')
            continue
        try:
            p = Parser(s)
            ex = p.expr()
            if not p.at_end():
                raise SqlParseError('trailing text')
        except SqlParseError as err:
            if word in s:
                raise AnalysisError(f'{module.rel}: condition `{s[:60]}` does not parse ({err})')
            continue
        out += sf.conjuncts(ex)
    return out



class Reader:
    def __init__(self, module: pf.Module, fn: Optional[pf.FuncDef], qual: str, line: int, select: N, conjuncts: List[N], scope_tables: Dict[str, str]):
        self.module = module
        self.fn = fn
        self.qual = qual
        self.line = line
        self.select = select
        self.conjuncts = conjuncts
        self.scope_tables = scope_tables  # alias (lower) -> table name (lower)

    @property
    def construct(self) -> str:
        return f'{self.module.rel}::{self.qual}'


class Membership:
    def __init__(self, prog: sf.SqlProgram):
        self.prog = prog
        cols = None
        for k, v in prog.tables.items():
            if k.lower() == TABLE:
                cols = [c.lower() for c in v]
        if not cols:
            raise AnalysisError(f'anchor vanished: table {TABLE} is not created by the migrations')
        self.cols: List[str] = cols
        self.other_cols: Dict[str, Set[str]] = {k.lower(): {c.lower() for c in v} for k, v in prog.tables.items() if k.lower() != TABLE}

    # ---- columns
    def bpu_col(self, c: N, scope: Dict[str, str], extra: Iterable[str] = ()) -> Optional[str]:
        parts = [_lc(p) for p in c.parts]
        if len(parts) >= 2:
            return parts[-1] if scope.get(parts[-2], parts[-2]) == TABLE else None
        name = parts[-1]
        if name not in self.cols and name not in extra:
            return None
        for alias, tab in scope.items():
            if tab != TABLE and name in self.other_cols.get(tab, ()):  # ambiguous or belongs to the other table
                return None
        return name

    # ---- readers
    def readers_in(self, module: pf.Module) -> List[Reader]:
        out: List[Reader] = []
        for t in _templates_mentioning(module, TABLE):
            sts = t.stmts()
            if t.parse_error is not None:
                raise AnalysisError(f'{module.rel}::{t.qual}: SQL over {TABLE} does not parse: {t.parse_error}')
            for st in sts:
                for sel in st.walk():
                    if sel.kind != 'select' or sel.frm is None:
                        continue
                    tabs = [x for x in sf.from_tables(sel.frm) if x.kind == 'table']
                    if not any(x.name.lower() == TABLE for x in tabs):
                        continue
                    scope = {_lc(x.alias or x.name): x.name.lower() for x in tabs}
                    conj: List[N] = []
                    where_conj = sf.conjuncts(sel.where)
                    for c in where_conj:
                        if c.kind == 'hole':
                            idx = re.search(r'(\d+)', c.text)
                            if idx is None or int(idx.group(1)) >= len(t.holes):
                                raise AnalysisError(f'{module.rel}::{t.qual}: WHERE hole {c.text} not resolved')
                            conj += where_fragments(module, t.fn, t.holes[int(idx.group(1))], TABLE)
                        else:
                            conj.append(c)
                    null_rejecting = any(c.kind == 'bin' and c.op in ('=', '<', '>', '<=', '>=', '<>', '!=', 'LIKE') and
                                         any(self.bpu_col(x, scope) is not None for x in sf.cols_in([c.left, c.right])) for c in conj)
                    first_is_bpu = sel.frm.first.kind == 'table' and sel.frm.first.name.lower() == TABLE
                    for j in sel.frm.joins:
                        if j.on is None:
                            continue
                        is_bpu_join = j.ref.kind == 'table' and j.ref.name.lower() == TABLE
                        jt = (j.jtype or '').upper()
                        inner = 'LEFT' not in jt and 'RIGHT' not in jt
                        # an ON condition filters membership rows when the join is inner, or when it is the outer join that brings the
                        # membership table in and the WHERE clause rejects the NULL-extended row
                        if inner or (is_bpu_join and 'LEFT' in jt and null_rejecting) or (first_is_bpu and False):
                            conj += sf.conjuncts(j.on)
                    out.append(Reader(module, t.fn, t.qual, t.lineno, sel, conj, scope))
        return out

    def may_admit(self, r: Reader, state: Dict[str, Any]) -> Tuple[str, List[str]]:
        """Can a membership row whose columns have the given values (literal, or UNKNOWN for a value that is not a literal) pass
        the reader's filter?  Three-valued may-analysis per conjunct, every other atom unknown.
        -> ('rejects' | 'admits' | 'undecided', the conjuncts that look at the state columns)."""
        looked: List[str] = []
        verdict = 'admits'
        for c in r.conjuncts:
            mentions = [self.bpu_col(x, r.scope_tables, state.keys()) for x in sf.cols_in(c)]
            hit = [mm for mm in mentions if mm is not None and mm in state]
            if not hit:
                continue
            looked.append(text(c))

            def known(n: N) -> Any:
                if n.kind == 'col':
                    b = self.bpu_col(n, r.scope_tables, state.keys())
                    if b is not None and b in state:
                        return state[b]
                return UNKNOWN
            if True not in _may3(c, known):
                return 'rejects', looked
            if any(state[h] is UNKNOWN for h in hit):
                verdict = 'undecided'
        return verdict, looked

    # ---- writes
    def writes_in(self, module: pf.Module, fns: Sequence[pf.FuncDef]) -> List[dict]:
        """Statements that write the membership table, executed by the given functions (CALLs followed into the effective routines)."""
        ids = {id(f) for f in fns}
        out = []
        for e in sf.embedded_in(module):
            if e.fn is None or id(e.fn) not in ids:
                continue
            if e.sql_text is None:
                continue
            sts = e.stmts()
            if e.parse_error is not None:
                if TABLE in (e.sql_text or ''):
                    raise AnalysisError(f'{module.rel}::{e.qual}: statement over {TABLE} does not parse: {e.parse_error}')
                continue
            for st in sts:
                cands = [st]
                if st.kind == 'call' and st.name in self.prog.routines:
                    cands = list(sf.all_statements(self.prog.routines[st.name].ast.body))
                for s2 in cands:
                    for tab, verb in sf.written_tables(s2):
                        if tab.lower() == TABLE:
                            out.append({'emb': e, 'st': s2, 'verb': verb, 'direct': s2 is st})
        return out

    def set_state(self, st: N) -> Dict[str, Any]:
        """column -> literal value (or UNKNOWN) written by an UPDATE of the membership table / the ON DUPLICATE KEY part of an INSERT."""
        sets = st.sets if st.kind == 'update' else (st.on_dup or [])
        out: Dict[str, Any] = {}
        for c, v in sets:
            if c.kind != 'col':
                continue
            name = _lc(c.parts[-1])
            if v.kind == 'lit':
                out[name] = 1 if v.value is True else 0 if v.value is False else v.value
            else:
                out[name] = UNKNOWN
        return out

    def key_binding(self, w: dict) -> Dict[str, Optional[ast.expr]]:
        """For a DELETE/UPDATE of the membership table: the python expressions bound to the `user`/`user_cs = %s` and
        project (`billing_project = %s` / billing_projects.name[_cs] = %s) conjuncts."""
        e, st = w['emb'], w['st']
        if not w['direct']:
            return {'user': None, 'project': None}  # written inside a stored routine: the key binding is not followed
        params = sr.params_in_order(st)
        elts = sr.args_tuple(e.fn, e.call.args[1] if len(e.call.args) > 1 else None)
        if elts is None or len(elts) != len(params):
            raise AnalysisError(f'{e.module.rel}::{e.qual}: cannot pair the %s of `{text(st)[:60]}` with its arguments')
        bind = {p.pos: x for p, x in zip(params, elts)}
        tabs = [x for x in sf.from_tables(st.frm) if x.kind == 'table']
        scope = {_lc(x.alias or x.name): x.name.lower() for x in tabs}
        out: Dict[str, Optional[ast.expr]] = {'user': None, 'project': None}
        for c in sf.conjuncts(st.where):
            if c.kind == 'bin' and c.op == '=':
                for col, val in ((c.left, c.right), (c.right, c.left)):
                    if col.kind == 'col' and val.kind == 'param':
                        b = self.bpu_col(col, scope)
                        parts = [_lc(p) for p in col.parts]
                        if b in ('user', 'user_cs'):
                            out['user'] = bind[val.pos]
                        elif b == 'billing_project' or (len(parts) >= 2 and scope.get(parts[-2], parts[-2]) == 'billing_projects' and parts[-1] in ('name', 'name_cs')):
                            out['project'] = bind[val.pos]
        return out


def trace_to_path_component(flow: PathFlow, scope_fns: Sequence[pf.FuncDef], fn: pf.FuncDef, e: ast.AST, depth: int = 6,
                            handler_params: Optional[Dict[int, Dict[str, str]]] = None, memo: Optional[Dict[Tuple[int, str], Set[str]]] = None) -> Set[str]:
    """The path components an expression inside fn can denote, following parameters back through every call site in scope_fns
    (direct calls `f(a, b)`, keyword arguments, and runner calls `run(f, a, b)` that receive the function as an argument).
    `int(x)` is looked through; handler_params[id(handler)][param] names the component a route wrapper hands to the handler
    (billing_project_users_only passes the path's batch id as the third argument).  '?<text>' for anything else."""
    m = flow.m
    if depth <= 0:
        return {'?' + pf.nsrc(e)[:40]}
    while True:
        if isinstance(e, ast.Await):
            e = e.value
        elif isinstance(e, ast.Call) and pf.dotted(e.func) == 'int' and len(e.args) == 1 and not e.keywords:
            e = e.args[0]
        else:
            break
    k = match_info_key(fn, e)
    if k is not None:
        return {k}
    if not isinstance(e, ast.Name):
        return {'?' + pf.nsrc(e)[:40]}
    owner: Optional[pf.FuncDef] = fn
    while owner is not None and e.id not in _assignments(owner):
        owner = m.enclosing_func(owner)
    if owner is None:
        return {'?' + e.id}
    if memo is not None and (id(owner), e.id) in memo:
        return memo[(id(owner), e.id)]
    if memo is not None:
        memo[(id(owner), e.id)] = {'?' + e.id}  # cycle guard
    out = _trace_name(flow, scope_fns, owner, e.id, depth, handler_params, memo)
    if memo is not None:
        memo[(id(owner), e.id)] = out
    return out


def _trace_name(flow: PathFlow, scope_fns: Sequence[pf.FuncDef], owner: pf.FuncDef, name: str, depth: int,
                handler_params: Optional[Dict[int, Dict[str, str]]], memo: Optional[Dict[Tuple[int, str], Set[str]]]) -> Set[str]:
    defs = _assignments(owner)[name]
    if len(defs) != 1:
        return {'?' + name}
    d = defs[0]
    if isinstance(d, ast.expr):
        return trace_to_path_component(flow, scope_fns, owner, d, depth - 1, handler_params, memo)
    if not isinstance(d, ast.arg):
        return {'?' + name}
    if handler_params and name in handler_params.get(id(owner), {}):
        return {handler_params[id(owner)][name]}
    params = [a.arg for a in owner.args.posonlyargs + owner.args.args]
    kwonly = [a.arg for a in owner.args.kwonlyargs]
    if name not in params and name not in kwonly:
        return {'?' + name}
    i = params.index(name) if name in params else None
    out: Set[str] = set()
    for f, c, offset in flow.call_sites(scope_fns).get(id(owner), []):
        arg: Optional[ast.AST] = None
        if offset == 0:
            if i is not None and i < len(c.args):
                if any(isinstance(a, ast.Starred) for a in c.args[:i + 1]):
                    out.add('?*')
                    continue
                arg = c.args[i]
            else:
                arg = next((kw.value for kw in c.keywords if kw.arg == name), None)
        elif i is not None and offset + i < len(c.args):
            arg = c.args[offset + i]
        if arg is None:
            continue
        if isinstance(arg, ast.Starred):
            out.add('?*')
            continue
        out |= trace_to_path_component(flow, scope_fns, f, arg, depth - 1, handler_params, memo)
    return out or {'?' + name}


# ================================================================================================
# 3. batch scope of the statements behind the {batch_id} routes
# ================================================================================================

class BatchScope:
    """Every base table that is keyed by a batch id (`batch_id` column, or `batches`.id) in a SELECT / UPDATE / DELETE scope must be tied
    to the request's batch: its key column is equated to a bound parameter by a WHERE conjunct (or by the ON condition of the join
    that brings the table in), or - transitively - to the key column of a table that is, or to a column of an enclosing query /
    derived table (a correlated sub-query).  Union-find over the equality conjuncts; conditions in the ON clause of an outer join
    restrict only the joined table."""

    def __init__(self, prog: sf.SqlProgram):
        self.tables: Dict[str, Set[str]] = {k.lower(): {c.lower() for c in v} for k, v in prog.tables.items()}

    def keycol(self, table: str) -> Optional[str]:
        t = table.lower()
        if t == 'batches':
            return 'id'
        if 'batch_id' in self.tables.get(t, ()):
            return 'batch_id'
        return None

    def scopes(self, st: N) -> List[N]:
        out = []
        for n in st.walk():
            if n.kind == 'select' and n.frm is not None:
                out.append(n)
            elif n.kind in ('update', 'delete') and getattr(n, 'frm', None) is not None:
                out.append(n)
        return out

    def analyse(self, scope: N, fragments: Optional[List[N]] = None) -> Dict[str, Any]:
        """-> {'tables': {alias: table}, 'unscoped': [alias...], 'params': [(alias, param node)], 'holes': bool}"""
        refs = sf.from_tables(scope.frm)
        base: Dict[str, str] = {}
        other: Set[str] = set()
        for r in refs:
            if r.kind == 'table' and r.name.lower() in self.tables:
                base[_lc(r.alias or r.name)] = r.name.lower()
            else:
                other.add(_lc(getattr(r, 'alias', None) or getattr(r, 'name', '') or '?'))
        scoped = {a: t for a, t in base.items() if self.keycol(t) is not None}
        parent: Dict[str, str] = {}

        def find(x: str) -> str:
            parent.setdefault(x, x)
            while parent[x] != x:
                parent[x] = parent[parent[x]]
                x = parent[x]
            return x

        def union(a: str, b: str) -> None:
            parent[find(a)] = find(b)

        def resolve(c: N) -> Tuple[Optional[str], str]:
            parts = [_lc(p) for p in c.parts]
            if len(parts) >= 2:
                return parts[-2], parts[-1]
            owners = [a for a, t in base.items() if parts[-1] in self.tables.get(t, ())]
            if len(owners) == 1 and not other:
                return owners[0], parts[-1]
            if len(owners) == 1 and other:
                return owners[0], parts[-1]  # derived tables expose their own names; a base-table column keeps priority in practice
            return None, parts[-1]

        def is_key(a: Optional[str], col: str) -> bool:
            return a is not None and a in scoped and col == self.keycol(scoped[a])

        params: List[Tuple[str, N]] = []
        holes = False

        def conj(c: N, only: Optional[str]) -> None:
            """only: the alias a condition is allowed to restrict (ON clause of an outer join), None = any."""
            nonlocal holes
            if c.kind == 'hole':
                holes = True
                return
            if c.kind == 'in' and not c.negated and c.arg.kind == 'col' and getattr(c.items, 'kind', None) == 'subq':
                ax, cx = resolve(c.arg)
                if is_key(ax, cx) and (only is None or only == ax):
                    union(ax, 'LINK')  # batch key IN (sub-query): scoped by whatever the sub-query selects (analysed as its own scope)
                return
            if not (c.kind == 'bin' and c.op == '='):
                return
            for x, y in ((c.left, c.right), (c.right, c.left)):
                if x.kind != 'col':
                    continue
                ax, cx = resolve(x)
                if ax in scoped and cx in ('user', 'user_cs') and y.kind == 'param' and (only is None or only == ax):
                    union(ax, 'PARAM')  # confined to the rows of one user: not a per-batch lookup
                    continue
                if not is_key(ax, cx):
                    continue
                assert ax is not None
                if y.kind == 'param':
                    if only is None or only == ax:
                        union(ax, 'PARAM')
                        params.append((ax, y))
                elif y.kind == 'col':
                    ay, cy = resolve(y)
                    if is_key(ay, cy):
                        assert ay is not None
                        if only is None or only in (ax, ay):
                            union(ax, ay)
                    elif ay is None or ay not in base:
                        if only is None or only == ax:
                            union(ax, 'LINK')  # a column of a derived table / CTE / the enclosing query
                elif y.kind in ('uvar',):
                    union(ax, 'PARAM')

        where = sf.conjuncts(scope.where) if getattr(scope, 'where', None) is not None else []
        if getattr(scope, 'clause_holes', None):
            holes = True
        for c in where:
            conj(c, None)
        for c in fragments or []:
            conj(c, None)
        seen_aliases = []
        first = scope.frm.first
        if first.kind == 'table':
            seen_aliases.append(_lc(first.alias or first.name))
        for j in scope.frm.joins:
            ja = _lc(getattr(j.ref, 'alias', None) or getattr(j.ref, 'name', '') or '?') if j.ref.kind in ('table', 'derived') else None
            jt = (j.jtype or 'INNER').upper()
            only = ja if jt in ('LEFT', 'RIGHT') else None
            if jt == 'RIGHT':
                only = None  # rare; treat as inner (lenient)
            if j.on is not None:
                for c in sf.conjuncts(j.on):
                    conj(c, only)
            if getattr(j, 'using', None):
                for u in j.using:
                    if ja is not None and is_key(ja, _lc(u)):
                        for a in seen_aliases:
                            if is_key(a, _lc(u)):
                                union(a, ja)
            if ja is not None:
                seen_aliases.append(ja)
        good = {find('PARAM'), find('LINK')}
        unscoped = [a for a in scoped if find(a) not in good]
        return {'tables': scoped, 'unscoped': unscoped, 'params': params, 'holes': holes}


# ================================================================================================
# 4. gates: what a wrapper lets through to the handler it wraps
# ================================================================================================
#
# A wrapper (`wrapped` inside a decorator) must not reach the call of the wrapped handler unless a requirement over a few ATOMS holds
# (the caller is a developer, the account is active, the membership test succeeded ...).  Decided by exhaustive enumeration of the
# truth table over the atoms the wrapper's conditions test (a finite abstract domain): under every consistent valuation that violates
# the requirement the CFG is walked with the branch conditions evaluated three-valued (an expression that is not built from recognised
# atoms is unknown: both branches).  The handler call is
#     definitely reachable  (every condition on some path is decided, or the call is reached whichever way the undecided ones go)
#                           -> the requirement is not enforced: a violation, with the valuation as witness;
#     possibly reachable    (only through conditions this analysis does not understand) -> declined;
#     unreachable           -> enforced.
# How the condition is spelt (guard clause / positive branch, De Morgan, `!=` / `not ==`, a boolean local, a raising helper of the
# module that is inlined first) does not matter.

def find_wrapped(m: pf.Module, deco: pf.FuncDef) -> Optional[Tuple[pf.FuncDef, pf.FuncDef, str]]:
    """Inside a decorator (factory) `deco`: (wrapper, the function that receives the handler, name of that parameter) for the unique
    nested function that calls a parameter of an enclosing function of the decorator; None when there is none or several."""
    found = []
    for w in ast.walk(deco):
        if w is deco or not isinstance(w, (ast.FunctionDef, ast.AsyncFunctionDef)):
            continue
        own = {a.arg for a in w.args.posonlyargs + w.args.args + w.args.kwonlyargs}
        e = m.enclosing_func(w)
        while e is not None:
            ps = [a.arg for a in e.args.posonlyargs + e.args.args]
            hit = [p for p in ps if p not in own and any(isinstance(c, ast.Call) and isinstance(c.func, ast.Name) and c.func.id == p for c in pf.walk_shallow(w))]
            if hit:
                found.append((w, e, hit[0]))
                break
            if e is deco:
                break
            e = m.enclosing_func(e)
    return found[0] if len(found) == 1 else None


def inlined_copy(m: pf.Module, qual: str, exclude: Tuple[str, ...] = ()) -> Tuple[pf.Module, pf.FuncDef]:
    """(module copy, function) with the statement-level calls of module-level helper functions inlined into the function `qual`
    (engines/inline.py); the original when nothing can be inlined."""
    from . import inline as il
    try:
        m2, inl = il.inline_functions(m, qual, exclude=exclude)
        if inl.inlined:
            return m2, m2.func(qual)
    except Exception:  # the inliner declines by leaving calls alone; anything else: analyse the function as written
        pass
    return m, m.func(qual)


class Gate:
    def __init__(self, m: pf.Module, fn: pf.FuncDef, handler: str, role):
        """role(fn, expr) -> a stable subject key for the expressions the requirement talks about (or None)."""
        self.m = m
        self.fn = fn
        self.g = pf.cfg(fn)
        self.role = role
        self.calls = self.g.find(lambda n: any(isinstance(c.func, ast.Name) and c.func.id == handler for c in pf.node_calls(n)))
        self.atoms: List[tuple] = []
        for n in self.g.nodes:
            if n.kind == 'test' and n.ast is not None:
                self._collect(n.ast)

    # ---- atoms
    def atom(self, e: ast.AST) -> Optional[Tuple[tuple, bool]]:
        """(atom key, polarity) of a leaf condition; None when it is not about a recognised subject."""
        if isinstance(e, ast.Compare) and len(e.ops) == 1 and isinstance(e.ops[0], (ast.Eq, ast.NotEq)):
            a, b = e.left, e.comparators[0]
            if isinstance(a, ast.Constant) and not isinstance(b, ast.Constant):
                a, b = b, a
            if isinstance(b, ast.Constant) and isinstance(b.value, (int, str)) and not isinstance(b.value, bool):
                r = self.role(self.fn, a)
                if r is not None:
                    return ('eq', r, b.value), isinstance(e.ops[0], ast.Eq)
            return None
        if isinstance(e, ast.Compare) and len(e.ops) == 1 and isinstance(e.ops[0], (ast.In, ast.NotIn)):
            # membership of a subject in a collection that is not a display of literals (a parameter, a configuration value): an atom of
            # its own, independent of the atoms over OTHER subjects (distinct fields of the userdata vary independently)
            r = self.role(self.fn, e.left)
            if r is not None and not isinstance(e.comparators[0], (ast.Tuple, ast.List, ast.Set, ast.Constant)):
                return ('in', r, pf.nsrc(e.comparators[0])), isinstance(e.ops[0], ast.In)
            return None
        if isinstance(e, (ast.Compare, ast.BoolOp, ast.UnaryOp, ast.Constant)):
            return None
        r = self.role(self.fn, e)
        if r is not None:
            return ('truthy', r), True
        return None

    def _expand(self, e: ast.AST) -> ast.AST:
        return pf.expand_locals(self.fn, e, 4)

    def _in_literals(self, e: ast.AST) -> Optional[ast.AST]:
        """`S in (c1, c2)` -> `S == c1 or S == c2`;  `S not in (..)` -> its negation; None for anything else.  A collection held in
        a module constant / single-definition local built from string literals is read like the display."""
        if not (isinstance(e, ast.Compare) and len(e.ops) == 1 and isinstance(e.ops[0], (ast.In, ast.NotIn))):
            return None
        coll = e.comparators[0]
        elts: Optional[List[ast.expr]] = None
        if isinstance(coll, (ast.Tuple, ast.List, ast.Set)) and coll.elts and all(isinstance(x, ast.Constant) for x in coll.elts):
            elts = list(coll.elts)
        elif isinstance(coll, ast.Name):
            lits = closed_collection(self.m, self.fn, coll, lambda f, c: None)
            if lits:
                elts = [ast.Constant(value=x) for x in lits]
        if elts:
            alts: List[ast.expr] = [ast.Compare(left=e.left, ops=[ast.Eq()], comparators=[x]) for x in elts]
            dis: ast.expr = alts[0] if len(alts) == 1 else ast.BoolOp(op=ast.Or(), values=alts)
            return dis if isinstance(e.ops[0], ast.In) else ast.UnaryOp(op=ast.Not(), operand=dis)
        return None

    def _collect(self, e: ast.AST, depth: int = 0) -> None:
        e = self._expand(e) if depth == 0 else e
        lit = self._in_literals(e)
        if lit is not None:
            e = lit
        if isinstance(e, ast.BoolOp):
            for v in e.values:
                self._collect(v, depth + 1)
            return
        if isinstance(e, ast.UnaryOp) and isinstance(e.op, ast.Not):
            self._collect(e.operand, depth + 1)
            return
        a = self.atom(e)
        if a is not None and a[0] not in self.atoms:
            self.atoms.append(a[0])

    def ev(self, e: ast.AST, val: Dict[tuple, bool], top: bool = True) -> Optional[bool]:
        if top:
            e = self._expand(e)
        lit = self._in_literals(e)
        if lit is not None:
            e = lit
        if isinstance(e, ast.BoolOp):
            vs = [self.ev(v, val, False) for v in e.values]
            if isinstance(e.op, ast.And):
                return False if any(v is False for v in vs) else (None if any(v is None for v in vs) else True)
            return True if any(v is True for v in vs) else (None if any(v is None for v in vs) else False)
        if isinstance(e, ast.UnaryOp) and isinstance(e.op, ast.Not):
            v = self.ev(e.operand, val, False)
            return None if v is None else (not v)
        if isinstance(e, ast.Constant) and isinstance(e.value, (bool, int, str, type(None))):
            return bool(e.value)
        a = self.atom(e)
        if a is not None and a[0] in val:
            return val[a[0]] == a[1]
        return None

    # ---- valuations
    @staticmethod
    def consistent(val: Dict[tuple, bool]) -> bool:
        by_subj: Dict[Any, List[Tuple[tuple, bool]]] = {}
        for k, v in val.items():
            by_subj.setdefault(k[1], []).append((k, v))
        for subj, items in by_subj.items():
            true_eq = [k[2] for k, v in items if k[0] == 'eq' and v]
            if len(set(true_eq)) > 1:
                return False
            tr = [v for k, v in items if k[0] == 'truthy']
            if tr and true_eq and bool(true_eq[0]) != tr[0]:
                return False
        return True

    def valuations(self, extra: Sequence[tuple]) -> List[Dict[tuple, bool]]:
        # a membership atom over a subject the requirement itself talks about is NOT independent of the requirement's atoms: left unknown
        req_subjects = {x[1] for x in extra}
        keys = list(dict.fromkeys(list(extra) + [a for a in self.atoms if not (a[0] == 'in' and a[1] in req_subjects)]))
        if len(keys) > 10:
            raise AnalysisError(f'{self.m.rel}::{self.m.qualname(self.fn)}: {len(keys)} atomic conditions: truth table too large')
        out = []
        for bits in range(1 << len(keys)):
            val = {k: bool(bits >> i & 1) for i, k in enumerate(keys)}
            if self.consistent(val):
                out.append(val)
        return out

    # ---- reachability of the handler call under a valuation
    def reach(self, val: Dict[tuple, bool]) -> str:
        """'definite' | 'possible' | 'no'"""
        g = self.g
        targets = {n.id for n in self.calls}
        decided: Dict[int, Optional[bool]] = {}
        for n in g.nodes:
            if n.kind == 'test' and n.ast is not None:
                decided[n.id] = self.ev(n.ast, val)

        def succs(n: pf.Node, with_exc: bool) -> List[pf.Node]:
            d = decided.get(n.id)
            out = []
            for s, lab in n.succ:
                if lab == 'exc':
                    if with_exc:
                        out.append(s)
                    continue
                if d is True and lab == 'F':
                    continue
                if d is False and lab == 'T':
                    continue
                out.append(s)
            return out
        # possible: plain reachability (exceptional edges included)
        seen = {g.entry.id}
        stack = [g.entry]
        possible = False
        while stack:
            n = stack.pop()
            if n.id in targets:
                possible = True
                continue
            for s in succs(n, True):
                if s.id not in seen:
                    seen.add(s.id)
                    stack.append(s)
        if not possible:
            return 'no'
        # definite: least fixpoint of  D(n) = n is the call, or every normal successor the valuation leaves open is in D.
        # A statement that hands a subject of the requirement (the userdata, the membership answer) to some other callee may be a
        # check that raises: nothing behind it is DEFINITELY reached.
        opaque = set()
        for n in g.nodes:
            if n.id in targets or n.ast is None:
                continue
            for c in pf.node_calls(n):
                if any(self.role(self.fn, a) is not None for a in list(c.args) + [k.value for k in c.keywords] if not isinstance(a, ast.Starred)):
                    opaque.add(n.id)
        D = set(targets)
        changed = True
        while changed:
            changed = False
            for n in g.nodes:
                if n.id in D or n.id in opaque:
                    continue
                ss = succs(n, False)
                if ss and all(s.id in D for s in ss):
                    D.add(n.id)
                    changed = True
        return 'definite' if g.entry.id in D else 'possible'

    def enforce(self, requirement, extra_atoms: Sequence[tuple]) -> Tuple[str, Optional[Dict[tuple, bool]]]:
        """requirement(val) -> bool.  ('ok', None) | ('bad', witness valuation) | ('undecided', valuation)."""
        if len(self.calls) == 0:
            return 'undecided', None
        und = None
        for val in self.valuations(extra_atoms):
            if requirement(val):
                continue
            r = self.reach(val)
            if r == 'definite':
                return 'bad', val
            if r == 'possible' and und is None:
                und = val
        return ('undecided', und) if und is not None else ('ok', None)


def show_valuation(val: Optional[Dict[tuple, bool]]) -> str:
    if not val:
        return ''
    out = []
    for k, v in val.items():
        if k[0] == 'in':
            out.append(f"{k[1]} {'in' if v else 'not in'} {k[2]}")
        elif k[0] == 'eq':
            out.append(f"{k[1]} {'==' if v else '!='} {k[2]!r}")
        else:
            out.append(f"{k[1]} is {'truthy' if v else 'falsy'}")
    return ', '.join(out)


def subscript_role(fn: pf.FuncDef, e: ast.AST, base_name: str, base_role: str) -> Optional[str]:
    """`<base>` -> base_role, `<base>['k']` -> base_role['k'] (locals bound to such an expression followed); None otherwise."""
    e = pf.expand_locals(fn, e, 4)
    if isinstance(e, ast.Name) and e.id == base_name:
        return base_role
    if isinstance(e, ast.Subscript) and isinstance(e.value, ast.Name) and e.value.id == base_name:
        k = pf.const_str(e.slice)
        if k is not None:
            return f'{base_role}[{k!r}]'
    return None


def call_args_by_param(h: pf.FuncDef, call: ast.Call) -> Optional[Dict[str, ast.expr]]:
    """parameter name of h -> argument expression of the call (positional and keyword); None with * / **."""
    if any(isinstance(a, ast.Starred) for a in call.args) or any(k.arg is None for k in call.keywords):
        return None
    params = [a.arg for a in h.args.posonlyargs + h.args.args]
    out: Dict[str, ast.expr] = {}
    for i, a in enumerate(call.args):
        if i >= len(params):
            return None
        out[params[i]] = a
    for k in call.keywords:
        out[k.arg] = k.value  # type: ignore[index]
    return out


# ---- structural reading of a single SELECT: alias map, equalities with their bound python values ---------------------------------

class SelectFacts:
    """Alias-independent facts of one SELECT scope: which base tables it ranges over and, for every conjunct `col = %s`, `col = col`,
    `col = literal` of its WHERE clause and of the ON clauses of its joins, the (table, column) pairs involved (aliases resolved through
    the FROM clause, unqualified columns through the schema)."""

    def __init__(self, sel: N, schema: Dict[str, Set[str]], bind: Optional[Dict[int, ast.expr]] = None):
        self.sel = sel
        self.schema = schema
        self.bind = bind or {}
        self.alias: Dict[str, str] = {}
        self.derived: Set[str] = set()
        for r in sf.from_tables(sel.frm):
            if r.kind == 'table':
                self.alias[_lc(r.alias or r.name)] = r.name.lower()
            else:
                self.derived.add(_lc(getattr(r, 'alias', None) or '?'))
        self.eq_param: List[Tuple[Tuple[str, str], N, str]] = []   # ((table, column), param node, where: 'where' | 'on:<alias>')
        self.eq_col: List[Tuple[Tuple[str, str], Tuple[str, str], str]] = []
        self.other: List[Tuple[N, str]] = []
        self.unresolved: List[N] = []
        for c in sf.conjuncts(sel.where):
            self._conj(c, 'where')
        for j in sel.frm.joins:
            ja = _lc(getattr(j.ref, 'alias', None) or getattr(j.ref, 'name', '') or '?')
            if j.on is not None:
                for c in sf.conjuncts(j.on):
                    self._conj(c, f'on:{ja}')

    def col(self, c: N) -> Optional[Tuple[str, str]]:
        """(alias, column) of a column reference; None when it cannot be attributed to one base table of this scope."""
        parts = [_lc(p) for p in c.parts]
        if len(parts) >= 2:
            return (parts[-2], parts[-1]) if parts[-2] in self.alias else None
        owners = [a for a, t in self.alias.items() if parts[-1] in self.schema.get(t, ())]
        if len(owners) == 1:
            return owners[0], parts[-1]
        return None

    def table_of(self, alias: str) -> str:
        return self.alias.get(alias, alias)

    def _conj(self, c: N, where: str) -> None:
        if c.kind == 'bin' and c.op == '=':
            l, r = c.left, c.right
            if l.kind != 'col' and r.kind == 'col':
                l, r = r, l
            if l.kind == 'col':
                lc = self.col(l)
                if lc is None:
                    self.unresolved.append(c)
                    return
                if r.kind == 'param':
                    self.eq_param.append((lc, r, where))
                    return
                if r.kind == 'col':
                    rc = self.col(r)
                    if rc is None:
                        self.unresolved.append(c)
                        return
                    self.eq_col.append((lc, rc, where))
                    return
        self.other.append((c, where))

    def params_of(self, table: str, column: str) -> List[Tuple[N, str]]:
        return [(p, w) for (a, c), p, w in self.eq_param if self.table_of(a) == table and c == column]

    def joined_on(self, t1: str, c1: str, t2: str, c2: str) -> bool:
        for (a, ca), (b, cb), _ in self.eq_col:
            x, y = (self.table_of(a), ca), (self.table_of(b), cb)
            if (x, y) == ((t1, c1), (t2, c2)) or (y, x) == ((t1, c1), (t2, c2)):
                return True
        return False


def bind_params(fn: pf.FuncDef, st: N, call: ast.Call) -> Optional[Dict[int, ast.expr]]:
    """position of every %s of the statement -> the python expression bound to it (argument tuple followed through a local)."""
    params = sr.params_in_order(st)
    args = call.args[1] if len(call.args) > 1 else next((k.value for k in call.keywords if k.arg in ('args', 'params', 'parameters')), None)
    if args is None:
        return {} if not params else None
    elts = sr.args_tuple(fn, args)
    if elts is None or len(elts) != len(params) or any(isinstance(x, ast.Starred) for x in elts):
        return None
    return {p.pos: x for p, x in zip(params, elts)}


def param_call_sites(flow: PathFlow, scope_fns: Sequence[pf.FuncDef], owner: pf.FuncDef, name: str) -> List[Tuple[pf.FuncDef, ast.Call, Optional[ast.AST]]]:
    """(caller, call, argument expression bound to parameter `name` of `owner`) for every call site in scope_fns (direct calls, keyword
    arguments, runner calls `run(f, a, b)`); the argument is None when it cannot be singled out (* / ** / missing)."""
    params = [a.arg for a in owner.args.posonlyargs + owner.args.args]
    i = params.index(name) if name in params else None
    out: List[Tuple[pf.FuncDef, ast.Call, Optional[ast.AST]]] = []
    for f, c, offset in flow.call_sites(scope_fns).get(id(owner), []):
        arg: Optional[ast.AST] = None
        if offset == 0:
            if i is not None and i < len(c.args):
                arg = None if any(isinstance(a, ast.Starred) for a in c.args[:i + 1]) else c.args[i]
            else:
                arg = next((kw.value for kw in c.keywords if kw.arg == name), None)
                if arg is None and i is not None:
                    d0 = len(params) - len(owner.args.defaults)
                    if i >= d0:
                        arg = owner.args.defaults[i - d0]  # the default value
        elif i is not None and offset + i < len(c.args):
            arg = c.args[offset + i]
        if isinstance(arg, ast.Starred):
            arg = None
        out.append((f, c, arg))
    return out


def param_args(flow: PathFlow, scope_fns: Sequence[pf.FuncDef], owner: pf.FuncDef, name: str) -> List[Tuple[pf.FuncDef, Optional[ast.AST]]]:
    return [(f, a) for f, _, a in param_call_sites(flow, scope_fns, owner, name)]
