"""Helpers of rules/c15.py and rules/c16.py (nothing of the repository is imported or run).

* acquire/release pairing on a statement CFG with exception edges (manual use of a semaphore instead of `async with`)
* a linear normal form (with opaque `mod c` atoms for // and %) of integer weight expressions: equality and difference are decided on the forms
* dependency closure of names (which parameters can a value depend on)
* unrolling of comprehensions over literal tuples
* value domains of job-spec fields read off the validator
* who may cancel an awaitable that is handed to it (per-module parameter exposure, closed under wrappers; C16 R5)
* freshness of returned objects: which levels of a function's result persist across calls, and where consumers mutate them (C15 R7)
"""
from __future__ import annotations

import ast
import copy
from fractions import Fraction
from typing import Callable, Dict, List, Optional, Sequence, Set, Tuple

from . import pyfacts as pf

# --------------------------------------------------------------------------------------
# acquire / release pairing
# --------------------------------------------------------------------------------------


def _escapes(n: pf.Node) -> bool:
    """A statement that can raise (a call, an await = cancellation point, raise, assert, yield) and has no exceptional successor in the CFG:
    the exception leaves the function without passing anything (pyfacts only adds 'exc' edges inside try statements)."""
    if n.ast is None or n.kind in ('except', 'join'):
        return False
    if any(lab == 'exc' for _, lab in n.succ):
        return False
    if n.kind == 'raise':
        return True
    return any(isinstance(x, (ast.Call, ast.Await, ast.Raise, ast.Assert, ast.Yield, ast.YieldFrom)) for e in pf.node_exprs(n) for x in pf.walk_shallow(e)) \
        or (n.kind == 'with' and isinstance(n.ast, ast.AsyncWith)) or (n.kind == 'loop' and isinstance(n.ast, ast.AsyncFor))


class Pairing:
    """Facts about manual acquire/release pairing in one function."""

    def __init__(self) -> None:
        self.acquires: List[pf.Node] = []
        self.releases: List[pf.Node] = []
        self.release_without_acquire: Optional[List[pf.Node]] = None   # path entry -> release avoiding every acquire
        self.release_after_failed_acquire: Optional[List[pf.Node]] = None  # path acquire -exc-> ... -> release
        self.leak_paths: List[Tuple[pf.Node, List[pf.Node]]] = []  # (acquire, explicit CFG path to an exit that avoids every release)
        self.leak_escapes: List[Tuple[pf.Node, pf.Node]] = []      # (acquire, statement that can raise outside any try, reached before a release)
        self.double_release: Optional[Tuple[pf.Node, pf.Node]] = None
        self.reacquire: Optional[Tuple[pf.Node, pf.Node]] = None    # a second acquire reached while the first is still held


def pairing(cfg: pf.CFG, is_acquire: Callable[[pf.Node], bool], is_release: Callable[[pf.Node], bool]) -> Pairing:
    out = Pairing()
    reach = cfg.reachable_from(cfg.entry)
    nodes = [n for n in cfg.nodes if n.ast is not None and n.id in reach]
    out.acquires = [n for n in nodes if is_acquire(n)]
    out.releases = [n for n in nodes if is_release(n)]
    A, R = out.acquires, out.releases
    isA = lambda n: any(n is a for a in A)  # noqa: E731
    isR = lambda n: any(n is r for r in R)  # noqa: E731
    if R:
        out.release_without_acquire = cfg.path_avoiding(cfg.entry, isR, isA)
    for a in A:
        # the acquire itself failed / was cancelled: nothing is held, so no release may follow
        p = cfg.path_avoiding(a, isR, isA, edge_ok=lambda x, y, lab, a=a: not (x is a) or lab == 'exc')
        if p is not None and out.release_after_failed_acquire is None:
            out.release_after_failed_acquire = p
        normal = lambda x, y, lab, a=a: not (x is a and lab == 'exc')  # noqa: E731
        # explicit paths to an exit
        p = cfg.path_avoiding(a, lambda n: n is cfg.exit or n is cfg.raise_exit, isR, edge_ok=normal)
        if p is not None:
            out.leak_paths.append((a, p))
        # statements that raise out of the function (no handler, no finally) while the weight is held
        held = cfg.reachable_from(a, avoid=isR, edge_ok=normal)
        for n in cfg.nodes:
            if n.id in held and n is not a and not isR(n) and _escapes(n):
                out.leak_escapes.append((a, n))
        for a2 in A:
            if a2 is not a and a2.id in held and out.reacquire is None:
                out.reacquire = (a, a2)
    for r1 in R:
        seen: Set[int] = set()
        stack = [m for m, _ in r1.succ]
        while stack:
            n = stack.pop()
            if n.id in seen or isA(n):
                continue
            seen.add(n.id)
            if isR(n):
                if out.double_release is None:
                    out.double_release = (r1, n)
                continue
            stack.extend(m for m, _ in n.succ)
    return out


def describe_path(p: Sequence[pf.Node], k: int = 3) -> str:
    steps = [n for n in p if n.ast is not None]
    tail = steps[-k:]
    return ' -> '.join(f'`{pf.nsrc(n.ast)[:60] if n.kind not in ("with", "loop", "test", "except") else n.text()[:60]}`' for n in tail) or '(falls through)'


# --------------------------------------------------------------------------------------
# normal form of integer weight expressions (no evaluation: equality / difference is decided on the normal forms)
# --------------------------------------------------------------------------------------

WLin = Dict[str, Fraction]   # atom -> coefficient; the constant term under '1'; atoms are names / attribute chains and opaque `(e) mod c` terms


def _wl_add(a: WLin, b: WLin, sign: int = 1) -> WLin:
    out = dict(a)
    for k, v in b.items():
        out[k] = out.get(k, Fraction(0)) + sign * v
    return {k: v for k, v in out.items() if v != 0}


def wlin_str(a: WLin) -> str:
    if not a:
        return '0'
    parts = []
    for k in sorted(a, key=lambda x: (x == '1', x)):
        v = a[k]
        c = str(v.numerator) if v.denominator == 1 else str(v)
        parts.append(c if k == '1' else (k if v == 1 else f'{c}*{k}'))
    return ' + '.join(parts).replace('+ -', '- ')


def weight_normal_form(e: ast.AST) -> Optional[WLin]:
    """Linear normal form over integer atoms of an expression built from + - unary minus, * by a constant, int(), and // / % by a positive
    integer constant c, using  e // c = (e - (e mod c)) / c  with `(e mod c)` an opaque atom (dropped when every coefficient of e is a
    multiple of c, where e mod c = 0 for integer atoms).  None when e is outside this fragment.

    Two expressions with EQUAL normal forms are equal for all integer values of the atoms.  Two expressions whose normal forms DIFFER are
    different functions of their atoms: the atoms x and (.. mod c) with c >= 2 are linearly independent over the integers (x = 0 and x = c
    fix the x-coefficient and the constant, x = 1 the mod-coefficient), so a non-zero difference form is non-zero for some weights."""
    if isinstance(e, ast.Constant) and isinstance(e.value, int) and not isinstance(e.value, bool):
        return {'1': Fraction(e.value)} if e.value else {}
    d = pf.dotted(e)
    if d is not None:
        return {d: Fraction(1)}
    if isinstance(e, ast.Call) and isinstance(e.func, ast.Name) and e.func.id == 'int' and len(e.args) == 1 and not e.keywords:
        return weight_normal_form(e.args[0])
    if isinstance(e, ast.UnaryOp) and isinstance(e.op, (ast.USub, ast.UAdd)):
        a = weight_normal_form(e.operand)
        if a is None:
            return None
        return {k: -v for k, v in a.items()} if isinstance(e.op, ast.USub) else a
    if isinstance(e, ast.BinOp):
        a, b = weight_normal_form(e.left), weight_normal_form(e.right)
        if a is None or b is None:
            return None
        if isinstance(e.op, ast.Add):
            return _wl_add(a, b)
        if isinstance(e.op, ast.Sub):
            return _wl_add(a, b, -1)
        if isinstance(e.op, ast.Mult):
            for x, y in ((a, b), (b, a)):
                if set(x) <= {'1'}:
                    c = x.get('1', Fraction(0))
                    return {k: v * c for k, v in y.items() if v * c != 0}
            return None
        if isinstance(e.op, (ast.FloorDiv, ast.Mod)) and set(b) == {'1'} and b['1'].denominator == 1 and b['1'] >= 1 \
                and all(v.denominator == 1 for v in a.values()):
            c = b['1']
            exact = all(v % c == 0 for v in a.values())
            modatom = {} if exact or c == 1 else {f'(({wlin_str(a)}) mod {c.numerator})': Fraction(1)}
            if isinstance(e.op, ast.Mod):
                return modatom
            return {k: v / c for k, v in _wl_add(a, modatom, -1).items()}
    return None


# --------------------------------------------------------------------------------------
# name dependencies
# --------------------------------------------------------------------------------------

def depends_on(fn: pf.FuncDef, e: ast.AST, through_len: bool = True) -> Set[str]:
    """Names (parameters and locals) the value of e can depend on, transitively through every assignment to the locals it mentions
    (flow-insensitive over-approximation; loop targets depend on the iterable; augmented assignments on both sides).
    through_len=False: `len(x)` is not counted as a dependency on x (it reveals the size only)."""
    asg = pf.assignments(fn)
    seen: Set[str] = set()

    def names(x: ast.AST) -> Set[str]:
        if through_len:
            return pf.names_in(x)
        out: Set[str] = set()
        stack = [x]
        while stack:
            n = stack.pop()
            if isinstance(n, ast.Call) and isinstance(n.func, ast.Name) and n.func.id == 'len':
                continue
            if isinstance(n, ast.Name):
                out.add(n.id)
            stack.extend(ast.iter_child_nodes(n))
        return out
    work = list(names(e))
    while work:
        nme = work.pop()
        if nme in seen:
            continue
        seen.add(nme)
        for d in asg.get(nme, []):
            if isinstance(d, ast.arg):
                continue
            srcs: List[ast.AST] = []
            if isinstance(d, (ast.For, ast.AsyncFor, ast.comprehension)):
                srcs = [d.iter]
            elif isinstance(d, ast.AugAssign):
                srcs = [d.value, d.target]
            elif isinstance(d, ast.Assign):
                srcs = [d.value]
            elif isinstance(d, ast.withitem):
                srcs = [d.context_expr]
            elif isinstance(d, ast.expr):
                srcs = [d]
            for s in srcs:
                work.extend(names(s))
    return seen


# --------------------------------------------------------------------------------------
# comprehension over a literal tuple  ->  list literal
# --------------------------------------------------------------------------------------

def unroll_literal_comprehension(e: ast.AST) -> ast.AST:
    """`[f(k) for k in ('a', 'b')]`  ->  `[f('a'), f('b')]` (single generator over a literal tuple/list of constants, no filter).  Otherwise e."""
    if not isinstance(e, ast.ListComp) or len(e.generators) != 1:
        return e
    g = e.generators[0]
    if g.ifs or g.is_async or not isinstance(g.target, ast.Name) or not isinstance(g.iter, (ast.Tuple, ast.List)) \
            or not all(isinstance(x, ast.Constant) for x in g.iter.elts):
        return e
    var = g.target.id

    class S(ast.NodeTransformer):
        def __init__(self, c: ast.Constant):
            self.c = c

        def visit_Name(self, node: ast.Name):
            if node.id == var and isinstance(node.ctx, ast.Load):
                return ast.copy_location(ast.Constant(value=self.c.value), node)
            return node
    elts = [S(c).visit(copy.deepcopy(e.elt)) for c in g.iter.elts]
    out = ast.copy_location(ast.List(elts=elts, ctx=ast.Load()), e)
    ast.fix_missing_locations(out)
    return out


# --------------------------------------------------------------------------------------
# value domains of job-spec fields, read off the validator (hailtop.utils.validate combinators) and the front end
# --------------------------------------------------------------------------------------

VALIDATE_REL = 'batch/batch/front_end/validate.py'
HT_VALIDATE_REL = 'hail/python/hailtop/utils/validate/validate.py'
FRONT_END_REL = 'batch/batch/front_end/front_end.py'


class Schema:
    """kind: bool | int | str | list | dict | enum | other.  falsy: a legitimate falsy value of the domain (repr) or None when every accepted value is truthy;
    'unknown' when it cannot be told."""

    def __init__(self, kind: str, falsy: Optional[str], origin: str, fields: Optional[Dict[str, Tuple['Schema', bool]]] = None, elem: Optional['Schema'] = None):
        self.kind, self.falsy, self.origin = kind, falsy, origin
        self.fields = fields or {}
        self.elem = elem

    def __repr__(self) -> str:
        return f'<{self.kind} falsy={self.falsy} {self.origin}>'


def _regex_min_width(pattern: str) -> Optional[int]:
    try:
        import re._parser as sp  # type: ignore[import-not-found]
        return int(sp.parse(pattern).getwidth()[0])
    except Exception:  # noqa: BLE001 - an unparsable pattern is simply "unknown"
        return None


def _base_validator(name: str) -> Optional[Schema]:
    """bool_type / int_type / str_type / non_empty_str_type as defined in hailtop.utils.validate: TypedValidator(<type>) [+ TruthyValidator()]."""
    try:
        hv = pf.load(HT_VALIDATE_REL)
        v = hv.global_assign(name)
    except pf.AnalysisError:
        return None
    truthy = False
    if isinstance(v, ast.Call) and pf.dotted(v.func) == 'MultipleValidator' and len(v.args) == 1 and isinstance(v.args[0], ast.List):
        parts = v.args[0].elts
        truthy = any(isinstance(x, ast.Call) and pf.dotted(x.func) == 'TruthyValidator' for x in parts)
        base = [x for x in parts if isinstance(x, ast.Name)]
        if len(base) != 1:
            return None
        s = _base_validator(base[0].id)
        if s is None:
            return None
        return Schema(s.kind, None if truthy else s.falsy, name)
    if isinstance(v, ast.Call) and pf.dotted(v.func) == 'TypedValidator' and len(v.args) == 1 and isinstance(v.args[0], ast.Name):
        t = v.args[0].id
        table = {'bool': ('bool', 'False'), 'int': ('int', '0'), 'str': ('str', "''"), 'list': ('list', '[]'), 'dict': ('dict', '{}'), 'float': ('other', '0.0')}
        if t in table:
            return Schema(table[t][0], table[t][1], name)
    return None


def schema_of(m: pf.Module, e: ast.AST, depth: int = 0) -> Schema:
    """Schema of a validator expression of batch/front_end/validate.py."""
    unknown = Schema('other', 'unknown', pf.nsrc(e)[:40])
    if depth > 6:
        return unknown
    if isinstance(e, ast.Name):
        b = _base_validator(e.id) if m.imports().get(e.id, '').startswith('hailtop.utils.validate') else None
        if b is not None:
            return b
        try:
            return schema_of(m, m.global_assign(e.id), depth + 1)
        except pf.AnalysisError:
            return unknown
    if not isinstance(e, ast.Call):
        return unknown
    f = pf.dotted(e.func)
    if f == 'keyed' and len(e.args) == 1 and isinstance(e.args[0], ast.Dict):
        fields: Dict[str, Tuple[Schema, bool]] = {}
        for k, v in zip(e.args[0].keys, e.args[0].values):
            req = isinstance(k, ast.Call) and pf.dotted(k.func) == 'required' and len(k.args) == 1
            ks = pf.const_str(k.args[0]) if req else (pf.const_str(k) if k is not None else None)  # type: ignore[union-attr]
            if ks is None:
                return unknown
            fields[ks] = (schema_of(m, v, depth + 1), bool(req))
        return Schema('dict', None if any(r for _, r in fields.values()) else '{}', 'keyed', fields=fields)
    if f == 'listof' and len(e.args) == 1:
        return Schema('list', '[]', 'listof', elem=schema_of(m, e.args[0], depth + 1))
    if f == 'dictof':
        return Schema('dict', '{}', 'dictof')
    if f == 'regex' and e.args:
        p = pf.const_str(e.args[0])
        w = _regex_min_width(p) if p is not None else None
        return Schema('str', 'unknown' if w is None else ("''" if w == 0 else None), 'regex')
    if f == 'oneof':
        vals = [a.value for a in e.args if isinstance(a, ast.Constant)]
        if len(vals) == len(e.args):
            fl = [v for v in vals if not v]
            return Schema('enum', repr(fl[0]) if fl else None, 'oneof')
    return unknown


def job_schema() -> Schema:
    m = pf.load(VALIDATE_REL)
    s = schema_of(m, m.global_assign('job_validator'))
    if s.kind != 'dict' or not s.fields:
        raise pf.AnalysisError(f'{VALIDATE_REL}: job_validator is not keyed({{...}})')
    return s


def front_end_values(key: str) -> List[ast.AST]:
    """Expressions the front end stores under `key` after validation: `x['key'] = v` and `'key': v` entries of dict literals."""
    m = pf.load(FRONT_END_REL)
    out: List[ast.AST] = []
    for n in ast.walk(m.tree):
        if isinstance(n, ast.Assign) and len(n.targets) == 1 and isinstance(n.targets[0], ast.Subscript) and pf.const_str(n.targets[0].slice) == key:
            out.append(n.value)
        elif isinstance(n, ast.Dict):
            for k, v in zip(n.keys, n.values):
                if k is not None and pf.const_str(k) == key:
                    out.append(v)
    return out


def field_schema(root: Schema, path: Sequence[str]) -> Optional[Schema]:
    """Schema at a path ('secrets', '[]', 'mount_in_copy').  Keys the validator does not list (added by the front end after validation) get a
    domain from the constants the front end stores there; anything else is unknown (None)."""
    cur = root
    for i, p in enumerate(path):
        if p == '[]':
            if cur.kind != 'list' or cur.elem is None:
                return None
            cur = cur.elem
            continue
        if cur.kind != 'dict' or not cur.fields:
            return None
        if p in cur.fields:
            cur = cur.fields[p][0]
            continue
        if i != len(path) - 1:
            return None
        vals = front_end_values(p)
        if vals and all(isinstance(v, ast.Constant) and isinstance(v.value, bool) for v in vals):
            return Schema('bool', 'False' if any(v.value is False for v in vals) else None, f'front end stores {sorted({repr(v.value) for v in vals})}')  # type: ignore[attr-defined]
        return None
    return cur


def field_required(root: Schema, path: Sequence[str]) -> Optional[bool]:
    cur = root
    req: Optional[bool] = None
    for p in path:
        if p == '[]':
            if cur.elem is None:
                return None
            cur, req = cur.elem, True
            continue
        if p not in cur.fields:
            return None
        cur, req = cur.fields[p][0], cur.fields[p][1]
    return req


# --------------------------------------------------------------------------------------
# who may cancel an awaitable that is handed to it (C16 R5)
# --------------------------------------------------------------------------------------

class ModFuncs:
    """Functions of one module by qualified name, with resolution of `f(...)` / `self.m(...)` callees through the class hierarchy declared in the module."""

    def __init__(self, m: pf.Module):
        self.m = m
        self.by_q: Dict[str, pf.FuncDef] = dict(m.functions())
        self.classes: Dict[str, ast.ClassDef] = {c.name: c for c in m.tree.body if isinstance(c, ast.ClassDef)}

    def class_of(self, q: str) -> Optional[str]:
        parts = q.split('.')
        return parts[0] if len(parts) >= 2 and parts[0] in self.classes else None

    def bases(self, cname: str) -> List[str]:
        c = self.classes.get(cname)
        return [b.id for b in c.bases if isinstance(b, ast.Name) and b.id in self.classes] if c is not None else []

    def lookup_method(self, cname: str, name: str, _seen: Optional[Set[str]] = None) -> Optional[str]:
        seen = _seen if _seen is not None else set()
        if cname in seen:
            return None
        seen.add(cname)
        if f'{cname}.{name}' in self.by_q:
            return f'{cname}.{name}'
        for b in self.bases(cname):
            r = self.lookup_method(b, name, seen)
            if r is not None:
                return r
        return None

    def subclasses(self, cname: str) -> List[str]:
        out: List[str] = []
        work = [cname]
        while work:
            c = work.pop()
            for k in self.classes:
                if c in self.bases(k) and k not in out:
                    out.append(k)
                    work.append(k)
        return out

    def receiver_name(self, q: str) -> Optional[str]:
        fn = self.by_q.get(q)
        if fn is None or self.class_of(q) is None or q.count('.') != 1 or not fn.args.args:
            return None
        if any(d in ('staticmethod',) for d in pf.decorator_names(fn)):
            return None
        return fn.args.args[0].arg

    def resolve(self, q_caller: str, func: ast.AST) -> List[str]:
        """Qualified names the callee expression can denote ([] = not resolved).  `self.m` denotes the method found from the caller's class
        upwards, and every override in a subclass of it."""
        if isinstance(func, ast.Name):
            # a function nested in the caller (or an enclosing function) shadows the module-level one
            parts = q_caller.split('.')
            for i in range(len(parts), 0, -1):
                cand = '.'.join(parts[:i] + [func.id])
                if cand in self.by_q and '.'.join(parts[:i]) in self.by_q:
                    return [cand]
            return [func.id] if func.id in self.by_q else []
        if isinstance(func, ast.Attribute) and isinstance(func.value, ast.Name):
            # the receiver of the (outermost) method the caller is nested in
            parts = q_caller.split('.')
            cname = self.class_of(q_caller)
            if cname is None:
                return []
            recv = self.receiver_name('.'.join(parts[:2]))
            if recv is None or func.value.id != recv:
                return []
            base = self.lookup_method(cname, func.attr)
            out = [base] if base is not None else []
            for s in self.subclasses(cname):
                if f'{s}.{func.attr}' in self.by_q and f'{s}.{func.attr}' not in out:
                    out.append(f'{s}.{func.attr}')
            return out
        return []

    def bind(self, q_callee: str, call: ast.Call) -> Dict[str, ast.expr]:
        """parameter name of the callee -> argument expression of the call (arguments after a starred one are not bound)."""
        fn = self.by_q[q_callee]
        params = [a.arg for a in fn.args.posonlyargs + fn.args.args]
        if self.receiver_name(q_callee) is not None and isinstance(call.func, ast.Attribute):
            params = params[1:]
        out: Dict[str, ast.expr] = {}
        for p, a in zip(params, call.args):
            if isinstance(a, ast.Starred):
                break
            out[p] = a
        names = set(params) | {a.arg for a in fn.args.kwonlyargs}
        for k in call.keywords:
            if k.arg is not None and k.arg in names:
                out[k.arg] = k.value
        return out


_TASK_MAKERS = ('create_task', 'ensure_future')
_TIMEOUT_CMS = ('timeout', 'timeout_at', 'fail_after', 'move_on_after')


def is_timeout_cm(e: ast.AST) -> bool:
    """`asyncio.timeout(..)`, `async_timeout.timeout(..)`, `anyio.fail_after(..)` ... as the context expression of an `async with`."""
    if not isinstance(e, ast.Call):
        return False
    d = pf.dotted(e.func) or ''
    return d.split('.')[-1] in _TIMEOUT_CMS


def _awaitable_of(e: ast.AST, names: Set[str]) -> Optional[str]:
    """e is `p(...)` (p called to make the coroutine) or `p` (already an awaitable) for a name p in names."""
    if isinstance(e, ast.Call) and isinstance(e.func, ast.Name) and e.func.id in names:
        return e.func.id
    if isinstance(e, ast.Name) and e.id in names:
        return e.id
    return None


def _direct_cancels(fn: pf.FuncDef) -> Dict[str, str]:
    """Parameters of fn whose awaitable fn itself may cancel: run as a task that fn `.cancel()`s, passed to wait_for, awaited under a timeout block."""
    params = {a.arg for a in fn.args.posonlyargs + fn.args.args + fn.args.kwonlyargs}
    out: Dict[str, str] = {}
    tasks: Dict[str, str] = {}  # task variable -> parameter
    for n in pf.walk_shallow(fn):
        if isinstance(n, ast.Assign) and len(n.targets) == 1 and isinstance(n.targets[0], ast.Name) and isinstance(n.value, ast.Call) \
                and (pf.dotted(n.value.func) or '').split('.')[-1] in _TASK_MAKERS and n.value.args:
            p = _awaitable_of(n.value.args[0], params)
            if p is not None:
                tasks[n.targets[0].id] = p
    loops: Dict[str, Set[str]] = {}  # loop variable -> names in the iterated display
    for n in pf.walk_shallow(fn):
        if isinstance(n, (ast.For, ast.AsyncFor)) and isinstance(n.target, ast.Name) and isinstance(n.iter, (ast.Tuple, ast.List, ast.Set)):
            loops.setdefault(n.target.id, set()).update(x.id for x in n.iter.elts if isinstance(x, ast.Name))
    for c in pf.calls_in(fn):
        d = pf.dotted(c.func) or ''
        if isinstance(c.func, ast.Attribute) and c.func.attr == 'cancel' and isinstance(c.func.value, ast.Name) and not c.args:
            x = c.func.value.id
            for t in ([x] if x in tasks else []) + sorted(loops.get(x, set()) & set(tasks)):
                out.setdefault(tasks[t], f'runs it as the task `{t}` and cancels that task (`{pf.nsrc(c)}`, line {c.lineno}) when something else finishes first')
        if d.split('.')[-1] == 'wait_for' and c.args:
            a = c.args[0]
            p = _awaitable_of(a, params) or (tasks.get(a.id) if isinstance(a, ast.Name) else None)
            if p is not None:
                out.setdefault(p, f'passes it to `{d}` (line {c.lineno}), which cancels it when the timeout expires')
    for n in pf.walk_shallow(fn):
        if isinstance(n, ast.AsyncWith) and any(is_timeout_cm(i.context_expr) for i in n.items):
            for x in ast.walk(ast.Module(body=n.body, type_ignores=[])):
                if isinstance(x, ast.Await):
                    p = _awaitable_of(x.value, params)
                    if p is not None:
                        out.setdefault(p, f'awaits it inside `async with {pf.nsrc(n.items[0].context_expr)}` (line {n.lineno}), which cancels it when the timeout expires')
    return out


def cancel_exposed(mf: ModFuncs) -> Dict[str, Dict[str, str]]:
    """qualified function name -> {parameter: how the awaitable made from that parameter may be cancelled on its own}, closed under passing the
    parameter on to another such function of the module (thin wrappers)."""
    exp: Dict[str, Dict[str, str]] = {}
    for q, fn in mf.by_q.items():
        d = _direct_cancels(fn)
        if d:
            exp[q] = d
    changed = True
    rounds = 0
    while changed and rounds < 6:
        changed = False
        rounds += 1
        for q, fn in mf.by_q.items():
            params = {a.arg for a in fn.args.posonlyargs + fn.args.args + fn.args.kwonlyargs}
            for c in pf.calls_in(fn):
                tg = mf.resolve(q, c.func)
                if not tg or not all(t in exp for t in tg):
                    continue
                for cp in set.intersection(*[set(exp[t]) for t in tg]):
                    a = mf.bind(tg[0], c).get(cp)
                    if isinstance(a, ast.Name) and a.id in params and a.id not in exp.get(q, {}):
                        exp.setdefault(q, {})[a.id] = f'hands it to {tg[0]}, which {exp[tg[0]][cp]}'
                        changed = True
    return exp


def handover_verdict(mf: ModFuncs, exp: Dict[str, Dict[str, str]], q_site: str, recv_call: ast.Call, handed: ast.AST) -> Tuple[str, str]:
    """`handed` (a bound method / coroutine object) is an argument of `recv_call` inside function q_site.
    ('cancels', how) | ('unknown', why) | ('passes', callee) when the callee is resolved and does not cancel that parameter."""
    d = pf.dotted(recv_call.func) or pf.nsrc(recv_call.func)
    last = d.split('.')[-1]
    if last == 'wait_for' and recv_call.args and recv_call.args[0] is handed:
        return 'cancels', f'`{d}` cancels it when the timeout expires'
    if last == 'shield':
        return 'unknown', f'`{d}` detaches it from the caller'
    if last in _TASK_MAKERS and recv_call.args and recv_call.args[0] is handed:
        # the task handle: a local that the same function cancels, or an attribute that anybody in the module cancels
        par = mf.m.parents()
        st = par.get(recv_call)
        fn = mf.by_q.get(q_site)
        if isinstance(st, ast.Assign) and len(st.targets) == 1 and fn is not None:
            tgt = st.targets[0]
            if isinstance(tgt, ast.Name):
                loops: Set[str] = set()
                for n in pf.walk_shallow(fn):
                    if isinstance(n, (ast.For, ast.AsyncFor)) and isinstance(n.target, ast.Name) and isinstance(n.iter, (ast.Tuple, ast.List, ast.Set)) \
                            and any(isinstance(x, ast.Name) and x.id == tgt.id for x in n.iter.elts):
                        loops.add(n.target.id)
                for c in pf.calls_in(fn):
                    if isinstance(c.func, ast.Attribute) and c.func.attr == 'cancel' and isinstance(c.func.value, ast.Name) and c.func.value.id in loops | {tgt.id}:
                        return 'cancels', f'it runs as the task `{tgt.id}`, which {q_site} cancels (`{pf.nsrc(c)}`, line {c.lineno})'
            elif isinstance(tgt, ast.Attribute):
                for c in ast.walk(mf.m.tree):
                    if isinstance(c, ast.Call) and isinstance(c.func, ast.Attribute) and c.func.attr == 'cancel' and isinstance(c.func.value, ast.Attribute) \
                            and c.func.value.attr == tgt.attr:
                        return 'may-cancel', f'it runs as the task stored in `.{tgt.attr}`, and `{pf.nsrc(c)}` (line {c.lineno}) cancels a task of that name'
        return 'unknown', f'it becomes a task of its own (`{d}`); who cancels that task is not analysed'
    if last in _TASK_MAKERS or last in ('gather', 'wait', 'as_completed'):
        return 'unknown', f'it becomes a task of its own (`{d}`); who cancels that task is not analysed'
    tg = mf.resolve(q_site, recv_call.func)
    if not tg:
        return 'unknown', f'the callee `{d}` is not a function of this module'
    hows = []
    for t in tg:
        cp = [p for p, a in mf.bind(t, recv_call).items() if a is handed]
        if len(cp) != 1:
            return 'unknown', f'cannot tell which parameter of {t} receives it'
        if cp[0] in exp.get(t, {}):
            hows.append(f'{t} {exp[t][cp[0]]}')
        else:
            hows.append('')
    if all(hows):
        return 'cancels', hows[0]
    if not any(hows):
        return 'passes', tg[0]
    return 'unknown', f'only some of {tg} cancel what they are given'


# --------------------------------------------------------------------------------------
# freshness of decoded values (C15 R7): does a reader hand out an object that outlives the call (memoised / kept in module state)?
# --------------------------------------------------------------------------------------

MEMO_DECORATORS = {'functools.lru_cache', 'functools.cache', 'functools.cached_property', 'cachetools.cached', 'cachetools.func.lru_cache',
                   'cachetools.func.ttl_cache', 'cachetools.func.lfu_cache', 'async_lru.alru_cache', 'methodtools.lru_cache'}
HARMLESS_DECORATORS = {'staticmethod', 'classmethod', 'typing.overload', 'overload', 'typing.no_type_check', 'typing.final', 'final'}
_CONTAINER_CTORS = {'dict', 'list', 'set', 'collections.defaultdict', 'defaultdict', 'collections.OrderedDict', 'OrderedDict', 'weakref.WeakValueDictionary',
                    'WeakValueDictionary', 'cachetools.LRUCache', 'LRUCache', 'cachetools.TTLCache', 'TTLCache'}
_SCALAR_CALLS = {'bool', 'int', 'str', 'float', 'len', 'repr', 'isinstance', 'hash', 'min', 'max', 'sum', 'any', 'all', 'abs', 'round'}
_SHALLOW_COPY_CALLS = {'list', 'tuple', 'dict', 'set', 'frozenset', 'sorted', 'copy.copy', 'reversed'}
MUTATORS = {'append', 'extend', 'insert', 'pop', 'remove', 'clear', 'sort', 'reverse', 'update', 'setdefault', 'popitem', 'add', 'discard', '__setitem__', '__delitem__'}


def decorator_full_name(m: pf.Module, d: ast.AST) -> Optional[str]:
    e = d.func if isinstance(d, ast.Call) else d
    dn = pf.dotted(e)
    if dn is None:
        return None
    head, _, rest = dn.partition('.')
    full = m.imports().get(head, head).lstrip('.')
    return full + ('.' + rest if rest else '')


def memo_decorator(m: pf.Module, d: ast.AST) -> Optional[str]:
    full = decorator_full_name(m, d)
    return full if full in MEMO_DECORATORS else None


def static_mut_depth(e: ast.AST) -> Optional[int]:
    """Mutable nesting depth of a literal (module-level constant / default value): 0 = immutable."""
    if isinstance(e, ast.Constant):
        return 0
    if isinstance(e, (ast.List, ast.Set, ast.Tuple)):
        ds = [static_mut_depth(x) for x in e.elts]
        if any(d is None for d in ds):
            return None
        inner = max([0] + ds)  # type: ignore[operator]
        return 0 if isinstance(e, ast.Tuple) and inner == 0 else inner + 1
    if isinstance(e, ast.Dict):
        ds = [static_mut_depth(v) for v in e.values]
        return None if any(d is None for d in ds) else max([0] + ds) + 1  # type: ignore[operator]
    if isinstance(e, ast.Call) and (pf.dotted(e.func) or '') in _CONTAINER_CTORS and not e.args and not e.keywords:
        return 1
    if isinstance(e, ast.Call) and (pf.dotted(e.func) or '') in ('frozenset', 'tuple') and not e.args:
        return 0
    return None


class Freshness:
    """Which levels of the object returned by a function are objects that persist across calls (level 1 = the returned container itself, 2 = its
    elements / values, ...).  Exact on the recognised shapes; None = not decided."""

    def __init__(self, m: pf.Module):
        self.m = m
        self.mf = ModFuncs(m)
        self.globals: Dict[str, ast.expr] = {}
        for st in m.tree.body:
            if isinstance(st, ast.Assign) and len(st.targets) == 1 and isinstance(st.targets[0], ast.Name):
                self.globals[st.targets[0].id] = st.value
            elif isinstance(st, ast.AnnAssign) and isinstance(st.target, ast.Name) and st.value is not None:
                self.globals[st.target.id] = st.value
        self._ret: Dict[str, Optional[int]] = {}

    # -- the call cone of a function -----------------------------------------------------
    def cone(self, q: str, depth: int = 3) -> List[str]:
        out = [q]
        work = [(q, 0)]
        while work:
            cur, d = work.pop()
            if d >= depth or cur not in self.mf.by_q:
                continue
            for c in pf.calls_in(self.mf.by_q[cur]):
                for t in self.mf.resolve(cur, c.func):
                    if t not in out:
                        out.append(t)
                        work.append((t, d + 1))
        return out

    @staticmethod
    def _param_default(fn: pf.FuncDef, name: str) -> Optional[ast.expr]:
        pos = fn.args.posonlyargs + fn.args.args
        for a, d in zip(pos[len(pos) - len(fn.args.defaults):], fn.args.defaults):
            if a.arg == name:
                return d
        for a, d in zip(fn.args.kwonlyargs, fn.args.kw_defaults):
            if a.arg == name and d is not None:
                return d
        return None

    def memo_of(self, q: str) -> Optional[str]:
        for d in self.mf.by_q[q].decorator_list:
            n = memo_decorator(self.m, d)
            if n is not None:
                return n
        return None

    def unknown_decorators(self, q: str) -> List[str]:
        out = []
        for d in self.mf.by_q[q].decorator_list:
            full = decorator_full_name(self.m, d)
            if memo_decorator(self.m, d) is None and full not in HARMLESS_DECORATORS:
                out.append(pf.nsrc(d))
        return out

    def persistent_globals(self, qs: Sequence[str]) -> Dict[str, List[Tuple[str, ast.AST]]]:
        """module-level containers the given functions STORE into: name -> [(function, stored value expression)]"""
        out: Dict[str, List[Tuple[str, ast.AST]]] = {}
        for q in qs:
            fn = self.mf.by_q[q]
            local = set(pf.assignments(fn))
            declared_global = {n_ for s in pf.walk_shallow(fn) if isinstance(s, ast.Global) for n_ in s.names}
            for n in pf.walk_shallow(fn):
                g, val = None, None
                if isinstance(n, ast.Assign) and len(n.targets) == 1 and isinstance(n.targets[0], ast.Subscript) and isinstance(n.targets[0].value, ast.Name):
                    g, val = n.targets[0].value.id, n.value
                elif isinstance(n, ast.Call) and isinstance(n.func, ast.Attribute) and isinstance(n.func.value, ast.Name) and n.func.attr in ('setdefault', '__setitem__') and len(n.args) == 2:
                    g, val = n.func.value.id, n.args[1]
                if g is not None and g in self.globals and (g not in local or g in declared_global):
                    out.setdefault(g, []).append((q, val))  # type: ignore[arg-type]
                elif g is not None and self._param_default(fn, g) is not None and (static_mut_depth(self._param_default(fn, g)) or 0) >= 1:  # type: ignore[arg-type]
                    out.setdefault(g, []).append((q, val))  # type: ignore[arg-type]
        return out

    def instance_state_writes(self, qs: Sequence[str]) -> List[str]:
        out = []
        for q in qs:
            fn = self.mf.by_q[q]
            recv = self.mf.receiver_name(q)
            if recv is None:
                continue
            for n in pf.walk_shallow(fn):
                tgt = None
                if isinstance(n, ast.Attribute) and isinstance(n.ctx, (ast.Store, ast.Del)) and isinstance(n.value, ast.Name) and n.value.id == recv:
                    tgt = n
                elif isinstance(n, ast.Subscript) and isinstance(n.ctx, (ast.Store, ast.Del)) and isinstance(n.value, ast.Attribute) and isinstance(n.value.value, ast.Name) \
                        and n.value.value.id == recv:
                    tgt = n
                elif isinstance(n, ast.Call) and isinstance(n.func, ast.Attribute) and n.func.attr in MUTATORS and isinstance(n.func.value, ast.Attribute) \
                        and isinstance(n.func.value.value, ast.Name) and n.func.value.value.id == recv:
                    tgt = n
                if tgt is not None:
                    out.append(f'{q}: `{pf.nsrc(tgt)[:60]}`')
        return out

    # -- how deep is the value mutable -------------------------------------------------------
    def _arg_owned(self, q: str, e: ast.AST, env: Dict[str, object]) -> bool:
        """e is (part of) an argument of the function: a parameter, a comprehension/loop variable over one, a subscript / attribute / .get of one."""
        fn = self.mf.by_q[q]
        params = {a.arg for a in fn.args.posonlyargs + fn.args.args + fn.args.kwonlyargs}
        for _ in range(8):
            if isinstance(e, ast.Name):
                if e.id in params or env.get(e.id) == 'arg':
                    return True
                defs = pf.assignments(fn).get(e.id, [])
                if len(defs) != 1:
                    return False
                d = defs[0]
                if isinstance(d, (ast.For, ast.comprehension)):
                    e = d.iter
                elif isinstance(d, ast.Assign) and not isinstance(d.targets[0], ast.Name):
                    e = d.value   # tuple unpacking: an element of the unpacked value
                elif isinstance(d, ast.expr):
                    e = d
                else:
                    return False
            elif isinstance(e, (ast.Subscript, ast.Attribute)):
                e = e.value
            elif isinstance(e, ast.Call) and isinstance(e.func, ast.Attribute) and e.func.attr == 'get':
                e = e.func.value
            else:
                return False
        return False

    def mut_depth(self, q: str, e: ast.AST, env: Optional[Dict[str, object]] = None, stack: Tuple[str, ...] = ()) -> Optional[int]:
        env = env or {}
        fn = self.mf.by_q[q]

        def mx(xs: List[Optional[int]]) -> Optional[int]:
            return None if any(x is None for x in xs) else max([0] + [x for x in xs if x is not None])
        if isinstance(e, (ast.Constant, ast.Compare, ast.JoinedStr)) or (isinstance(e, ast.UnaryOp) and isinstance(e.op, ast.Not)):
            return 0
        if self._arg_owned(q, e, env):
            return 0
        if isinstance(e, ast.Name):
            defs = pf.assignments(fn).get(e.id, [])
            if not defs:
                return None
            return mx([self.mut_depth(q, d, env, stack) if isinstance(d, ast.expr) else None for d in defs])
        if isinstance(e, (ast.BoolOp,)):
            return mx([self.mut_depth(q, v, env, stack) for v in e.values])
        if isinstance(e, ast.IfExp):
            return mx([self.mut_depth(q, e.body, env, stack), self.mut_depth(q, e.orelse, env, stack)])
        if isinstance(e, (ast.List, ast.Set, ast.Tuple)):
            inner = mx([self.mut_depth(q, x, env, stack) for x in e.elts])
            if inner is None:
                return None
            return inner + 1 if not (isinstance(e, ast.Tuple) and inner == 0) else 0
        if isinstance(e, ast.Dict):
            inner = mx([self.mut_depth(q, v, env, stack) for v in e.values])
            return None if inner is None else inner + 1
        if isinstance(e, (ast.ListComp, ast.SetComp, ast.GeneratorExp, ast.DictComp)):
            env2 = dict(env)
            for g in e.generators:
                if not self._arg_owned(q, g.iter, env2):
                    return None
                for x in ast.walk(g.target):
                    if isinstance(x, ast.Name):
                        env2[x.id] = 'arg'
            inner = self.mut_depth(q, e.value if isinstance(e, ast.DictComp) else e.elt, env2, stack)
            return None if inner is None else inner + 1
        if isinstance(e, ast.Call):
            d = pf.dotted(e.func) or ''
            if d in _SCALAR_CALLS:
                return 0
            tg = self.mf.resolve(q, e.func)
            if len(tg) == 1 and tg[0] not in stack and len(stack) < 4:
                return self.ret_depth(tg[0], stack + (q,))
        return None

    def ret_depth(self, q: str, stack: Tuple[str, ...] = ()) -> Optional[int]:
        if q in self._ret:
            return self._ret[q]
        fn = self.mf.by_q[q]
        rets = [n.value for n in pf.walk_shallow(fn) if isinstance(n, ast.Return) and n.value is not None]
        ds = [self.mut_depth(q, r, None, stack) for r in rets]
        out = None if any(d is None for d in ds) else max([0] + [d for d in ds if d is not None])
        self._ret[q] = out
        return out

    # -- which levels of the returned object are persistent ----------------------------------------
    def shared(self, q: str, e: ast.AST, pg: Dict[str, List[Tuple[str, ast.AST]]], env: Optional[Dict[str, Set[int]]] = None, stack: Tuple[str, ...] = ()) -> Optional[Set[int]]:
        env = env or {}
        fn = self.mf.by_q[q]
        params = {a.arg for a in fn.args.posonlyargs + fn.args.args + fn.args.kwonlyargs}

        def union(xs: List[Optional[Set[int]]]) -> Optional[Set[int]]:
            if any(x is None for x in xs):
                return None
            out: Set[int] = set()
            for x in xs:
                out |= x  # type: ignore[arg-type]
            return out

        def down(s: Optional[Set[int]]) -> Optional[Set[int]]:     # an element of the object
            return None if s is None else {k - 1 for k in s if k >= 2}

        def up(s: Optional[Set[int]]) -> Optional[Set[int]]:       # a fresh container around it
            return None if s is None else {k + 1 for k in s}

        def shallow(s: Optional[Set[int]]) -> Optional[Set[int]]:  # a shallow copy of it
            return None if s is None else {k for k in s if k >= 2}

        def global_levels(g: str) -> Optional[Set[int]]:
            ds = []
            for fq, val in pg.get(g, []):
                reads_g = any(isinstance(x, ast.Name) and x.id == g for x in ast.walk(val))
                if not reads_g:
                    ds.append(self.mut_depth(fq, val))
            if not ds or any(d is None for d in ds):
                return None
            return set(range(1, max(ds) + 1))  # type: ignore[type-var]
        if isinstance(e, (ast.Constant, ast.Compare, ast.JoinedStr, ast.UnaryOp, ast.BinOp)):
            return set()
        if isinstance(e, ast.Name):
            if e.id in env:
                return set(env[e.id])
            if e.id in pg:
                return global_levels(e.id)
            if e.id in params:
                dflt = self._param_default(fn, e.id)
                if dflt is None:
                    return set()
                dd = static_mut_depth(dflt)  # a mutable default value is ONE object for all calls
                return None if dd is None else set(range(1, dd + 1))
            defs = pf.assignments(fn).get(e.id, [])
            if not defs:
                if e.id not in self.globals:
                    return set()
                dd = static_mut_depth(self.globals[e.id])  # a module-level constant: one object for all calls
                return None if dd is None else set(range(1, dd + 1))
            outs: List[Optional[Set[int]]] = []
            for d in defs:
                if isinstance(d, (ast.For, ast.comprehension)) and isinstance(d.target, ast.Name):
                    outs.append(down(self.shared(q, d.iter, pg, env, stack)))
                elif isinstance(d, ast.Assign) and not isinstance(d.targets[0], ast.Name):
                    outs.append(down(self.shared(q, d.value, pg, env, stack)))
                elif isinstance(d, ast.expr):
                    if any(isinstance(x, ast.Name) and x.id == e.id for x in ast.walk(d)):
                        return None
                    outs.append(self.shared(q, d, pg, env, stack))
                else:
                    return None
            return union(outs)
        if isinstance(e, (ast.BoolOp,)):
            return union([self.shared(q, v, pg, env, stack) for v in e.values])
        if isinstance(e, ast.IfExp):
            return union([self.shared(q, e.body, pg, env, stack), self.shared(q, e.orelse, pg, env, stack)])
        if isinstance(e, ast.Await):
            return self.shared(q, e.value, pg, env, stack)
        if isinstance(e, ast.Starred):
            return self.shared(q, e.value, pg, env, stack)
        if isinstance(e, (ast.List, ast.Tuple, ast.Set)):
            parts = [shallow(self.shared(q, x.value, pg, env, stack)) if isinstance(x, ast.Starred) else up(self.shared(q, x, pg, env, stack)) for x in e.elts]
            return union(parts)
        if isinstance(e, ast.Dict):
            parts = [shallow(self.shared(q, v, pg, env, stack)) if k is None else up(self.shared(q, v, pg, env, stack)) for k, v in zip(e.keys, e.values)]
            return union(parts)
        if isinstance(e, (ast.ListComp, ast.SetComp, ast.GeneratorExp, ast.DictComp)):
            env2 = dict(env)
            for g in e.generators:
                it = down(self.shared(q, g.iter, pg, env2, stack))
                if it is None:
                    return None
                if isinstance(g.target, ast.Name):
                    env2[g.target.id] = it
                else:
                    for x in ast.walk(g.target):
                        if isinstance(x, ast.Name):
                            env2[x.id] = {k - 1 for k in it if k >= 2}
            return up(self.shared(q, e.value if isinstance(e, ast.DictComp) else e.elt, pg, env2, stack))
        if isinstance(e, ast.Subscript):
            if isinstance(e.value, ast.Name) and e.value.id in pg and e.value.id not in env:
                return global_levels(e.value.id)
            return down(self.shared(q, e.value, pg, env, stack))
        if isinstance(e, ast.Attribute):
            return None if isinstance(e.value, ast.Name) and e.value.id == (self.mf.receiver_name(q) or '') and e.attr != 'format_version' else set()
        if isinstance(e, ast.Call):
            d = pf.dotted(e.func) or ''
            if d in _SCALAR_CALLS:
                return set()
            if d in ('copy.deepcopy', 'deepcopy') and len(e.args) == 1:
                return set()
            if d in _SHALLOW_COPY_CALLS and len(e.args) == 1 and all(k.arg in ('key', 'reverse') for k in e.keywords):
                return shallow(self.shared(q, e.args[0], pg, env, stack))
            if isinstance(e.func, ast.Attribute) and e.func.attr == 'copy' and not e.args:
                return shallow(self.shared(q, e.func.value, pg, env, stack))
            if isinstance(e.func, ast.Attribute) and isinstance(e.func.value, ast.Name) and e.func.value.id in pg and e.func.attr in ('get', 'setdefault', 'pop'):
                return global_levels(e.func.value.id)
            tg = self.mf.resolve(q, e.func)
            if tg:
                if len(tg) != 1 or tg[0] in stack or len(stack) >= 4:
                    return None
                t = tg[0]
                if self.unknown_decorators(t):
                    return None
                if self.memo_of(t) is not None:
                    dd = self.ret_depth(t)
                    return None if dd is None else set(range(1, dd + 1))
                rets = [n.value for n in pf.walk_shallow(self.mf.by_q[t]) if isinstance(n, ast.Return) and n.value is not None]
                return union([self.shared(t, r, pg, None, stack + (q,)) for r in rets])
            if isinstance(e.func, ast.Attribute) and e.func.attr in ('get', 'items', 'values', 'keys'):
                return down(self.shared(q, e.func.value, pg, env, stack)) if e.func.attr == 'get' else None
            # a call into code outside the module: fresh unless something persistent is passed through it
            inner = union([self.shared(q, a, pg, env, stack) for a in list(e.args) + [k.value for k in e.keywords]])
            return set() if inner == set() else None
        return None


class Witness:
    def __init__(self, level: int, rel: str, func: str, line: int, text: str):
        self.level, self.rel, self.func, self.line, self.text = level, rel, func, line, text


def reader_mutations(m: pf.Module, reader: str) -> Tuple[int, List[Witness]]:
    """(number of call sites of `<x>.<reader>(...)` in m, places where a consumer MUTATES the object the reader returned: level 1 = the returned container itself
    (append / item assignment), level 2 = one of its elements).  Flow-insensitive aliasing through locals, dict literals (`d = {'k': r}` ... `d['k']`, `d.get('k')`),
    for/zip targets; a mutation through a loop variable counts only inside the loop that binds it."""
    out: List[Witness] = []
    n_sites = 0
    if reader not in m.src:
        return 0, out
    par = m.parents()
    hits = [c for c in ast.walk(m.tree) if isinstance(c, ast.Call) and isinstance(c.func, ast.Attribute) and c.func.attr == reader]
    fns: List[pf.FuncDef] = []
    for h in hits:
        f = m.enclosing_func(h)
        if f is not None and not any(f is x for x in fns):
            fns.append(f)
    for fn in fns:
        q = m.qualname(fn)
        seeds = [c for c in pf.calls_in(fn) if isinstance(c.func, ast.Attribute) and c.func.attr == reader]
        if not seeds:
            continue
        n_sites += len(seeds)
        names: Dict[str, int] = {}
        keys: Dict[Tuple[str, str], int] = {}
        loopvars: Dict[str, List[ast.AST]] = {}

        def level(e: ast.AST) -> Optional[int]:
            if any(e is s for s in seeds):
                return 1
            if isinstance(e, ast.Await):
                return level(e.value)
            if isinstance(e, ast.Name):
                return names.get(e.id)
            if isinstance(e, ast.Subscript) and isinstance(e.value, ast.Name):
                k = pf.const_str(e.slice)
                if k is not None:
                    return keys.get((e.value.id, k))
            if isinstance(e, ast.Call) and isinstance(e.func, ast.Attribute) and e.func.attr == 'get' and isinstance(e.func.value, ast.Name) and e.args:
                k = pf.const_str(e.args[0])
                if k is not None:
                    return keys.get((e.func.value.id, k))
            if isinstance(e, ast.BoolOp):
                ls = [level(v) for v in e.values if level(v) is not None]
                return ls[0] if ls else None
            return None

        def bind(target: ast.AST, it: ast.AST, loop: ast.AST) -> bool:
            ch = False
            if isinstance(it, ast.Call) and pf.dotted(it.func) == 'enumerate' and it.args and isinstance(target, ast.Tuple) and len(target.elts) == 2:
                return bind(target.elts[1], it.args[0], loop)
            if isinstance(it, ast.Call) and pf.dotted(it.func) == 'zip' and isinstance(target, ast.Tuple) and len(target.elts) == len(it.args):
                for t, a in zip(target.elts, it.args):
                    ch = bind(t, a, loop) or ch
                return ch
            l = level(it)
            if l is not None and isinstance(target, ast.Name) and names.get(target.id) != l + 1:
                names[target.id] = l + 1
                loopvars.setdefault(target.id, []).append(loop)
                ch = True
            return ch
        changed = True
        rounds = 0
        while changed and rounds < 6:
            changed = False
            rounds += 1
            for n in pf.walk_shallow(fn):
                if isinstance(n, ast.Assign) and len(n.targets) == 1:
                    t, v = n.targets[0], n.value
                    if isinstance(t, ast.Name):
                        l = level(v)
                        if l is not None and names.get(t.id) != l:
                            names[t.id] = l
                            changed = True
                        if isinstance(v, ast.Dict):
                            for k, vv in zip(v.keys, v.values):
                                ks = pf.const_str(k) if k is not None else None
                                lv = level(vv)
                                if ks is not None and lv is not None and keys.get((t.id, ks)) != lv:
                                    keys[(t.id, ks)] = lv
                                    changed = True
                    elif isinstance(t, ast.Subscript) and isinstance(t.value, ast.Name) and pf.const_str(t.slice) is not None:
                        lv = level(v)
                        if lv is not None and keys.get((t.value.id, pf.const_str(t.slice))) != lv:  # type: ignore[arg-type]
                            keys[(t.value.id, pf.const_str(t.slice))] = lv  # type: ignore[index]
                            changed = True
                elif isinstance(n, (ast.For, ast.AsyncFor)):
                    changed = bind(n.target, n.iter, n) or changed

        def inside(node: ast.AST, loops: List[ast.AST]) -> bool:
            cur = par.get(node)
            while cur is not None and cur is not fn:
                if any(cur is lp for lp in loops):
                    return True
                cur = par.get(cur)
            return False

        def lvl_at(x: ast.AST, node: ast.AST) -> Optional[int]:
            l = level(x)
            if l is not None and isinstance(x, ast.Name) and x.id in loopvars and not inside(node, loopvars[x.id]):
                return None
            return l
        for n in pf.walk_shallow(fn):
            if isinstance(n, ast.Subscript) and isinstance(n.ctx, (ast.Store, ast.Del)):
                l = lvl_at(n.value, n)
                if l is not None:
                    st = par.get(n)
                    out.append(Witness(l, m.rel, q, n.lineno, pf.nsrc(st if isinstance(st, (ast.Assign, ast.AugAssign, ast.Delete)) else n)[:70]))
            elif isinstance(n, ast.Call) and isinstance(n.func, ast.Attribute) and n.func.attr in MUTATORS:
                l = lvl_at(n.func.value, n)
                if l is not None:
                    out.append(Witness(l, m.rel, q, n.lineno, pf.nsrc(n)[:70]))
    return n_sites, out
