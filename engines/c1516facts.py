"""Helpers of rules/c15.py and rules/c16.py (nothing of the repository is imported or run).

* acquire/release pairing on a statement CFG with exception edges (manual use of a semaphore instead of `async with`)
* a linear normal form (with opaque `mod c` atoms for // and %) of integer weight expressions: equality and difference are decided on the forms
* dependency closure of names (which parameters can a value depend on)
* unrolling of comprehensions over literal tuples
"""
from __future__ import annotations

import ast
import copy
from fractions import Fraction
from typing import Callable, Dict, List, Optional, Sequence, Set, Tuple

from . import pyfacts as pf

# --------------------------------------------------------------------------------------
# acquire / release pairing
# --------------------------------------------------------------------------------------


def _escapes(n: pf.Node) -> bool:
    """A statement that can raise (a call, an await = cancellation point, raise, assert, yield) and has no exceptional successor in the CFG:
    the exception leaves the function without passing anything (pyfacts only adds 'exc' edges inside try statements)."""
    if n.ast is None or n.kind in ('except', 'join'):
        return False
    if any(lab == 'exc' for _, lab in n.succ):
        return False
    if n.kind == 'raise':
        return True
    return any(isinstance(x, (ast.Call, ast.Await, ast.Raise, ast.Assert, ast.Yield, ast.YieldFrom)) for e in pf.node_exprs(n) for x in pf.walk_shallow(e)) \
        or (n.kind == 'with' and isinstance(n.ast, ast.AsyncWith)) or (n.kind == 'loop' and isinstance(n.ast, ast.AsyncFor))


class Pairing:
    """Facts about manual acquire/release pairing in one function."""

    def __init__(self) -> None:
        self.acquires: List[pf.Node] = []
        self.releases: List[pf.Node] = []
        self.release_without_acquire: Optional[List[pf.Node]] = None   # path entry -> release avoiding every acquire
        self.release_after_failed_acquire: Optional[List[pf.Node]] = None  # path acquire -exc-> ... -> release
        self.leak_paths: List[Tuple[pf.Node, List[pf.Node]]] = []  # (acquire, explicit CFG path to an exit that avoids every release)
        self.leak_escapes: List[Tuple[pf.Node, pf.Node]] = []      # (acquire, statement that can raise outside any try, reached before a release)
        self.double_release: Optional[Tuple[pf.Node, pf.Node]] = None
        self.reacquire: Optional[Tuple[pf.Node, pf.Node]] = None    # a second acquire reached while the first is still held


def pairing(cfg: pf.CFG, is_acquire: Callable[[pf.Node], bool], is_release: Callable[[pf.Node], bool]) -> Pairing:
    out = Pairing()
    reach = cfg.reachable_from(cfg.entry)
    nodes = [n for n in cfg.nodes if n.ast is not None and n.id in reach]
    out.acquires = [n for n in nodes if is_acquire(n)]
    out.releases = [n for n in nodes if is_release(n)]
    A, R = out.acquires, out.releases
    isA = lambda n: any(n is a for a in A)  # noqa: E731
    isR = lambda n: any(n is r for r in R)  # noqa: E731
    if R:
        out.release_without_acquire = cfg.path_avoiding(cfg.entry, isR, isA)
    for a in A:
        # the acquire itself failed / was cancelled: nothing is held, so no release may follow
        p = cfg.path_avoiding(a, isR, isA, edge_ok=lambda x, y, lab, a=a: not (x is a) or lab == 'exc')
        if p is not None and out.release_after_failed_acquire is None:
            out.release_after_failed_acquire = p
        normal = lambda x, y, lab, a=a: not (x is a and lab == 'exc')  # noqa: E731
        # explicit paths to an exit
        p = cfg.path_avoiding(a, lambda n: n is cfg.exit or n is cfg.raise_exit, isR, edge_ok=normal)
        if p is not None:
            out.leak_paths.append((a, p))
        # statements that raise out of the function (no handler, no finally) while the weight is held
        held = cfg.reachable_from(a, avoid=isR, edge_ok=normal)
        for n in cfg.nodes:
            if n.id in held and n is not a and not isR(n) and _escapes(n):
                out.leak_escapes.append((a, n))
        for a2 in A:
            if a2 is not a and a2.id in held and out.reacquire is None:
                out.reacquire = (a, a2)
    for r1 in R:
        seen: Set[int] = set()
        stack = [m for m, _ in r1.succ]
        while stack:
            n = stack.pop()
            if n.id in seen or isA(n):
                continue
            seen.add(n.id)
            if isR(n):
                if out.double_release is None:
                    out.double_release = (r1, n)
                continue
            stack.extend(m for m, _ in n.succ)
    return out


def describe_path(p: Sequence[pf.Node], k: int = 3) -> str:
    steps = [n for n in p if n.ast is not None]
    tail = steps[-k:]
    return ' -> '.join(f'`{pf.nsrc(n.ast)[:60] if n.kind not in ("with", "loop", "test", "except") else n.text()[:60]}`' for n in tail) or '(falls through)'


# --------------------------------------------------------------------------------------
# normal form of integer weight expressions (no evaluation: equality / difference is decided on the normal forms)
# --------------------------------------------------------------------------------------

WLin = Dict[str, Fraction]   # atom -> coefficient; the constant term under '1'; atoms are names / attribute chains and opaque `(e) mod c` terms


def _wl_add(a: WLin, b: WLin, sign: int = 1) -> WLin:
    out = dict(a)
    for k, v in b.items():
        out[k] = out.get(k, Fraction(0)) + sign * v
    return {k: v for k, v in out.items() if v != 0}


def wlin_str(a: WLin) -> str:
    if not a:
        return '0'
    parts = []
    for k in sorted(a, key=lambda x: (x == '1', x)):
        v = a[k]
        c = str(v.numerator) if v.denominator == 1 else str(v)
        parts.append(c if k == '1' else (k if v == 1 else f'{c}*{k}'))
    return ' + '.join(parts).replace('+ -', '- ')


def weight_normal_form(e: ast.AST) -> Optional[WLin]:
    """Linear normal form over integer atoms of an expression built from + - unary minus, * by a constant, int(), and // / % by a positive
    integer constant c, using  e // c = (e - (e mod c)) / c  with `(e mod c)` an opaque atom (dropped when every coefficient of e is a
    multiple of c, where e mod c = 0 for integer atoms).  None when e is outside this fragment.

    Two expressions with EQUAL normal forms are equal for all integer values of the atoms.  Two expressions whose normal forms DIFFER are
    different functions of their atoms: the atoms x and (.. mod c) with c >= 2 are linearly independent over the integers (x = 0 and x = c
    fix the x-coefficient and the constant, x = 1 the mod-coefficient), so a non-zero difference form is non-zero for some weights."""
    if isinstance(e, ast.Constant) and isinstance(e.value, int) and not isinstance(e.value, bool):
        return {'1': Fraction(e.value)} if e.value else {}
    d = pf.dotted(e)
    if d is not None:
        return {d: Fraction(1)}
    if isinstance(e, ast.Call) and isinstance(e.func, ast.Name) and e.func.id == 'int' and len(e.args) == 1 and not e.keywords:
        return weight_normal_form(e.args[0])
    if isinstance(e, ast.UnaryOp) and isinstance(e.op, (ast.USub, ast.UAdd)):
        a = weight_normal_form(e.operand)
        if a is None:
            return None
        return {k: -v for k, v in a.items()} if isinstance(e.op, ast.USub) else a
    if isinstance(e, ast.BinOp):
        a, b = weight_normal_form(e.left), weight_normal_form(e.right)
        if a is None or b is None:
            return None
        if isinstance(e.op, ast.Add):
            return _wl_add(a, b)
        if isinstance(e.op, ast.Sub):
            return _wl_add(a, b, -1)
        if isinstance(e.op, ast.Mult):
            for x, y in ((a, b), (b, a)):
                if set(x) <= {'1'}:
                    c = x.get('1', Fraction(0))
                    return {k: v * c for k, v in y.items() if v * c != 0}
            return None
        if isinstance(e.op, (ast.FloorDiv, ast.Mod)) and set(b) == {'1'} and b['1'].denominator == 1 and b['1'] >= 1 \
                and all(v.denominator == 1 for v in a.values()):
            c = b['1']
            exact = all(v % c == 0 for v in a.values())
            modatom = {} if exact or c == 1 else {f'(({wlin_str(a)}) mod {c.numerator})': Fraction(1)}
            if isinstance(e.op, ast.Mod):
                return modatom
            return {k: v / c for k, v in _wl_add(a, modatom, -1).items()}
    return None


# --------------------------------------------------------------------------------------
# name dependencies
# --------------------------------------------------------------------------------------

def depends_on(fn: pf.FuncDef, e: ast.AST, through_len: bool = True) -> Set[str]:
    """Names (parameters and locals) the value of e can depend on, transitively through every assignment to the locals it mentions
    (flow-insensitive over-approximation; loop targets depend on the iterable; augmented assignments on both sides).
    through_len=False: `len(x)` is not counted as a dependency on x (it reveals the size only)."""
    asg = pf.assignments(fn)
    seen: Set[str] = set()

    def names(x: ast.AST) -> Set[str]:
        if through_len:
            return pf.names_in(x)
        out: Set[str] = set()
        stack = [x]
        while stack:
            n = stack.pop()
            if isinstance(n, ast.Call) and isinstance(n.func, ast.Name) and n.func.id == 'len':
                continue
            if isinstance(n, ast.Name):
                out.add(n.id)
            stack.extend(ast.iter_child_nodes(n))
        return out
    work = list(names(e))
    while work:
        nme = work.pop()
        if nme in seen:
            continue
        seen.add(nme)
        for d in asg.get(nme, []):
            if isinstance(d, ast.arg):
                continue
            srcs: List[ast.AST] = []
            if isinstance(d, (ast.For, ast.AsyncFor, ast.comprehension)):
                srcs = [d.iter]
            elif isinstance(d, ast.AugAssign):
                srcs = [d.value, d.target]
            elif isinstance(d, ast.Assign):
                srcs = [d.value]
            elif isinstance(d, ast.withitem):
                srcs = [d.context_expr]
            elif isinstance(d, ast.expr):
                srcs = [d]
            for s in srcs:
                work.extend(names(s))
    return seen


# --------------------------------------------------------------------------------------
# comprehension over a literal tuple  ->  list literal
# --------------------------------------------------------------------------------------

def unroll_literal_comprehension(e: ast.AST) -> ast.AST:
    """`[f(k) for k in ('a', 'b')]`  ->  `[f('a'), f('b')]` (single generator over a literal tuple/list of constants, no filter).  Otherwise e."""
    if not isinstance(e, ast.ListComp) or len(e.generators) != 1:
        return e
    g = e.generators[0]
    if g.ifs or g.is_async or not isinstance(g.target, ast.Name) or not isinstance(g.iter, (ast.Tuple, ast.List)) \
            or not all(isinstance(x, ast.Constant) for x in g.iter.elts):
        return e
    var = g.target.id

    class S(ast.NodeTransformer):
        def __init__(self, c: ast.Constant):
            self.c = c

        def visit_Name(self, node: ast.Name):
            if node.id == var and isinstance(node.ctx, ast.Load):
                return ast.copy_location(ast.Constant(value=self.c.value), node)
            return node
    elts = [S(c).visit(copy.deepcopy(e.elt)) for c in g.iter.elts]
    out = ast.copy_location(ast.List(elts=elts, ctx=ast.Load()), e)
    ast.fix_missing_locations(out)
    return out


# --------------------------------------------------------------------------------------
# value domains of job-spec fields, read off the validator (hailtop.utils.validate combinators) and the front end
# --------------------------------------------------------------------------------------

VALIDATE_REL = 'batch/batch/front_end/validate.py'
HT_VALIDATE_REL = 'hail/python/hailtop/utils/validate/validate.py'
FRONT_END_REL = 'batch/batch/front_end/front_end.py'


class Schema:
    """kind: bool | int | str | list | dict | enum | other.  falsy: a legitimate falsy value of the domain (repr) or None when every accepted value is truthy;
    'unknown' when it cannot be told."""

    def __init__(self, kind: str, falsy: Optional[str], origin: str, fields: Optional[Dict[str, Tuple['Schema', bool]]] = None, elem: Optional['Schema'] = None):
        self.kind, self.falsy, self.origin = kind, falsy, origin
        self.fields = fields or {}
        self.elem = elem

    def __repr__(self) -> str:
        return f'<{self.kind} falsy={self.falsy} {self.origin}>'


def _regex_min_width(pattern: str) -> Optional[int]:
    try:
        import re._parser as sp  # type: ignore[import-not-found]
        return int(sp.parse(pattern).getwidth()[0])
    except Exception:  # noqa: BLE001 - an unparsable pattern is simply "unknown"
        return None


def _base_validator(name: str) -> Optional[Schema]:
    """bool_type / int_type / str_type / non_empty_str_type as defined in hailtop.utils.validate: TypedValidator(<type>) [+ TruthyValidator()]."""
    try:
        hv = pf.load(HT_VALIDATE_REL)
        v = hv.global_assign(name)
    except pf.AnalysisError:
        return None
    truthy = False
    if isinstance(v, ast.Call) and pf.dotted(v.func) == 'MultipleValidator' and len(v.args) == 1 and isinstance(v.args[0], ast.List):
        parts = v.args[0].elts
        truthy = any(isinstance(x, ast.Call) and pf.dotted(x.func) == 'TruthyValidator' for x in parts)
        base = [x for x in parts if isinstance(x, ast.Name)]
        if len(base) != 1:
            return None
        s = _base_validator(base[0].id)
        if s is None:
            return None
        return Schema(s.kind, None if truthy else s.falsy, name)
    if isinstance(v, ast.Call) and pf.dotted(v.func) == 'TypedValidator' and len(v.args) == 1 and isinstance(v.args[0], ast.Name):
        t = v.args[0].id
        table = {'bool': ('bool', 'False'), 'int': ('int', '0'), 'str': ('str', "''"), 'list': ('list', '[]'), 'dict': ('dict', '{}'), 'float': ('other', '0.0')}
        if t in table:
            return Schema(table[t][0], table[t][1], name)
    return None


def schema_of(m: pf.Module, e: ast.AST, depth: int = 0) -> Schema:
    """Schema of a validator expression of batch/front_end/validate.py."""
    unknown = Schema('other', 'unknown', pf.nsrc(e)[:40])
    if depth > 6:
        return unknown
    if isinstance(e, ast.Name):
        b = _base_validator(e.id) if m.imports().get(e.id, '').startswith('hailtop.utils.validate') else None
        if b is not None:
            return b
        try:
            return schema_of(m, m.global_assign(e.id), depth + 1)
        except pf.AnalysisError:
            return unknown
    if not isinstance(e, ast.Call):
        return unknown
    f = pf.dotted(e.func)
    if f == 'keyed' and len(e.args) == 1 and isinstance(e.args[0], ast.Dict):
        fields: Dict[str, Tuple[Schema, bool]] = {}
        for k, v in zip(e.args[0].keys, e.args[0].values):
            req = isinstance(k, ast.Call) and pf.dotted(k.func) == 'required' and len(k.args) == 1
            ks = pf.const_str(k.args[0]) if req else (pf.const_str(k) if k is not None else None)  # type: ignore[union-attr]
            if ks is None:
                return unknown
            fields[ks] = (schema_of(m, v, depth + 1), bool(req))
        return Schema('dict', None if any(r for _, r in fields.values()) else '{}', 'keyed', fields=fields)
    if f == 'listof' and len(e.args) == 1:
        return Schema('list', '[]', 'listof', elem=schema_of(m, e.args[0], depth + 1))
    if f == 'dictof':
        return Schema('dict', '{}', 'dictof')
    if f == 'regex' and e.args:
        p = pf.const_str(e.args[0])
        w = _regex_min_width(p) if p is not None else None
        return Schema('str', 'unknown' if w is None else ("''" if w == 0 else None), 'regex')
    if f == 'oneof':
        vals = [a.value for a in e.args if isinstance(a, ast.Constant)]
        if len(vals) == len(e.args):
            fl = [v for v in vals if not v]
            return Schema('enum', repr(fl[0]) if fl else None, 'oneof')
    return unknown


def job_schema() -> Schema:
    m = pf.load(VALIDATE_REL)
    s = schema_of(m, m.global_assign('job_validator'))
    if s.kind != 'dict' or not s.fields:
        raise pf.AnalysisError(f'{VALIDATE_REL}: job_validator is not keyed({{...}})')
    return s


def front_end_values(key: str) -> List[ast.AST]:
    """Expressions the front end stores under `key` after validation: `x['key'] = v` and `'key': v` entries of dict literals."""
    m = pf.load(FRONT_END_REL)
    out: List[ast.AST] = []
    for n in ast.walk(m.tree):
        if isinstance(n, ast.Assign) and len(n.targets) == 1 and isinstance(n.targets[0], ast.Subscript) and pf.const_str(n.targets[0].slice) == key:
            out.append(n.value)
        elif isinstance(n, ast.Dict):
            for k, v in zip(n.keys, n.values):
                if k is not None and pf.const_str(k) == key:
                    out.append(v)
    return out


def field_schema(root: Schema, path: Sequence[str]) -> Optional[Schema]:
    """Schema at a path ('secrets', '[]', 'mount_in_copy').  Keys the validator does not list (added by the front end after validation) get a
    domain from the constants the front end stores there; anything else is unknown (None)."""
    cur = root
    for i, p in enumerate(path):
        if p == '[]':
            if cur.kind != 'list' or cur.elem is None:
                return None
            cur = cur.elem
            continue
        if cur.kind != 'dict' or not cur.fields:
            return None
        if p in cur.fields:
            cur = cur.fields[p][0]
            continue
        if i != len(path) - 1:
            return None
        vals = front_end_values(p)
        if vals and all(isinstance(v, ast.Constant) and isinstance(v.value, bool) for v in vals):
            return Schema('bool', 'False' if any(v.value is False for v in vals) else None, f'front end stores {sorted({repr(v.value) for v in vals})}')  # type: ignore[attr-defined]
        return None
    return cur


def field_required(root: Schema, path: Sequence[str]) -> Optional[bool]:
    cur = root
    req: Optional[bool] = None
    for p in path:
        if p == '[]':
            if cur.elem is None:
                return None
            cur, req = cur.elem, True
            continue
        if p not in cur.fields:
            return None
        cur, req = cur.fields[p][0], cur.fields[p][1]
    return req
