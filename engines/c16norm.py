"""Behaviour-preserving normalisation of the semaphore classes before rules/c16.py analyses them (nothing of the repository is imported or run).

The rules of C16 read a small number of statement shapes (`self.value -= w` under a test on `self.value`, `await self.sem.acquire(self.weight)`, ...).
Maintainers spell the same statements differently; every rewrite below maps one spelling to the canonical one and is an equivalence of Python
semantics under the stated side conditions (checked here, syntactically), so a verdict on the normal form is a verdict on the original:

  A  a call `self.h(args)` in an `if` / `while` test, where h is a synchronous method of the same class whose body is a chain of
     `if c: return <e>` ... `return <e>` over side-effect-free expressions, is replaced by the boolean expression it computes
     (`if c: return False; return e`  ==  `(not c) and e`); arguments must be names / attributes / constants
  B  `T = T + e` / `T = T - e`  ->  `T += e` / `T -= e`            (T a name or attribute chain; numbers)
  C  `a, b = x, y`  ->  `a = x; b = y`                                (x, y names / attribute chains / constants, no target occurs on the right)
  D  `n = <boolean expr>` immediately followed by `if <test using n>:`, n assigned once and used nowhere else  ->  the expression is
     substituted into the test and the assignment dropped
  E  a local whose single definition is `self.<attr>` is replaced by `self.<attr>` when that attribute is stored nowhere in the class outside
     __init__ (so it denotes the same object at the definition and at every use)
"""
from __future__ import annotations

import ast
import copy
from typing import Dict, List, Optional, Sequence, Set

from . import pyfacts as pf

_PURE = (ast.Name, ast.Attribute, ast.Constant, ast.Compare, ast.BoolOp, ast.UnaryOp, ast.BinOp, ast.Load, ast.cmpop, ast.boolop, ast.unaryop, ast.operator, ast.expr_context)


def _pure(e: ast.AST, allow_len: bool = True) -> bool:
    for x in ast.walk(e):
        if isinstance(x, ast.Call):
            if not (allow_len and isinstance(x.func, ast.Name) and x.func.id in ('len', 'bool') and len(x.args) == 1 and not x.keywords):
                return False
        elif not isinstance(x, _PURE):
            return False
    return True


def _simple(e: ast.AST) -> bool:
    return all(isinstance(x, (ast.Name, ast.Attribute, ast.Constant, ast.expr_context)) for x in ast.walk(e))


class _Subst(ast.NodeTransformer):
    def __init__(self, mapping: Dict[str, ast.AST]):
        self.mapping = mapping

    def visit_Name(self, node: ast.Name):
        if isinstance(node.ctx, ast.Load) and node.id in self.mapping:
            return copy.deepcopy(self.mapping[node.id])
        return node


def _predicate_expr(h: ast.FunctionDef) -> Optional[ast.expr]:
    """Boolean/any expression computed by a helper whose body is `if c: return e` ... `return e` (docstring allowed)."""
    body = [s for s in h.body if not (isinstance(s, ast.Expr) and isinstance(s.value, ast.Constant))]

    def fold(stmts: Sequence[ast.stmt]) -> Optional[ast.expr]:
        if not stmts:
            return None
        st = stmts[0]
        if isinstance(st, ast.Return) and st.value is not None and _pure(st.value):
            return st.value
        if isinstance(st, ast.If) and _pure(st.test):
            then = fold(st.body)
            rest = fold(st.orelse) if st.orelse else fold(stmts[1:])
            if then is None or rest is None:
                return None
            c = st.test
            if isinstance(then, ast.Constant) and then.value is True:
                return ast.BoolOp(op=ast.Or(), values=[c, rest])
            if isinstance(then, ast.Constant) and then.value is False:
                return ast.BoolOp(op=ast.And(), values=[ast.UnaryOp(op=ast.Not(), operand=c), rest])
            if isinstance(rest, ast.Constant) and rest.value is False:
                return ast.BoolOp(op=ast.And(), values=[c, then])
            if isinstance(rest, ast.Constant) and rest.value is True:
                return ast.BoolOp(op=ast.Or(), values=[ast.UnaryOp(op=ast.Not(), operand=c), then])
            return ast.BoolOp(op=ast.Or(), values=[ast.BoolOp(op=ast.And(), values=[c, then]),
                                                   ast.BoolOp(op=ast.And(), values=[ast.UnaryOp(op=ast.Not(), operand=c), rest])])
        return None
    return fold(body)


class _TestInliner(ast.NodeTransformer):
    """A: predicate helpers in tests."""

    def __init__(self, helpers: Dict[str, ast.FunctionDef], recv: str):
        self.helpers = helpers
        self.recv = recv
        self.done: List[str] = []

    def _expand(self, e: ast.expr, depth: int = 0) -> ast.expr:
        if isinstance(e, ast.BoolOp):
            e.values = [self._expand(v, depth) for v in e.values]
            return e
        if isinstance(e, ast.UnaryOp) and isinstance(e.op, ast.Not):
            e.operand = self._expand(e.operand, depth)
            return e
        if isinstance(e, ast.Call) and isinstance(e.func, ast.Attribute) and isinstance(e.func.value, ast.Name) and e.func.value.id == self.recv \
                and e.func.attr in self.helpers and not e.keywords and all(_simple(a) for a in e.args) and depth < 3:
            h = self.helpers[e.func.attr]
            params = [a.arg for a in h.args.args]
            if len(params) == len(e.args) + 1 and not h.args.vararg and not h.args.kwarg and not h.args.kwonlyargs and not h.decorator_list:
                pe = _predicate_expr(h)
                if pe is not None:
                    mapping: Dict[str, ast.AST] = {params[0]: ast.Name(id=self.recv, ctx=ast.Load())}
                    mapping.update(dict(zip(params[1:], e.args)))
                    out = _Subst(mapping).visit(copy.deepcopy(pe))
                    ast.copy_location(out, e)
                    for x in ast.walk(out):
                        if not hasattr(x, 'lineno'):
                            ast.copy_location(x, e)
                    self.done.append(e.func.attr)
                    return self._expand(out, depth + 1)
        return e

    def visit_If(self, node: ast.If):
        self.generic_visit(node)
        node.test = self._expand(node.test)
        return node

    def visit_While(self, node: ast.While):
        self.generic_visit(node)
        node.test = self._expand(node.test)
        return node


def _aug(st: ast.stmt) -> ast.stmt:
    """B"""
    if isinstance(st, ast.Assign) and len(st.targets) == 1 and isinstance(st.targets[0], (ast.Name, ast.Attribute)) and isinstance(st.value, ast.BinOp) \
            and isinstance(st.value.op, (ast.Add, ast.Sub)) and pf.nsrc(st.value.left) == pf.nsrc(st.targets[0]) and _simple(st.targets[0]):
        new = ast.AugAssign(target=st.targets[0], op=st.value.op, value=st.value.right)
        return ast.copy_location(new, st)
    return st


def _split_tuple(st: ast.stmt) -> List[ast.stmt]:
    """C"""
    if isinstance(st, ast.Assign) and len(st.targets) == 1 and isinstance(st.targets[0], ast.Tuple) and isinstance(st.value, ast.Tuple) \
            and len(st.targets[0].elts) == len(st.value.elts) and all(isinstance(t, ast.Name) for t in st.targets[0].elts) and all(_simple(v) for v in st.value.elts):
        tnames = {t.id for t in st.targets[0].elts}  # type: ignore[attr-defined]
        if not any(isinstance(x, ast.Name) and x.id in tnames for v in st.value.elts for x in ast.walk(v)):
            return [ast.copy_location(ast.Assign(targets=[t], value=v), st) for t, v in zip(st.targets[0].elts, st.value.elts)]
    return [st]


def _blocks(fn: ast.AST):
    for n in ast.walk(fn):
        for fld in ('body', 'orelse', 'finalbody'):
            b = getattr(n, fld, None)
            if isinstance(b, list) and b and isinstance(b[0], ast.stmt):
                yield n, fld, b
        if isinstance(n, ast.Try):
            for h in n.handlers:
                pass  # handler bodies are reached through ast.walk (ExceptHandler has .body)


def _fold_bool_locals(fn: pf.FuncDef) -> None:
    """D"""
    loads: Dict[str, int] = {}
    stores: Dict[str, int] = {}
    for x in ast.walk(fn):
        if isinstance(x, ast.Name):
            d = loads if isinstance(x.ctx, ast.Load) else stores
            d[x.id] = d.get(x.id, 0) + 1
    for owner, fld, blk in list(_blocks(fn)):
        i = 0
        while i + 1 < len(blk):
            a, b = blk[i], blk[i + 1]
            if isinstance(a, ast.Assign) and len(a.targets) == 1 and isinstance(a.targets[0], ast.Name) and isinstance(b, ast.If) \
                    and isinstance(a.value, (ast.Compare, ast.BoolOp, ast.UnaryOp)) and _pure(a.value):
                n = a.targets[0].id
                uses_in_test = sum(1 for x in ast.walk(b.test) if isinstance(x, ast.Name) and x.id == n)
                if stores.get(n, 0) == 1 and uses_in_test >= 1 and loads.get(n, 0) == uses_in_test:
                    b.test = _Subst({n: a.value}).visit(b.test)
                    ast.fix_missing_locations(b)
                    del blk[i]
                    continue
            i += 1


def _stored_attrs_outside_init(cls: ast.ClassDef) -> Set[str]:
    out: Set[str] = set()
    for f in cls.body:
        if isinstance(f, (ast.FunctionDef, ast.AsyncFunctionDef)) and f.name != '__init__':
            for x in ast.walk(f):
                if isinstance(x, ast.Attribute) and isinstance(x.ctx, (ast.Store, ast.Del)):
                    out.add(pf.nsrc(x))
    return out


def _subst_self_aliases(fn: pf.FuncDef, stored: Set[str]) -> None:
    """E"""
    if not fn.args.args:
        return
    recv = fn.args.args[0].arg
    asg = pf.assignments(fn)
    mapping: Dict[str, ast.AST] = {}
    for name, defs in asg.items():
        if len(defs) == 1 and isinstance(defs[0], ast.Attribute) and isinstance(defs[0].value, ast.Name) and defs[0].value.id == recv \
                and pf.nsrc(defs[0]) not in stored:
            mapping[name] = defs[0]
    if not mapping:
        return
    sub = _Subst(mapping)
    for owner, fld, blk in list(_blocks(fn)):
        keep = []
        for st in blk:
            if isinstance(st, ast.Assign) and len(st.targets) == 1 and isinstance(st.targets[0], ast.Name) and st.targets[0].id in mapping:
                continue  # the alias definition itself
            keep.append(sub.visit(st))
        if not keep:
            keep = [ast.copy_location(ast.Pass(), blk[0])]
        blk[:] = keep


def normalise(m: pf.Module, class_names: Sequence[str]) -> pf.Module:
    """A copy of module m with the methods of the named classes rewritten into the canonical spellings (A-E above)."""
    tree = copy.deepcopy(m.tree)
    for cls in tree.body:
        if not (isinstance(cls, ast.ClassDef) and cls.name in class_names):
            continue
        helpers = {f.name: f for f in cls.body if isinstance(f, ast.FunctionDef)}
        pristine = {k: copy.deepcopy(v) for k, v in helpers.items()}
        stored = _stored_attrs_outside_init(cls)
        for f in cls.body:
            if not isinstance(f, (ast.FunctionDef, ast.AsyncFunctionDef)):
                continue
            recv = f.args.args[0].arg if f.args.args else 'self'
            _TestInliner({k: v for k, v in pristine.items() if k != f.name}, recv).visit(f)
            for owner, fld, blk in list(_blocks(f)):
                new: List[ast.stmt] = []
                for st in blk:
                    for s2 in _split_tuple(st):
                        new.append(_aug(s2))
                blk[:] = new
            _fold_bool_locals(f)
            _subst_self_aliases(f, stored)
    ast.fix_missing_locations(tree)
    return pf.Module(m.rel, m.path, m.src, tree)
