"""Facts for C17 (Batch ordering / LocalBackend failure propagation) that go beyond a single CFG query.

1. `search`            path query on a pyfacts CFG that may return to its start node (one full loop iteration).
2. colour-set typestate of a job traversal (`Traversal`)
       A topological-sort traversal written with colour sets (`seen`, `in_progress`, `done`, ...), an output list and optionally an
       explicit work stack moves every job through a small lifecycle.  The lifecycle states are *derived from the code*: a state is the
       valuation (member of which colour sets, how often in the output list, how often on the work stack) reached by abstractly
       executing the statements that handle the job - tests on the job's memberships are decided by the valuation, every other test is
       explored on both branches.  The rule module then enumerates this finite abstract domain: what does the code do when the job it
       is about to depend on is unvisited / pushed but not expanded / being expanded / already emitted?  Nothing is run on a concrete
       pipeline; example pipelines appear only in messages, to show a history in which the decided defect is observable.
3. pull-style skip decisions (`Formula`, `parse_formula`, `ev3`)
       three-valued evaluation of the Boolean structure of a skip test over the atoms  `job._always_run`,
       all-parents-in-S / no-parent-in-S  for a set S,  `job in S`.

Nothing in here imports or executes repository code.
"""
from __future__ import annotations

import ast
import copy
from typing import Callable, Dict, FrozenSet, List, Optional, Sequence, Set, Tuple

from . import pyfacts as pf
from .common import AnalysisError

# ------------------------------------------------------------------------------------------------
# 1. path search that may come back to the start node
# ------------------------------------------------------------------------------------------------


def search(g: pf.CFG, src: pf.Node, goal: Callable[[pf.Node], bool], avoid: Callable[[pf.Node], bool],
           edge_ok: Optional[Callable[[pf.Node, pf.Node, str], bool]] = None, first: Optional[Callable[[str], bool]] = None) -> Optional[List[pf.Node]]:
    """A path src -> ... -> node satisfying `goal` with no intermediate node satisfying `avoid`.  Unlike CFG.path_avoiding the start
    node may be reached again (and may be the goal): used for "one iteration of a loop, from the header back to the header".
    `first` restricts the labels of the edges leaving `src`; 'exc' edges are never followed."""
    prev: Dict[int, Optional[pf.Node]] = {}
    queue: List[pf.Node] = []

    def path_to(m: pf.Node, n: Optional[pf.Node]) -> List[pf.Node]:
        out = [m]
        cur = n
        while cur is not None:
            out.append(cur)
            cur = prev[cur.id]
        out.append(src)
        return list(reversed(out))

    for m, lab in src.succ:
        if lab == 'exc' or (first is not None and not first(lab)) or (edge_ok is not None and not edge_ok(src, m, lab)):
            continue
        if m.id in prev:
            continue
        prev[m.id] = None
        if goal(m):
            return [src, m]
        if avoid(m):
            continue
        queue.append(m)
    while queue:
        n = queue.pop(0)
        for m, lab in n.succ:
            if lab == 'exc' or (edge_ok is not None and not edge_ok(n, m, lab)):
                continue
            if m.id in prev:
                continue
            prev[m.id] = n
            if goal(m):
                return path_to(m, n)
            if avoid(m):
                continue
            queue.append(m)
    return None


# ------------------------------------------------------------------------------------------------
# 2. colour-set typestate
# ------------------------------------------------------------------------------------------------

class St:
    """Abstract state of ONE job: the colour sets it is a member of, how often it is in the output list (0, 1, 2 = more than once) and
    how many entries of the work stack denote it (0, 1, 2 = several) - `nstack` plain / not-yet-expanded entries `(job, False)`,
    `nflag` entries flagged as expanded `(job, True)` when the stack holds (job, flag) pairs."""
    __slots__ = ('bits', 'emitted', 'nstack', 'nflag')

    def __init__(self, bits: FrozenSet[str] = frozenset(), emitted: int = 0, nstack: int = 0, nflag: int = 0):
        self.bits = frozenset(bits)
        self.emitted = min(emitted, 2)
        self.nstack = max(0, min(nstack, 2))
        self.nflag = max(0, min(nflag, 2))

    def key(self) -> Tuple[FrozenSet[str], int, int, int]:
        return (self.bits, self.emitted, self.nstack, self.nflag)

    def __eq__(self, o: object) -> bool:
        return isinstance(o, St) and self.key() == o.key()

    def __hash__(self) -> int:
        return hash(self.key())

    def with_(self, add: Optional[str] = None, remove: Optional[str] = None, emit: int = 0, stack: int = 0, flag: int = 0) -> 'St':
        b = set(self.bits)
        if add:
            b.add(add)
        if remove:
            b.discard(remove)
        return St(frozenset(b), self.emitted + emit, self.nstack + stack, self.nflag + flag)

    def describe(self, sets: Sequence[str], out: str, stack: Optional[str]) -> str:
        parts = [f'{"in" if s in self.bits else "not in"} {s}' for s in sets]
        parts.append(f'{"in" if self.emitted else "not in"} {out}' + (' twice' if self.emitted > 1 else ''))
        if stack:
            if self.nflag:
                parts.append(f'on {stack} flagged as expanded' + (' and once more unexpanded' if self.nstack else ''))
            else:
                parts.append(f'{"on" if self.nstack else "not on"} {stack}')
        return ', '.join(parts)


class Outcome:
    """One abstract path through a unit."""
    __slots__ = ('term', 'st', 'events', 'line')

    def __init__(self, term: str, st: St, events: Tuple[str, ...], line: int = 0):
        self.term = term          # fall | continue | break | return | raise
        self.st = st
        self.events = events      # push, pushT (flagged entry), push-other, pop, emit, deps, loop (entered the work loop), add:<S>, remove:<S>
        self.line = line

    def has(self, ev: str) -> bool:
        return ev in self.events

    def sig(self) -> Tuple[str, Tuple[FrozenSet[str], int, int, int], Tuple[str, ...]]:
        return (self.term, self.st.key(), tuple(e for e in self.events if not e.startswith('push-other')))


class Traversal:
    """Containers and statement executor shared by the recursive and the explicit-stack families."""

    def __init__(self, where: str, sets: Sequence[str], out: str, stack: Optional[str], deps_attr: str):
        self.where = where
        self.sets = list(sets)
        self.out = out
        self.stack = stack
        self.deps_attr = deps_attr
        self.self_call: Optional[str] = None   # name of the recursive scheduler (family A): `S(p)` inside the dependency loop
        self.dep_loops: List[ast.For] = []
        self.at_deps: Optional[St] = None      # state of the tracked job when the loop over its dependencies was last entered
        self.flagvar: Optional[str] = None     # stack of (job, flag) pairs: the name the flag of the visited entry is bound to
        self.flag: Optional[bool] = None       # ... and its value during the current abstract visit

    # -- helpers --------------------------------------------------------------------------------
    def tracked_names(self) -> Set[str]:
        return set(self.sets) | {self.out} | ({self.stack} if self.stack else set())

    def decline(self, msg: str) -> AnalysisError:
        return AnalysisError(f'{self.where}: {msg}')

    def _mentions(self, e: ast.AST, tv: str) -> bool:
        names = pf.names_in(e)
        return bool(names & (self.tracked_names() | {tv}))

    def ev(self, t: ast.AST, st: St, tv: str) -> Optional[bool]:
        """Three-valued value of a test for the tracked job `tv` in state `st` (None = not about the tracked job: both branches)."""
        if isinstance(t, ast.UnaryOp) and isinstance(t.op, ast.Not):
            v = self.ev(t.operand, st, tv)
            return None if v is None else (not v)
        if isinstance(t, ast.BoolOp):
            vals = [self.ev(x, st, tv) for x in t.values]
            if isinstance(t.op, ast.And):
                if any(v is False for v in vals):
                    return False
                return True if all(v is True for v in vals) else None
            if any(v is True for v in vals):
                return True
            return False if all(v is False for v in vals) else None
        if self.flagvar is not None and self.flag is not None:
            if isinstance(t, ast.Name) and t.id == self.flagvar:
                return self.flag
            if isinstance(t, ast.Compare) and len(t.ops) == 1 and isinstance(t.left, ast.Name) and t.left.id == self.flagvar \
                    and isinstance(t.comparators[0], ast.Constant) and isinstance(t.comparators[0].value, bool):
                if isinstance(t.ops[0], (ast.Is, ast.Eq)):
                    return self.flag == t.comparators[0].value
                if isinstance(t.ops[0], (ast.IsNot, ast.NotEq)):
                    return self.flag != t.comparators[0].value
        if self.flagvar is not None and self.flagvar in pf.names_in(t) and not isinstance(t, (ast.BoolOp, ast.UnaryOp)):
            raise self.decline(f'test `{pf.nsrc(t)}` on the entry flag not recognised')
        if isinstance(t, ast.Compare) and len(t.ops) == 1 and isinstance(t.ops[0], (ast.In, ast.NotIn)) \
                and isinstance(t.left, ast.Name) and isinstance(t.comparators[0], ast.Name):
            who, c = t.left.id, t.comparators[0].id
            neg = isinstance(t.ops[0], ast.NotIn)
            if c in self.tracked_names():
                if who != tv:
                    return None  # about another job
                if c in self.sets:
                    v = c in st.bits
                elif c == self.out:
                    v = st.emitted > 0
                else:
                    v = st.nstack > 0
                return (not v) if neg else v
        if self._mentions(t, tv) and not self._only_other_attrs(t, tv):
            raise self.decline(f'test `{pf.nsrc(t)}` on the traversal state is not a membership test that can be decided per job')
        return None

    def _only_other_attrs(self, t: ast.AST, tv: str) -> bool:
        """The test reads attributes of the tracked job only (`j._always_run`, `j.name`): free, it does not look at the colour sets."""
        if pf.names_in(t) & self.tracked_names():
            return False
        attr_bases = {id(x.value) for x in ast.walk(t) if isinstance(x, ast.Attribute)}
        for x in ast.walk(t):
            if isinstance(x, ast.Name) and x.id == tv and id(x) not in attr_bases:
                return False
            if isinstance(x, ast.Attribute) and isinstance(x.value, ast.Name) and x.value.id == tv and x.attr == self.deps_attr:
                return False
        return True

    # -- the executor ---------------------------------------------------------------------------
    def run(self, stmts: Sequence[ast.stmt], st: St, tv: str, unit: str) -> List[Outcome]:
        """All abstract paths through `stmts` for the tracked job variable `tv` starting in state `st`.
        unit: 'visit' (tv is the job taken from the work stack / the parameter of the recursive scheduler),
              'dep'   (tv is the target of the loop over the dependencies of the current job),
              'root'  (tv is the target of the driver loop)."""
        outs = [Outcome('fall', st, ())]
        for s in stmts:
            nxt: List[Outcome] = []
            for o in outs:
                if o.term != 'fall':
                    nxt.append(o)
                else:
                    nxt += self._stmt(s, o, tv, unit)
            outs = nxt
            if len(outs) > 256:
                raise self.decline('too many paths through the traversal')
        return outs

    def _stmt(self, s: ast.stmt, o: Outcome, tv: str, unit: str) -> List[Outcome]:
        st, evs = o.st, o.events
        if isinstance(s, ast.If):
            v = self.ev(s.test, st, tv)
            res: List[Outcome] = []
            if v is not False:
                res += self.run(s.body, st, tv, unit) if s.body else [Outcome('fall', st, ())]
            if v is not True:
                res += self.run(s.orelse, st, tv, unit) if s.orelse else [Outcome('fall', st, ())]
            return [Outcome(r.term, r.st, evs + r.events, r.line or getattr(s, 'lineno', 0)) for r in res]
        if isinstance(s, ast.Continue):
            return [Outcome('continue', st, evs, s.lineno)]
        if isinstance(s, ast.Break):
            return [Outcome('break', st, evs, s.lineno)]
        if isinstance(s, ast.Return):
            if s.value is not None and self._mentions(s.value, tv):
                raise self.decline(f'`{pf.nsrc(s)}` returns traversal state')
            return [Outcome('return', st, evs, s.lineno)]
        if isinstance(s, ast.Raise):
            return [Outcome('raise', st, evs, s.lineno)]
        if isinstance(s, (ast.Pass, ast.Assert, ast.Global, ast.Nonlocal)):
            return [o]
        if isinstance(s, ast.Expr):
            return self._expr_stmt(s, o, tv, unit)
        if isinstance(s, (ast.Assign, ast.AnnAssign)):
            return self._assign(s, o, tv, unit)
        if isinstance(s, ast.For):
            if isinstance(s.target, ast.Name) and isinstance(s.iter, ast.Attribute) and isinstance(s.iter.value, ast.Name) and s.iter.value.id == tv \
                    and unit == 'visit':
                if s.orelse:
                    raise self.decline('for/else over the dependencies is not analysed')
                if self._body_touches(s.body, tv):
                    raise self.decline(f'the loop over the dependencies changes the state of `{tv}` itself')
                if not any(s is d for d in self.dep_loops):
                    self.dep_loops.append(s)
                self.at_deps = st
                return [Outcome('fall', st, evs + ('deps',), s.lineno)]
            raise self.decline(f'loop `for {pf.nsrc(s.target)} in {pf.nsrc(s.iter)}` inside the traversal is not recognised')
        if isinstance(s, ast.While):
            if unit == 'root' and self.stack and self._is_stack_test(s.test):
                return [Outcome('fall', st, evs + ('loop',), s.lineno)]
            raise self.decline('nested while loop inside the traversal is not recognised')
        if isinstance(s, (ast.FunctionDef, ast.AsyncFunctionDef, ast.ClassDef, ast.Import, ast.ImportFrom)):
            return [o]
        raise self.decline(f'statement `{pf.nsrc(s)[:60]}` inside the traversal is not recognised')

    def _body_touches(self, body: Sequence[ast.stmt], tv: str) -> bool:
        """Does the dependency loop body apply a container operation to `tv` (the current job) itself?"""
        for b in body:
            for c in pf.calls_in(b):
                if isinstance(c.func, ast.Attribute) and isinstance(c.func.value, ast.Name) and c.func.value.id in self.tracked_names():
                    if any(isinstance(a, ast.Name) and a.id == tv for a in c.args):
                        return True
        return False

    @staticmethod
    def entry(e: Optional[ast.AST]) -> Optional[Tuple[str, bool]]:
        """`(job, True)` / `(job, False)` -> (job name, flag)."""
        if isinstance(e, ast.Tuple) and len(e.elts) == 2 and isinstance(e.elts[0], ast.Name) and isinstance(e.elts[1], ast.Constant) \
                and isinstance(e.elts[1].value, bool):
            return e.elts[0].id, e.elts[1].value
        return None

    def _is_stack_test(self, t: ast.AST) -> bool:
        s = self.stack
        if isinstance(t, ast.Name) and t.id == s:
            return True
        txt = pf.nsrc(t)
        return txt in (f'len({s}) > 0', f'len({s})', f'len({s}) != 0', f'{s} != []', f'0 < len({s})', f'len({s}) >= 1')

    def _expr_stmt(self, s: ast.Expr, o: Outcome, tv: str, unit: str) -> List[Outcome]:
        st, evs = o.st, o.events
        v = s.value
        if isinstance(v, ast.Constant):
            return [o]
        if isinstance(v, ast.Call) and isinstance(v.func, ast.Name) and self.self_call and v.func.id == self.self_call:
            # a recursive call outside the recognised dependency loop
            raise self.decline(f'recursive call `{pf.nsrc(v)}` outside the loop over the dependencies')
        if isinstance(v, ast.Call) and isinstance(v.func, ast.Attribute) and isinstance(v.func.value, ast.Name) and v.func.value.id in self.tracked_names():
            c, meth = v.func.value.id, v.func.attr
            arg = v.args[0] if len(v.args) == 1 and not v.keywords else None
            argname = arg.id if isinstance(arg, ast.Name) else None
            if c in self.sets:
                if meth == 'add' and argname:
                    return [Outcome('fall', st.with_(add=c) if argname == tv else st, evs + ((f'add:{c}',) if argname == tv else ()), s.lineno)]
                if meth in ('remove', 'discard') and argname:
                    return [Outcome('fall', st.with_(remove=c) if argname == tv else st, evs + ((f'remove:{c}',) if argname == tv else ()), s.lineno)]
                raise self.decline(f'`{pf.nsrc(s)}`: operation on colour set `{c}` not recognised')
            if c == self.out:
                if meth == 'append' and argname:
                    if argname == tv:
                        return [Outcome('fall', st.with_(emit=1), evs + ('emit',), s.lineno)]
                    return [Outcome('fall', st, evs + ('emit-other',), s.lineno)]
                raise self.decline(f'`{pf.nsrc(s)}`: operation on the output list `{c}` not recognised')
            if c == self.stack:
                if meth == 'append' and self.flagvar is not None:
                    ent = self.entry(arg)
                    if ent is None:
                        raise self.decline(f'`{pf.nsrc(s)}`: entry pushed on the work stack is not a `(job, True/False)` pair')
                    who, fl = ent
                    if who != tv:
                        return [Outcome('fall', st, evs + ('push-other',), s.lineno)]
                    if fl:
                        return [Outcome('fall', st.with_(flag=1), evs + ('pushT',), s.lineno)]
                    return [Outcome('fall', st.with_(stack=1), evs + ('push',), s.lineno)]
                if meth == 'append' and argname:
                    if argname == tv:
                        return [Outcome('fall', st.with_(stack=1), evs + ('push',), s.lineno)]
                    return [Outcome('fall', st, evs + ('push-other',), s.lineno)]
                if meth == 'pop' and not v.args and not v.keywords and unit == 'visit':
                    if any(e in ('push', 'pushT', 'push-other') for e in evs):
                        raise self.decline('the work stack is popped after something was pushed in the same visit')
                    if self.flagvar is not None and self.flag:
                        return [Outcome('fall', st.with_(flag=-1), evs + ('pop',), s.lineno)]
                    return [Outcome('fall', st.with_(stack=-1), evs + ('pop',), s.lineno)]
                raise self.decline(f'`{pf.nsrc(s)}`: operation on the work stack `{c}` not recognised')
        if pf.names_in(v) & self.tracked_names():
            # e.g. print(len(seen)) is harmless, anything that could mutate is not
            for c in pf.calls_in(v):
                if isinstance(c.func, ast.Attribute) and isinstance(c.func.value, ast.Name) and c.func.value.id in self.tracked_names():
                    raise self.decline(f'`{pf.nsrc(s)}`: use of the traversal state not recognised')
        return [o]

    def _assign(self, s: ast.stmt, o: Outcome, tv: str, unit: str) -> List[Outcome]:
        st, evs = o.st, o.events
        tgt = s.targets[0] if isinstance(s, ast.Assign) and len(s.targets) == 1 else (s.target if isinstance(s, ast.AnnAssign) else None)
        val = s.value
        if tgt is None or val is None:
            if val is None:
                return [o]
            raise self.decline(f'`{pf.nsrc(s)[:60]}`: multiple assignment targets')
        stores = {x.id for x in ast.walk(tgt) if isinstance(x, ast.Name)}
        if isinstance(tgt, ast.Name) and tgt.id == self.stack and unit == 'root':
            # (re)initialisation of the work stack with the root
            if isinstance(val, ast.List) and len(val.elts) == 1 and (isinstance(val.elts[0], ast.Name) if self.flagvar is None else self.entry(val.elts[0]) is not None):
                if st.nstack or st.nflag:
                    raise self.decline('work stack re-initialised while the tracked job is on it')
                who, fl = (val.elts[0].id, False) if self.flagvar is None else self.entry(val.elts[0])  # type: ignore[misc,union-attr]
                if fl:
                    raise self.decline('a root is pushed as already expanded')
                if who == tv:
                    return [Outcome('fall', st.with_(stack=1), evs + ('push',), s.lineno)]
                return [Outcome('fall', st, evs + ('push-other',), s.lineno)]
            if isinstance(val, ast.List) and not val.elts:
                return [o]
            raise self.decline(f'`{pf.nsrc(s)}`: initial value of the work stack not recognised')
        if stores & (self.tracked_names() | {tv}):
            raise self.decline(f'`{pf.nsrc(s)[:60]}` rebinds traversal state')
        for c in pf.calls_in(val):
            if isinstance(c.func, ast.Attribute) and isinstance(c.func.value, ast.Name) and c.func.value.id in self.tracked_names() \
                    and c.func.attr not in ('copy', '__len__', 'index', 'count'):
                raise self.decline(f'`{pf.nsrc(s)[:60]}`: use of the traversal state not recognised')
        return [o]


def unique(t: Traversal, outs: List[Outcome], what: str) -> Outcome:
    sigs = {o.sig() for o in outs}
    if len(sigs) != 1:
        raise t.decline(f'{what}: the handling depends on conditions other than the colour sets ({len(sigs)} different abstract paths)')
    return outs[0]


# ------------------------------------------------------------------------------------------------
# 3. Boolean structure of a skip decision
# ------------------------------------------------------------------------------------------------

class Formula:
    """('and'|'or', [f...]) | ('not', f) | ('atom', key) | ('const', bool) | ('unk', text)"""
    __slots__ = ('op', 'args', 'key', 'expr')

    def __init__(self, op: str, args: Optional[List['Formula']] = None, key: object = None, expr: Optional[ast.AST] = None):
        self.op = op
        self.args = args or []
        self.key = key
        self.expr = expr          # for 'unk': the sub-expression that is not an atom

    def atoms(self) -> Set[object]:
        if self.op == 'atom':
            return {self.key}
        out: Set[object] = set()
        for a in self.args:
            out |= a.atoms()
        return out

    def unknowns(self) -> List[ast.AST]:
        """The sub-expressions that are not atoms."""
        if self.op == 'unk':
            return [self.expr] if self.expr is not None else []
        out: List[ast.AST] = []
        for a in self.args:
            out += a.unknowns()
        return out


def ev3(f: Formula, val: Dict[object, bool]) -> Optional[bool]:
    if f.op == 'const':
        return bool(f.key)
    if f.op == 'atom':
        return val.get(f.key)
    if f.op == 'unk':
        return None
    if f.op == 'not':
        v = ev3(f.args[0], val)
        return None if v is None else (not v)
    vals = [ev3(a, val) for a in f.args]
    if f.op == 'and':
        if any(v is False for v in vals):
            return False
        return True if all(v is True for v in vals) else None
    if any(v is True for v in vals):
        return True
    return False if all(v is False for v in vals) else None


def helper_expr(d: ast.FunctionDef) -> Optional[ast.expr]:
    """The expression a small pure helper returns:
         def h(a, b): [docstring]; return <expr>                                        ->  <expr>
         def h(j): for p in <iter>: if <test>: return <True|False>;  return <the other>  ->  any(<test> for p in <iter>) / all(not <test> for p in <iter>)"""
    a = d.args
    if a.vararg or a.kwarg or a.kwonlyargs or a.posonlyargs or d.decorator_list:
        return None
    body = [b for b in d.body if not (isinstance(b, ast.Expr) and isinstance(b.value, ast.Constant))]
    if len(body) == 1 and isinstance(body[0], ast.Return) and body[0].value is not None:
        return body[0].value
    if len(body) == 2 and isinstance(body[0], ast.For) and isinstance(body[1], ast.Return) and isinstance(body[0].target, ast.Name) and not body[0].orelse \
            and len(body[0].body) == 1 and isinstance(body[0].body[0], ast.If) and not body[0].body[0].orelse and len(body[0].body[0].body) == 1:
        inner = body[0].body[0].body[0]
        last = body[1].value
        if isinstance(inner, ast.Return) and isinstance(inner.value, ast.Constant) and isinstance(inner.value.value, bool) \
                and isinstance(last, ast.Constant) and isinstance(last.value, bool) and inner.value.value != last.value:
            test = copy.deepcopy(body[0].body[0].test)
            gen = ast.comprehension(target=copy.deepcopy(body[0].target), iter=copy.deepcopy(body[0].iter), ifs=[], is_async=0)
            if inner.value.value:
                e: ast.expr = ast.Call(func=ast.Name(id='any', ctx=ast.Load()), args=[ast.GeneratorExp(elt=test, generators=[gen])], keywords=[])
            else:
                e = ast.Call(func=ast.Name(id='all', ctx=ast.Load()), args=[ast.GeneratorExp(elt=ast.UnaryOp(op=ast.Not(), operand=test), generators=[gen])], keywords=[])
            return ast.fix_missing_locations(e)
    return None


def simple_helpers(fn: pf.FuncDef) -> Dict[str, pf.FuncDef]:
    """Nested defs that `helper_expr` can turn into an expression."""
    out: Dict[str, pf.FuncDef] = {}
    for d in pf.walk_shallow(fn, into_nested_defs=True):
        if isinstance(d, ast.FunctionDef) and d is not fn and helper_expr(d) is not None:
            out[d.name] = d
    return out


def inline_expr(e: ast.AST, helpers: Dict[str, pf.FuncDef], depth: int = 3) -> ast.AST:
    """Copy of e with calls of simple nested helpers replaced by their returned expression (arguments substituted)."""
    class _I(ast.NodeTransformer):
        def __init__(self, d: int):
            self.d = d

        def visit_Call(self, node: ast.Call):
            self.generic_visit(node)
            if isinstance(node.func, ast.Name) and node.func.id in helpers and self.d > 0 and not node.keywords:
                h = helpers[node.func.id]
                params = [a.arg for a in h.args.args]
                if len(params) == len(node.args) and not any(isinstance(a, ast.Starred) for a in node.args):
                    body = helper_expr(h)  # type: ignore[arg-type]
                    sub = dict(zip(params, node.args))

                    class _S(ast.NodeTransformer):
                        def visit_Name(self, n: ast.Name):
                            if n.id in sub and isinstance(n.ctx, ast.Load):
                                return copy.deepcopy(sub[n.id])
                            return n
                    new = _S().visit(copy.deepcopy(body))
                    return _I(self.d - 1).visit(new)
            return node
    return _I(depth).visit(copy.deepcopy(e))


def _member_elt(elt: ast.AST, var: str) -> Optional[Tuple[str, bool]]:
    """`var in S` -> (S, True); `var not in S` / `not var in S` -> (S, False)."""
    if isinstance(elt, ast.UnaryOp) and isinstance(elt.op, ast.Not):
        r = _member_elt(elt.operand, var)
        return None if r is None else (r[0], not r[1])
    if isinstance(elt, ast.Compare) and len(elt.ops) == 1 and isinstance(elt.left, ast.Name) and elt.left.id == var \
            and isinstance(elt.comparators[0], ast.Name) and isinstance(elt.ops[0], (ast.In, ast.NotIn)):
        return (elt.comparators[0].id, isinstance(elt.ops[0], ast.In))
    return None


def none_test_atom(var: str, key: object = 'E') -> Callable[[ast.AST], Optional[Formula]]:
    """Recogniser for tests of `var` against None / its truth value: atom `key` is true when var is not None (truthy)."""
    def rec(x: ast.AST) -> Optional[Formula]:
        if isinstance(x, ast.Name) and x.id == var:
            return Formula('atom', key=key)
        if isinstance(x, ast.Compare) and len(x.ops) == 1 and isinstance(x.left, ast.Name) and x.left.id == var \
                and isinstance(x.comparators[0], ast.Constant) and x.comparators[0].value is None:
            if isinstance(x.ops[0], (ast.IsNot, ast.NotEq)):
                return Formula('atom', key=key)
            if isinstance(x.ops[0], (ast.Is, ast.Eq)):
                return Formula('not', [Formula('atom', key=key)])
        return None
    return rec


def parse_formula(e: ast.AST, job: str, deps_attr: str, always_attr: str, extra: Optional[Callable[[ast.AST], Optional[Formula]]] = None) -> Formula:
    """Boolean structure of a test about `job`.  Atoms:  'A' = job.<always_attr>;  ('all_in', S) = every dependency is in S;
    ('none_in', S) = no dependency is in S;  ('self_in', S) = job in S."""
    def is_deps(x: ast.AST) -> bool:
        return isinstance(x, ast.Attribute) and x.attr == deps_attr and isinstance(x.value, ast.Name) and x.value.id == job

    def atom(k: object, positive: bool = True) -> Formula:
        a = Formula('atom', key=k)
        return a if positive else Formula('not', [a])

    def rec(x: ast.AST) -> Formula:
        if extra is not None:
            f = extra(x)
            if f is not None:
                return f
        if isinstance(x, ast.Constant) and isinstance(x.value, bool):
            return Formula('const', key=x.value)
        if isinstance(x, ast.UnaryOp) and isinstance(x.op, ast.Not):
            return Formula('not', [rec(x.operand)])
        if isinstance(x, ast.BoolOp):
            return Formula('and' if isinstance(x.op, ast.And) else 'or', [rec(v) for v in x.values])
        if isinstance(x, ast.Attribute) and x.attr == always_attr and isinstance(x.value, ast.Name) and x.value.id == job:
            return atom('A')
        if isinstance(x, ast.Call) and isinstance(x.func, ast.Name) and x.func.id in ('all', 'any') and len(x.args) == 1 and not x.keywords \
                and isinstance(x.args[0], (ast.GeneratorExp, ast.ListComp)) and len(x.args[0].generators) == 1:
            gen = x.args[0].generators[0]
            if isinstance(gen.target, ast.Name) and is_deps(gen.iter) and not gen.ifs and not gen.is_async:
                me = _member_elt(x.args[0].elt, gen.target.id)
                if me is not None:
                    S, pos = me
                    if x.func.id == 'all':
                        return atom(('all_in', S)) if pos else atom(('none_in', S))
                    return atom(('none_in', S), False) if pos else atom(('all_in', S), False)
        if isinstance(x, ast.Compare) and len(x.ops) == 1:
            a, b, op = x.left, x.comparators[0], x.ops[0]
            if is_deps(a) and isinstance(b, ast.Name) and isinstance(op, ast.LtE):
                return atom(('all_in', b.id))
            if is_deps(b) and isinstance(a, ast.Name) and isinstance(op, ast.GtE):
                return atom(('all_in', a.id))
            if isinstance(a, ast.Name) and a.id == job and isinstance(b, ast.Name) and isinstance(op, (ast.In, ast.NotIn)):
                return atom(('self_in', b.id), isinstance(op, ast.In))
        if isinstance(x, ast.Call) and isinstance(x.func, ast.Attribute) and len(x.args) == 1 and not x.keywords:
            recv, arg, meth = x.func.value, x.args[0], x.func.attr
            if is_deps(recv) and isinstance(arg, ast.Name):
                if meth == 'issubset':
                    return atom(('all_in', arg.id))
                if meth == 'isdisjoint':
                    return atom(('none_in', arg.id))
                if meth == 'intersection':
                    return atom(('none_in', arg.id), False)
                if meth == 'difference':
                    return atom(('all_in', arg.id), False)
            if isinstance(recv, ast.Name) and is_deps(arg):
                if meth == 'issuperset':
                    return atom(('all_in', recv.id))
                if meth == 'isdisjoint':
                    return atom(('none_in', recv.id))
                if meth == 'intersection':
                    return atom(('none_in', recv.id), False)
        if isinstance(x, ast.BinOp):
            if isinstance(x.op, ast.BitAnd):
                for u, v in ((x.left, x.right), (x.right, x.left)):
                    if is_deps(u) and isinstance(v, ast.Name):
                        return atom(('none_in', v.id), False)
            if isinstance(x.op, ast.Sub) and is_deps(x.left) and isinstance(x.right, ast.Name):
                return atom(('all_in', x.right.id), False)
        return Formula('unk', key=pf.nsrc(x), expr=x)

    return rec(e)


# ------------------------------------------------------------------------------------------------
# 4. seeing through extracted helpers: a (possibly nested) function with its statement-level helper calls inlined
# ------------------------------------------------------------------------------------------------

def _class_chain(m: pf.Module, cls: ast.ClassDef) -> List[ast.ClassDef]:
    """cls followed by its base classes defined in the same module (breadth first; a later class never overrides an earlier one)."""
    by_name = {c.name: c for c in m.tree.body if isinstance(c, ast.ClassDef)}
    out, queue = [], [cls]
    while queue:
        c = queue.pop(0)
        if any(c is x for x in out):
            continue
        out.append(c)
        for b in c.bases:
            n = (pf.dotted(b) or '').split('.')[-1]
            if n in by_name:
                queue.append(by_name[n])
    return out


def inline_site(m: pf.Module, qual: str, exclude: Sequence[str] = (), max_depth: int = 3) -> Tuple[pf.Module, pf.FuncDef, List[Tuple[str, int]]]:
    """A copy of module m in which the function `qual` (`f`, `Class.method` or a def nested in a method / function) has its statement-level
    calls of helpers inlined (engines/inline.Inliner: nothing is executed, helper locals are renamed apart, parameters substituted):
      * `h(..)` for a module-level function h, a sibling nested def of the enclosing function, or a `@staticmethod` reached as `Class.h(..)`;
      * `self.h(..)` / `Class.h(..)` for a plain or static method of the class the function lives in or of a base class defined in the same module.
    Names in `exclude` are never inlined (calls that a rule recognises by name).  Returns (module copy, the function in it, [(helper, line)])."""
    from . import inline as il
    tree = copy.deepcopy(m.tree)
    m2 = pf.Module(m.rel, m.path, m.src, tree)
    parts = qual.split('.')
    node: ast.AST = tree
    cls: Optional[ast.ClassDef] = None
    encl: Optional[pf.FuncDef] = None      # innermost function around the target
    method: Optional[pf.FuncDef] = None    # the method of `cls` the target is (or lives in)
    for i, part in enumerate(parts):
        found = None
        for child in pf._body_defs(node):
            if isinstance(child, (ast.FunctionDef, ast.AsyncFunctionDef, ast.ClassDef)) and child.name == part:
                found = child
        if found is None:
            raise AnalysisError(f'anchor vanished: {m.rel}::{qual} (no definition named {part!r})')
        if isinstance(found, ast.ClassDef):
            cls, method = found, None
        else:
            if method is None and cls is not None and isinstance(node, ast.ClassDef):
                method = found
            if i < len(parts) - 1:
                encl = found
        node = found
    if not isinstance(node, (ast.FunctionDef, ast.AsyncFunctionDef)):
        raise AnalysisError(f'anchor {m.rel}::{qual} is not a function')
    fn = node
    inlined: List[Tuple[str, int]] = []
    plain: Dict[str, pf.FuncDef] = {f.name: copy.deepcopy(f) for f in tree.body if isinstance(f, (ast.FunctionDef, ast.AsyncFunctionDef)) and f.name not in exclude}
    if encl is not None:
        caller_locals = il._locals_of(fn)
        for f in pf._body_defs(encl):
            if isinstance(f, (ast.FunctionDef, ast.AsyncFunctionDef)) and f is not fn and f.name not in exclude:
                free = {x.id for x in ast.walk(f) if isinstance(x, ast.Name)} - il._locals_of(f)
                if not (free & caller_locals):      # its free variables mean the same in the caller (the shared enclosing scope)
                    plain[f.name] = copy.deepcopy(f)
    plain.pop(fn.name, None)
    methods: Dict[str, pf.FuncDef] = {}
    statics: Dict[str, pf.FuncDef] = {}
    recv = None
    if cls is not None and method is not None:
        is_static = 'staticmethod' in pf.decorator_names(method)
        if not is_static and method.args.args:
            recv = method.args.args[0].arg
        for c in reversed(_class_chain(m2, cls)):
            for f in c.body:
                if isinstance(f, (ast.FunctionDef, ast.AsyncFunctionDef)) and f.name not in exclude and f is not method:
                    decs = pf.decorator_names(f)
                    if not decs:
                        methods[f.name] = copy.deepcopy(f)
                        statics.pop(f.name, None)
                    elif decs == ['staticmethod']:
                        g = copy.deepcopy(f)
                        g.decorator_list = []
                        statics[f.name] = g
                        methods.pop(f.name, None)
        # `Class.h(..)` / `self.h(..)` of a static method: rewrite to a plain call `__static_h(..)`
        cnames = {c.name for c in _class_chain(m2, cls)}
        for x in ast.walk(fn):
            if isinstance(x, ast.Call) and isinstance(x.func, ast.Attribute) and isinstance(x.func.value, ast.Name) and x.func.attr in statics \
                    and (x.func.value.id in cnames or (recv is not None and x.func.value.id == recv)):
                x.func = ast.copy_location(ast.Name(id=f'__static_{x.func.attr}', ctx=ast.Load()), x.func)
        for k, f in statics.items():
            plain[f'__static_{k}'] = f
    for _ in range(max_depth):
        n0 = len(inlined)
        if plain:
            a = il.Inliner(plain, None, max_depth)
            a.run(fn)
            inlined += a.inlined
        if recv is not None and methods:
            b = il.Inliner(methods, recv, max_depth)
            b.run(fn)
            inlined += b.inlined
        if len(inlined) == n0:
            break
    ast.fix_missing_locations(tree)
    return m2, fn, inlined
