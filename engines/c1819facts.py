"""Facts shared by rules/c18.py and rules/c19.py.  Everything here works on parsed source (ast) and on string CONSTANTS taken from it;
no repository code is imported or run.

  * set_uses(module, attr)        who-may-write classification of every syntactic use of `<x>.<attr>` where the attribute holds a set:
                                  'init' | 'grow' | 'shrink' | 'read' | 'unknown'   (alias-aware inside one function)
  * derive(expr, is_base)         is a set/list expression the same collection as the base / a superset / a possible subset of it
  * inline_expr_calls(...)        expression-level inlining of tiny helpers (`def f(s): return <expr over s>`)
  * char_hom(expr, base)          a string transform built from `.replace(c, s)` chains, `.translate(str.maketrans({..}))` and
                                  `re.sub('[..]', r'\\\\\\g<0>', x)` as a letter-to-string homomorphism  char -> image
  * ShellLexer / hom_in_state     a three-state (unquoted / '..' / "..") lexer for ONE bash word given as literal text interleaved with an
                                  opaque path part; decides which characters of the path alphabet stay active by enumerating the finite
                                  set of character classes (a table over an abstract alphabet, not a run of the program)
  * element_aliases / index_kind  alias facts for a who-may-mutate rule over a result list and its element lists
  * dict_entries / dict_var_entries / final_binding
                                  how a mapping is put together (display with ** parts, dict(), |, update / setdefault / subscript stores on a
                                  local) as an ordered entry list, and which entry decides one constant key (fixed / overridable / missing)
  * reaching_defs / peel_order / origins
                                  reaching definitions on the CFG and the order relation (same / reordered / subset) of the wrappers around a
                                  sequence expression: where a list really comes from, on every path
"""
from __future__ import annotations

import ast
import copy
from typing import Callable, Dict, Iterable, List, Optional, Sequence, Set, Tuple

from . import pyfacts as pf
from .common import AnalysisError

# ------------------------------------------------------------------------------------------------
# 1. set-valued attribute: who may shrink it
# ------------------------------------------------------------------------------------------------

GROW_METHODS = {'add', 'update'}
SHRINK_METHODS = {'remove', 'discard', 'pop', 'clear', 'difference_update', 'intersection_update', 'symmetric_difference_update'}
READ_METHODS = {'copy', 'union', 'intersection', 'difference', 'symmetric_difference', 'issubset', 'issuperset', 'isdisjoint',
                '__contains__', '__len__', '__iter__'}
PURE_FUNCS = {'len', 'set', 'frozenset', 'list', 'tuple', 'sorted', 'iter', 'any', 'all', 'sum', 'enumerate', 'zip', 'reversed', 'bool', 'min', 'max',
              'repr', 'str', 'print', 'isinstance', 'id', 'hash'}


class Use:
    __slots__ = ('kind', 'node', 'stmt', 'func', 'why')

    def __init__(self, kind: str, node: ast.AST, stmt: Optional[ast.AST], func: Optional[pf.FuncDef], why: str):
        self.kind, self.node, self.stmt, self.func, self.why = kind, node, stmt, func, why

    def __repr__(self) -> str:  # pragma: no cover
        return f'<{self.kind} {self.why}>'


def _is_empty_set(e: ast.AST) -> bool:
    if isinstance(e, ast.Call) and isinstance(e.func, ast.Name) and e.func.id in ('set', 'frozenset') and not e.keywords:
        if not e.args:
            return True
        a = e.args[0]
        return len(e.args) == 1 and isinstance(a, (ast.List, ast.Tuple, ast.Set)) and not a.elts
    return False


def derive(e: ast.AST, is_base: Callable[[ast.AST], bool]) -> str:
    """How does the collection denoted by `e` relate to the base collection?
       'same'     same elements (copy, sorted, list(...), unfiltered identity comprehension)
       'superset' every base element is in e
       'subset'   e may lack base elements (difference, intersection, filter, filtering comprehension, empty)
       'other'    does not mention the base
       'unknown'  mentions the base in a way that is not analysed"""
    if is_base(e):
        return 'same'
    if _is_empty_set(e) or (isinstance(e, (ast.List, ast.Set, ast.Tuple)) and not e.elts) or (isinstance(e, ast.Constant) and e.value is None):
        return 'other'
    mentions = any(is_base(x) for x in ast.walk(e))
    if not mentions:
        return 'other'
    if isinstance(e, ast.Call) and not any(k.arg is None for k in e.keywords):
        f = e.func
        if isinstance(f, ast.Name) and f.id in ('set', 'frozenset', 'list', 'tuple', 'sorted') and len(e.args) == 1:
            return derive(e.args[0], is_base)
        if isinstance(f, ast.Name) and f.id == 'filter' and len(e.args) == 2 and derive(e.args[1], is_base) in ('same', 'superset', 'subset'):
            return 'subset'
        if isinstance(f, ast.Name) and f.id == 'reversed' and len(e.args) == 1:
            return derive(e.args[0], is_base)
        if isinstance(f, ast.Attribute):
            inner = derive(f.value, is_base)
            if inner in ('same', 'superset', 'subset'):
                if f.attr == 'copy' and not e.args:
                    return inner
                if f.attr == 'union':
                    return 'superset' if inner in ('same', 'superset') else 'unknown'
                if f.attr in ('difference', 'intersection', 'symmetric_difference'):
                    return 'subset'
            if inner == 'other' and f.attr == 'union' and any(derive(a, is_base) in ('same', 'superset') for a in e.args):
                return 'superset'
        return 'unknown'
    if isinstance(e, ast.BinOp):
        l, r = derive(e.left, is_base), derive(e.right, is_base)
        if isinstance(e.op, (ast.BitOr, ast.Add)):
            if 'same' in (l, r) or 'superset' in (l, r):
                return 'superset'
            return 'unknown'
        if isinstance(e.op, (ast.Sub, ast.BitAnd, ast.BitXor)):
            if l in ('same', 'superset', 'subset') or (isinstance(e.op, (ast.BitAnd, ast.BitXor)) and r in ('same', 'superset', 'subset')):
                return 'subset'
            return 'unknown'
        return 'unknown'
    if isinstance(e, (ast.Set, ast.List, ast.Tuple)):
        for x in e.elts:
            if isinstance(x, ast.Starred) and derive(x.value, is_base) in ('same', 'superset'):
                return 'superset'
        return 'unknown'
    if isinstance(e, (ast.SetComp, ast.ListComp, ast.GeneratorExp)):
        if len(e.generators) == 1:
            g = e.generators[0]
            inner = derive(g.iter, is_base)
            if inner in ('same', 'superset', 'subset'):
                if g.ifs:
                    return 'subset'
                if isinstance(g.target, ast.Name) and isinstance(e.elt, ast.Name) and e.elt.id == g.target.id:
                    return inner
        return 'unknown'
    if isinstance(e, ast.IfExp):
        a, b = derive(e.body, is_base), derive(e.orelse, is_base)
        if a == b:
            return a
        if 'subset' in (a, b):
            return 'subset'
        return 'unknown'
    if isinstance(e, ast.Subscript) and isinstance(e.slice, ast.Slice) and derive(e.value, is_base) in ('same', 'superset', 'subset'):
        sl = e.slice
        if sl.lower is None and sl.upper is None:
            return derive(e.value, is_base)
        return 'subset'
    return 'unknown'


def _stmt_of(par: Dict[ast.AST, ast.AST], n: ast.AST) -> Optional[ast.AST]:
    cur: Optional[ast.AST] = n
    while cur is not None and not isinstance(cur, ast.stmt):
        cur = par.get(cur)
    return cur


def _classify_load(par: Dict[ast.AST, ast.AST], node: ast.AST, m: pf.Module, what: str, follow_alias: bool, out: List[Use]) -> None:
    """Classify one Load occurrence `node` of the collection (the attribute itself or a local alias of it)."""
    p = par.get(node)
    st = _stmt_of(par, node)
    fn = m.enclosing_func(node)

    def add(kind: str, why: str) -> None:
        out.append(Use(kind, node, st, fn, why))

    if isinstance(p, ast.Attribute) and p.value is node:
        gp = par.get(p)
        if isinstance(gp, ast.Call) and gp.func is p:
            if p.attr in GROW_METHODS:
                return add('grow', f'.{p.attr}(...)')
            if p.attr in SHRINK_METHODS:
                return add('shrink', f'.{p.attr}(...) removes elements')
            if p.attr in READ_METHODS:
                return add('read', f'.{p.attr}(...)')
            return add('unknown', f'method .{p.attr}(...) of {what}')
        return add('unknown', f'bound method .{p.attr} of {what} taken without a call')
    if isinstance(p, (ast.For, ast.AsyncFor, ast.comprehension)) and p.iter is node:
        return add('read', 'iterated')
    if isinstance(p, ast.Compare) or isinstance(p, (ast.BoolOp, ast.UnaryOp, ast.BinOp, ast.FormattedValue, ast.Starred, ast.JoinedStr)):
        return add('read', 'operand')
    if isinstance(p, (ast.If, ast.While, ast.IfExp, ast.Assert)) and getattr(p, 'test', None) is node:
        return add('read', 'truth test')
    if isinstance(p, ast.Call) and any(a is node for a in p.args) and isinstance(p.func, ast.Name) and p.func.id in PURE_FUNCS:
        return add('read', f'{p.func.id}(...)')
    if isinstance(p, ast.Call) and isinstance(p.func, ast.Attribute) and p.func.attr in ('union', 'update', 'extend', 'issubset', 'issuperset', 'isdisjoint', 'difference',
                                                                                           'intersection', 'difference_update', 'join') and any(a is node for a in p.args):
        return add('read', f'argument of .{p.func.attr}(...)')
    if isinstance(p, ast.AugAssign) and p.value is node:
        return add('read', 'right-hand side')
    if isinstance(p, (ast.Assign, ast.AnnAssign)) and p.value is node and follow_alias:
        tg = p.targets if isinstance(p, ast.Assign) else [p.target]
        if len(tg) == 1 and isinstance(tg[0], ast.Name) and fn is not None:
            alias = tg[0].id
            if len(pf.assignments(fn).get(alias, [])) != 1:
                return add('unknown', f'alias `{alias}` of {what} is re-bound')
            add('read', f'aliased as `{alias}`')
            for x in pf.walk_shallow(fn, into_nested_defs=True):
                if isinstance(x, ast.Name) and x.id == alias and x is not tg[0]:
                    if isinstance(x.ctx, ast.Load):
                        _classify_load(par, x, m, f'`{alias}` (= {what})', False, out)
                    else:
                        px = par.get(x)
                        if isinstance(px, ast.AugAssign) and px.target is x:
                            k = 'grow' if isinstance(px.op, ast.BitOr) else 'shrink' if isinstance(px.op, (ast.Sub, ast.BitAnd, ast.BitXor)) else 'unknown'
                            out.append(Use(k, x, px, fn, f'`{pf.nsrc(px)}` on an alias of {what} (in-place on the same set)'))
                        else:
                            out.append(Use('unknown', x, _stmt_of(par, x), fn, f'alias `{alias}` of {what} is re-bound'))
            return
        return add('unknown', f'{what} stored into `{pf.nsrc(tg[0])}`')
    if isinstance(p, (ast.Assign, ast.AnnAssign)) and p.value is node:
        return add('unknown', f'alias of an alias of {what}')
    return add('unknown', f'{what} escapes through `{pf.nsrc(p) if p is not None else "?"}`')


def set_uses(m: pf.Module, attr: str, init_funcs: Sequence[str] = ('__init__',)) -> List[Use]:
    """Every syntactic use of `<recv>.<attr>` in module m, classified."""
    par = m.parents()
    out: List[Use] = []
    for node in ast.walk(m.tree):
        if isinstance(node, ast.Constant) and node.value == attr:
            out.append(Use('unknown', node, _stmt_of(par, node), m.enclosing_func(node), f'the name {attr!r} appears as a string (reflection: getattr/setattr/__dict__)'))
            continue
        if not (isinstance(node, ast.Attribute) and node.attr == attr):
            continue
        recv = pf.nsrc(node.value)
        what = f'`{recv}.{attr}`'
        st = _stmt_of(par, node)
        fn = m.enclosing_func(node)
        p = par.get(node)
        if isinstance(node.ctx, ast.Del):
            out.append(Use('shrink', node, st, fn, 'deleted'))
        elif isinstance(node.ctx, ast.Store):
            if isinstance(p, (ast.Assign, ast.AnnAssign)) and (node in getattr(p, 'targets', []) or getattr(p, 'target', None) is node):
                v = p.value
                if v is None:
                    out.append(Use('read', node, st, fn, 'annotation only'))
                    continue
                in_init = fn is not None and fn.name in init_funcs and recv == (fn.args.args[0].arg if fn.args.args else 'self')
                if _is_empty_set(v):
                    out.append(Use('init', node, st, fn, 'initialised empty') if in_init else Use('shrink', node, st, fn, 'reset to the empty set outside the constructor'))
                    continue
                vx = pf.expand_locals(fn, v) if fn is not None else v
                rel = derive(vx, lambda x, r=recv: isinstance(x, ast.Attribute) and x.attr == attr and pf.nsrc(x.value) == r)
                if rel in ('same', 'superset'):
                    out.append(Use('grow', node, st, fn, f're-assigned to a {rel} of itself'))
                elif rel == 'subset':
                    out.append(Use('shrink', node, st, fn, f're-assigned to `{pf.nsrc(v)}`, which can lack elements of the old set'))
                elif rel == 'other' and in_init:
                    out.append(Use('init', node, st, fn, f'initialised to `{pf.nsrc(v)}`'))
                else:
                    out.append(Use('unknown', node, st, fn, f'{what} re-assigned to `{pf.nsrc(v)}`'))
            elif isinstance(p, ast.AugAssign) and p.target is node:
                if isinstance(p.op, ast.BitOr):
                    out.append(Use('grow', node, st, fn, '|='))
                elif isinstance(p.op, (ast.Sub, ast.BitAnd, ast.BitXor)):
                    out.append(Use('shrink', node, st, fn, f'`{pf.nsrc(p)}` removes elements in place'))
                else:
                    out.append(Use('unknown', node, st, fn, f'`{pf.nsrc(p)}`'))
            else:
                out.append(Use('unknown', node, st, fn, f'{what} is an unpacking / loop / with target'))
        else:
            _classify_load(par, node, m, what, True, out)
    return out


# ------------------------------------------------------------------------------------------------
# 2. expression-level helper inlining and local expansion
# ------------------------------------------------------------------------------------------------

def expand_locals_except(fn: pf.FuncDef, e: ast.AST, stop: Iterable[str], depth: int = 4) -> ast.AST:
    """Copy of e with single-definition locals replaced by their defining expression, except the names in `stop`."""
    stop = set(stop)
    params = {a.arg for a in fn.args.posonlyargs + fn.args.args + fn.args.kwonlyargs}

    class _S(ast.NodeTransformer):
        def __init__(self, d: int):
            self.d = d

        def visit_Name(self, node: ast.Name):
            if isinstance(node.ctx, ast.Load) and node.id not in params and node.id not in stop and self.d > 0:
                dd = pf.single_def(fn, node.id)
                if dd is not None and isinstance(dd, ast.expr) and not isinstance(dd, (ast.Await, ast.Yield, ast.YieldFrom)):
                    return _S(self.d - 1).visit(copy.deepcopy(dd))
            return node

        def visit_Lambda(self, node):
            return node
    return _S(depth).visit(copy.deepcopy(e))


def _simple_helper(f: pf.FuncDef) -> Optional[Tuple[List[str], ast.expr]]:
    """(parameter names, returned expression with its single-definition locals expanded) for `def f(a, b): [doc]; [x = ...]*; return E`."""
    if isinstance(f, ast.AsyncFunctionDef) or f.args.vararg or f.args.kwarg or f.args.posonlyargs or f.args.kwonlyargs:
        return None
    if any(d not in ('staticmethod',) for d in pf.decorator_names(f)):
        return None
    body = list(f.body)
    if body and isinstance(body[0], ast.Expr) and isinstance(body[0].value, ast.Constant) and isinstance(body[0].value.value, str):
        body = body[1:]
    if not body or not isinstance(body[-1], ast.Return) or body[-1].value is None:
        return None
    for st in body[:-1]:
        if not (isinstance(st, (ast.Assign, ast.AnnAssign)) and (len(st.targets) == 1 if isinstance(st, ast.Assign) else True)):
            return None
        t = st.targets[0] if isinstance(st, ast.Assign) else st.target
        if not isinstance(t, ast.Name) or len(pf.assignments(f).get(t.id, [])) != 1:
            return None
    params = [a.arg for a in f.args.args]
    return params, expand_locals_except(f, body[-1].value, params)  # type: ignore[return-value]


def inline_expr_calls(m: pf.Module, e: ast.AST, cls: Optional[str] = None, depth: int = 3, extra: Optional[Dict[str, ast.FunctionDef]] = None) -> ast.AST:
    """Copy of e in which calls of module-level one-expression helpers (and, with cls, `self.h(..)` / `<cls>.h(..)` of that class; with
    extra, the given plain functions called by bare name, e.g. nested defs of the analysed function) are replaced by the helper's returned
    expression with the arguments substituted.  Other calls are left alone."""
    mod_funcs = {st.name: st for st in m.tree.body if isinstance(st, ast.FunctionDef)}
    if extra:
        mod_funcs.update({k: v for k, v in extra.items() if isinstance(v, ast.FunctionDef)})
    cls_funcs: Dict[str, ast.FunctionDef] = {}
    if cls is not None:
        try:
            cls_funcs = {st.name: st for st in m.cls(cls).body if isinstance(st, ast.FunctionDef)}
        except AnalysisError:
            cls_funcs = {}

    class _I(ast.NodeTransformer):
        def __init__(self, d: int):
            self.d = d

        def visit_Call(self, node: ast.Call):
            node = self.generic_visit(node)  # type: ignore[assignment]
            if self.d <= 0 or any(isinstance(a, ast.Starred) for a in node.args) or any(k.arg is None for k in node.keywords):
                return node
            f = None
            drop_self = False
            if isinstance(node.func, ast.Name) and node.func.id in mod_funcs:
                f = mod_funcs[node.func.id]
            elif isinstance(node.func, ast.Attribute) and isinstance(node.func.value, ast.Name) and node.func.value.id in ('self', 'cls', cls) and node.func.attr in cls_funcs:
                f = cls_funcs[node.func.attr]
                drop_self = 'staticmethod' not in pf.decorator_names(f)
            if f is None:
                return node
            sh = _simple_helper(f)
            if sh is None:
                return node
            params, ret = sh
            if drop_self:
                if not params:
                    return node
                recv, params = params[0], params[1:]
                if any(isinstance(x, ast.Name) and x.id == recv for x in ast.walk(ret)):
                    return node  # uses self: not a pure string helper
            bound: Dict[str, ast.expr] = dict(zip(params, node.args))
            if len(node.args) > len(params):
                return node
            for k in node.keywords:
                if k.arg in bound or k.arg not in params:
                    return node
                bound[k.arg] = k.value  # type: ignore[index]
            defaults = dict(zip(params[len(params) - len(f.args.defaults):], f.args.defaults))
            for p_ in params:
                if p_ not in bound:
                    if p_ not in defaults:
                        return node
                    bound[p_] = defaults[p_]

            class _Sub(ast.NodeTransformer):
                def visit_Name(self, n: ast.Name):
                    if isinstance(n.ctx, ast.Load) and n.id in bound:
                        return copy.deepcopy(bound[n.id])
                    return n

                def visit_Lambda(self, n):
                    return n
            new = _Sub().visit(copy.deepcopy(ret))
            return _I(self.d - 1).visit(new)
    return _I(depth).visit(copy.deepcopy(e))


# ------------------------------------------------------------------------------------------------
# 3. character homomorphisms  (escape helpers)
# ------------------------------------------------------------------------------------------------

class Hom:
    """A letter-to-string homomorphism: `table[c]` is the image of character c, every other character maps to itself."""

    def __init__(self, table: Optional[Dict[str, str]] = None):
        self.table: Dict[str, str] = dict(table or {})

    def image(self, c: str) -> str:
        return self.table.get(c, c)

    def then(self, step: Dict[str, str]) -> 'Hom':
        """self followed by the single-letter substitution `step` (composition of homomorphisms, computed on the images)."""
        keys = set(self.table) | set(step)
        return Hom({c: ''.join(step.get(ch, ch) for ch in self.image(c)) for c in keys})

    def is_identity(self) -> bool:
        return all(k == v for k, v in self.table.items())


def _char_class(pat: str) -> Optional[Set[str]]:
    """`[abc]` or `([abc])` (no ranges, no negation) -> set of characters."""
    if pat.startswith('(') and pat.endswith(')') and not pat.startswith('(?'):
        pat = pat[1:-1]
    if not (pat.startswith('[') and pat.endswith(']')) or pat.startswith('[^'):
        return None
    body = pat[1:-1]
    out: Set[str] = set()
    i = 0
    while i < len(body):
        c = body[i]
        if c == '\\':
            if i + 1 >= len(body):
                return None
            nx = body[i + 1]
            if nx.isalnum():
                return None  # \d, \w, \s ...: a class, not a character
            out.add(nx)
            i += 2
            continue
        if c == '-' and 0 < i < len(body) - 1:
            return None  # a range
        if c in '[]':
            return None
        out.add(c)
        i += 1
    return out


def char_hom(e: ast.AST, is_base: Callable[[ast.AST], bool], m: Optional[pf.Module] = None) -> Optional[Tuple[Hom, ast.AST]]:
    """If e is the base expression wrapped in single-character substitutions, return (homomorphism, base node); None if e is not of that shape.
    Raises AnalysisError for a substitution it cannot model (multi-character search strings, regex classes with ranges ...)."""
    steps: List[Dict[str, str]] = []
    cur = e
    while True:
        if is_base(cur):
            h = Hom()
            for s in reversed(steps):
                h = h.then(s)
            return h, cur
        if isinstance(cur, ast.Call) and isinstance(cur.func, ast.Attribute) and cur.func.attr == 'replace' and not cur.keywords and len(cur.args) == 2:
            a, b = pf.const_str(cur.args[0]), pf.const_str(cur.args[1])
            if a is None or b is None:
                raise AnalysisError(f'`{pf.nsrc(cur)}`: replace() with non-constant arguments')
            if len(a) != 1:
                raise AnalysisError(f'`{pf.nsrc(cur)}`: replace() of a multi-character string is not a per-character substitution')
            steps.append({a: b})
            cur = cur.func.value
            continue
        if isinstance(cur, ast.Call) and isinstance(cur.func, ast.Attribute) and cur.func.attr == 'translate' and not cur.keywords and len(cur.args) == 1:
            t = cur.args[0]
            if isinstance(t, ast.Name) and m is not None:
                try:
                    t = m.global_assign(t.id)
                except AnalysisError:
                    pass
            if isinstance(t, ast.Call) and pf.dotted(t.func) == 'str.maketrans' and len(t.args) == 1 and isinstance(t.args[0], ast.Dict):
                t = t.args[0]
            if not isinstance(t, ast.Dict):
                raise AnalysisError(f'`{pf.nsrc(cur)}`: translation table not recognised')
            step: Dict[str, str] = {}
            for k, v in zip(t.keys, t.values):
                ks = pf.const_str(k) if k is not None else None
                if ks is None and isinstance(k, ast.Call) and pf.dotted(k.func) == 'ord' and len(k.args) == 1:
                    ks = pf.const_str(k.args[0])
                vs = pf.const_str(v)
                if isinstance(v, ast.Constant) and v.value is None:
                    vs = ''
                if ks is None or vs is None or len(ks) != 1:
                    raise AnalysisError(f'`{pf.nsrc(cur)}`: translation table entry `{pf.nsrc(k) if k else None}: {pf.nsrc(v)}` not recognised')
                step[ks] = vs
            steps.append(step)
            cur = cur.func.value
            continue
        if isinstance(cur, ast.Call) and pf.dotted(cur.func) == 're.sub' and len(cur.args) == 3 and not cur.keywords:
            pat, rep = pf.const_str(cur.args[0]), pf.const_str(cur.args[1])
            if pat is None or rep is None:
                raise AnalysisError(f'`{pf.nsrc(cur)}`: re.sub with non-constant pattern / replacement')
            cs = _char_class(pat)
            if cs is None:
                raise AnalysisError(f'`{pf.nsrc(cur)}`: pattern {pat!r} is not a plain character class')
            grouped = pat.startswith('(')
            refs = ['\\g<0>'] + (['\\1', '\\g<1>'] if grouped else [])
            pre = None
            for r in refs:
                if rep.endswith(r) and rep.count(r) == 1:
                    pre = rep[:-len(r)]
            if pre is None:
                raise AnalysisError(f'`{pf.nsrc(cur)}`: replacement {rep!r} not recognised')
            pre = pre.replace('\\\\', '\\')
            steps.append({c: pre + c for c in cs})
            cur = cur.args[2]
            continue
        return None


# ------------------------------------------------------------------------------------------------
# 4. one bash word
# ------------------------------------------------------------------------------------------------

U, S, D = 'unquoted', "'single-quoted'", '"double-quoted"'
UNQUOTED_SPECIAL = ' \t\n$`\\"\'|&;<>()*?[{'
DQ_SPECIAL = '$`\\"'
ORDINARY = 'a0/._-'
WITNESS = {'$': 'cost_in_$US.tsv', '`': 'out`id`.txt', '\\': 'back\\slash.txt', '"': 'say "cheese".txt', "'": "it's.tsv", ' ': 'per sample.tsv',
           '\t': 'a\tb.tsv', '\n': 'a\nb.tsv', '*': 'all*.txt', '?': 'what?.txt', ';': 'a;b.txt', '&': 'a&b.txt', '|': 'a|b.txt', '<': 'a<b.txt', '>': 'a>b.txt',
           '(': 'a(1).txt', ')': 'a(1).txt', '[': 'a[1].txt', ']': 'a[1].txt', '#': '#1.txt', '~': '~x.txt', '{': 'a{1,2}.txt', '}': 'a{1,2}.txt', '!': 'a!b.txt',
           '=': 'k=v.txt'}


class WordError(AnalysisError):
    pass


class ShellLexer:
    """Lexes literal text of one bash word.  items: ('char', c, state) | ('var', name, state)."""

    def __init__(self, state: str = U):
        self.state = state
        self.items: List[Tuple[str, str, str]] = []
        self.pending_backslash = False  # a backslash at the very end of a piece of text: it would escape whatever comes next

    def feed(self, text: str) -> None:
        i = 0
        n = len(text)
        while i < n:
            c = text[i]
            if self.pending_backslash:
                raise WordError('a backslash directly precedes a non-literal part')
            if self.state == S:
                if c == "'":
                    self.state = U
                else:
                    self.items.append(('char', c, S))
                i += 1
                continue
            if c == '\\':
                if i + 1 >= n:
                    self.pending_backslash = True
                    i += 1
                    continue
                nx = text[i + 1]
                if self.state == U:
                    if nx != '\n':
                        self.items.append(('char', nx, U))
                    i += 2
                    continue
                # double quotes: the backslash is removed only before $ ` " \ newline
                if nx in DQ_SPECIAL:
                    self.items.append(('char', nx, D))
                    i += 2
                elif nx == '\n':
                    i += 2
                else:
                    self.items.append(('char', '\\', D))
                    i += 1
                continue
            if c == '$':
                j = i + 1
                if j < n and text[j] == '{':
                    k = text.find('}', j)
                    name = text[j + 1:k] if k > 0 else ''
                    if k < 0 or not name.isidentifier():
                        raise WordError(f'parameter expansion `{text[i:i + 24]}` not analysed')
                    self.items.append(('var', name, self.state))
                    i = k + 1
                    continue
                k = j
                while k < n and (text[k].isalnum() or text[k] == '_'):
                    k += 1
                if k == j:
                    if j < n and text[j] in '(':
                        raise WordError('command substitution in the replacement text')
                    if j >= n:
                        raise WordError('`$` at the end of a literal piece: it would combine with the following part')
                    if text[j] in '$!?#@*-' or text[j].isdigit():
                        self.items.append(('var', text[j], self.state))
                        i = j + 1
                        continue
                    self.items.append(('char', '$', self.state))
                    i += 1
                    continue
                if k >= n:
                    raise WordError(f'unbraced `${text[j:k]}` at the end of a literal piece: the variable name would extend into the following part')
                self.items.append(('var', text[j:k], self.state))
                i = k
                continue
            if c == '`':
                raise WordError('back-tick command substitution in the replacement text')
            if self.state == D:
                if c == '"':
                    self.state = U
                else:
                    self.items.append(('char', c, D))
                i += 1
                continue
            # unquoted
            if c == "'":
                self.state = S
            elif c == '"':
                self.state = D
            elif c in ' \t\n|&;<>()':
                raise WordError(f'unquoted {c!r} in the replacement text: it is more than one word')
            elif c in '*?[#~{':
                raise WordError(f'unquoted {c!r} in the replacement text (glob / brace / tilde syntax not analysed)')
            else:
                self.items.append(('char', c, U))
            i += 1


def hom_in_state(h: Hom, state: str) -> Tuple[List[str], List[str]]:
    """For a path inserted through homomorphism h while the lexer is in `state`:
    (characters that stay ACTIVE or change the quoting state, characters whose literal value is MANGLED)."""
    special = {U: UNQUOTED_SPECIAL, D: DQ_SPECIAL, S: "'"}[state]
    alphabet = list(dict.fromkeys(list(special) + list(h.table) + list(ORDINARY)))
    active: List[str] = []
    mangled: List[str] = []
    for c in alphabet:
        img = h.image(c)
        lx = ShellLexer(state)
        try:
            lx.feed(img)
        except WordError:
            active.append(c)
            continue
        if lx.pending_backslash or lx.state != state or any(k == 'var' for k, _, _ in lx.items):
            active.append(c)
            continue
        lit = ''.join(ch for k, ch, _ in lx.items if k == 'char')
        if state == U and c in special and img == c:
            active.append(c)
        elif lit != c:
            mangled.append(c)
    return active, mangled


# ------------------------------------------------------------------------------------------------
# 5. who may mutate a result list
# ------------------------------------------------------------------------------------------------

def _strip_iter(e: ast.AST) -> ast.AST:
    """reversed(x) / x[a:b] / list(x) / iter(x) -> x"""
    while True:
        if isinstance(e, ast.Call) and isinstance(e.func, ast.Name) and e.func.id in ('reversed', 'list', 'iter', 'tuple') and len(e.args) == 1 and not e.keywords:
            e = e.args[0]
        elif isinstance(e, ast.Subscript) and isinstance(e.slice, ast.Slice):
            e = e.value
        else:
            return e


def element_aliases(fn: pf.FuncDef, result: str) -> Dict[str, ast.AST]:
    """Local names bound to an ELEMENT of the list `result` (iteration variable over it, directly or through zip / enumerate / reversed / slices,
    or `x = result[i]`), with the binding construct.  `alias_kind` tells whether the element can be a non-last one."""
    out: Dict[str, ast.AST] = {}

    def bind(target: ast.AST, it: ast.AST, site: ast.AST) -> None:
        it = _strip_iter(it)
        if isinstance(it, ast.Name) and it.id == result:
            if isinstance(target, ast.Name):
                out[target.id] = site
            return
        if isinstance(it, ast.Call) and isinstance(it.func, ast.Name) and not it.keywords:
            if it.func.id == 'enumerate' and it.args and isinstance(target, (ast.Tuple, ast.List)) and len(target.elts) == 2:
                bind(target.elts[1], it.args[0], site)
            elif it.func.id == 'zip' and isinstance(target, (ast.Tuple, ast.List)) and len(target.elts) == len(it.args):
                for t, a in zip(target.elts, it.args):
                    bind(t, a, site)

    for n in pf.walk_shallow(fn):
        if isinstance(n, (ast.For, ast.AsyncFor)):
            bind(n.target, n.iter, n)
        elif isinstance(n, (ast.ListComp, ast.SetComp, ast.GeneratorExp, ast.DictComp)):
            for g in n.generators:
                bind(g.target, g.iter, n)
        elif isinstance(n, ast.Assign) and len(n.targets) == 1 and isinstance(n.targets[0], ast.Name) and isinstance(n.value, ast.Subscript) \
                and isinstance(n.value.value, ast.Name) and n.value.value.id == result and not isinstance(n.value.slice, ast.Slice):
            out[n.targets[0].id] = n
        elif isinstance(n, ast.NamedExpr) and isinstance(n.target, ast.Name) and isinstance(n.value, ast.Subscript) and isinstance(n.value.value, ast.Name) \
                and n.value.value.id == result and not isinstance(n.value.slice, ast.Slice):
            out[n.target.id] = n
        elif isinstance(n, ast.Assign) and len(n.targets) == 1 and isinstance(n.targets[0], ast.Name) and isinstance(n.value, ast.Call) \
                and isinstance(n.value.func, ast.Attribute) and n.value.func.attr == 'pop' and isinstance(n.value.func.value, ast.Name) and n.value.func.value.id == result:
            out[n.targets[0].id] = n
    return out


def alias_kind(fn: pf.FuncDef, site: ast.AST, result: str) -> str:
    """'earlier' (can be a non-last element) | 'last' | 'unknown' for a binding construct returned by element_aliases."""
    v = getattr(site, 'value', None)
    if isinstance(site, (ast.Assign, ast.NamedExpr)) and isinstance(v, ast.Subscript):
        return index_kind(fn, v.slice, result)
    if isinstance(site, ast.Assign):
        return 'unknown'  # result.pop(...)
    return 'earlier'


def index_kind(fn: pf.FuncDef, idx: ast.AST, result: str) -> str:
    """'last' | 'earlier' | 'unknown' for result[idx]."""
    idx = pf.resolve_expr(fn, idx)
    s = pf.nsrc(idx)
    if s in ('-1', f'len({result}) - 1'):
        return 'last'
    if isinstance(idx, ast.Constant) and isinstance(idx.value, int):
        return 'earlier'
    if isinstance(idx, ast.UnaryOp) and isinstance(idx.op, ast.USub) and isinstance(idx.operand, ast.Constant) and isinstance(idx.operand.value, int) and idx.operand.value > 1:
        return 'earlier'
    if isinstance(idx, ast.Name):
        ds = pf.assignments(fn).get(idx.id, [])
        if ds and all(isinstance(d, (ast.For, ast.comprehension)) for d in ds):
            return 'earlier'  # a loop index ranges over positions, not only the last one
    return 'unknown'


# ------------------------------------------------------------------------------------------------
# 6. how a dict is put together: which entry wins for one constant key
# ------------------------------------------------------------------------------------------------
# An ordered list of entries describes the construction of a mapping; later entries override earlier ones (dict display, dict(),
# `|`, update, subscript store), except 'default' entries (setdefault / `if K not in d: d[K] = v`), which only fill a gap.
#   ('key', <str>, value)      a constant string key
#   ('dynkey', keyexpr, value) a key that is not a string constant
#   ('spread', expr, None)     every entry of another mapping  (`**expr`, dict(expr), d.update(expr), d | expr)
#   ('default', <str>, value)  setdefault

Entry = Tuple[str, object, Optional[ast.AST]]


class DictShapeError(AnalysisError):
    pass


def _is_dict_like(e: ast.AST) -> bool:
    return isinstance(e, ast.Dict) or (isinstance(e, ast.Call) and isinstance(e.func, ast.Name) and e.func.id == 'dict') \
        or (isinstance(e, ast.BinOp) and isinstance(e.op, ast.BitOr)) \
        or (isinstance(e, ast.Call) and isinstance(e.func, ast.Attribute) and e.func.attr == 'copy' and not e.args and not e.keywords)


def dict_entries(e: ast.AST) -> List[Entry]:
    """Entries of a mapping EXPRESSION: dict display (with `**` parts), dict(m, k=v, **m2), a | b, m.copy().  Anything else is one opaque spread."""
    out: List[Entry] = []
    if isinstance(e, ast.Dict):
        for k, v in zip(e.keys, e.values):
            if k is None:
                out += dict_entries(v) if _is_dict_like(v) else [('spread', v, None)]
            else:
                ks = pf.const_str(k)
                out.append(('key', ks, v) if ks is not None else ('dynkey', k, v))
        return out
    if isinstance(e, ast.Call) and isinstance(e.func, ast.Name) and e.func.id == 'dict':
        if len(e.args) > 1 or any(isinstance(a, ast.Starred) for a in e.args):
            raise DictShapeError(f'`{pf.nsrc(e)}`: dict() call not recognised')
        for a in e.args:
            if isinstance(a, (ast.List, ast.Tuple, ast.ListComp, ast.GeneratorExp, ast.DictComp)):
                raise DictShapeError(f'`{pf.nsrc(e)}`: dict() over a sequence of pairs / comprehension is not analysed')
            out += dict_entries(a) if _is_dict_like(a) else [('spread', a, None)]
        for k in e.keywords:
            if k.arg is None:
                out += dict_entries(k.value) if _is_dict_like(k.value) else [('spread', k.value, None)]
            else:
                out.append(('key', k.arg, k.value))
        return out
    if isinstance(e, ast.BinOp) and isinstance(e.op, ast.BitOr):
        return dict_entries(e.left) + dict_entries(e.right)
    if isinstance(e, ast.Call) and isinstance(e.func, ast.Attribute) and e.func.attr == 'copy' and not e.args and not e.keywords:
        return dict_entries(e.func.value)
    if isinstance(e, (ast.DictComp, ast.IfExp, ast.Constant, ast.List, ast.Tuple, ast.Set, ast.ListComp, ast.GeneratorExp, ast.Lambda)):
        raise DictShapeError(f'`{pf.nsrc(e)}` is not a recognised mapping construction')
    return [('spread', e, None)]


def _splice(new: List[Entry], name: str, cur: Optional[List[Entry]]) -> List[Entry]:
    out: List[Entry] = []
    for ent in new:
        if ent[0] == 'spread' and isinstance(ent[1], ast.Name) and ent[1].id == name:
            if cur is None:
                raise DictShapeError(f'`{name}` is used before it is defined')
            out += cur
        else:
            out.append(ent)
    return out


def _default_if(st: ast.If, name: str) -> Optional[Entry]:
    """`if K not in d: d[K] = v`  ->  ('default', K, v)"""
    t = st.test
    if st.orelse or len(st.body) != 1 or not (isinstance(t, ast.Compare) and len(t.ops) == 1 and isinstance(t.ops[0], ast.NotIn)
                                             and isinstance(t.comparators[0], ast.Name) and t.comparators[0].id == name):
        return None
    k = pf.const_str(t.left)
    b = st.body[0]
    if k is None or not (isinstance(b, ast.Assign) and len(b.targets) == 1 and isinstance(b.targets[0], ast.Subscript)
                         and isinstance(b.targets[0].value, ast.Name) and b.targets[0].value.id == name and pf.const_str(b.targets[0].slice) == k):
        return None
    return ('default', k, b.value)


def dict_var_entries(stmts: Sequence[ast.stmt], name: str, key: str, ignore: Sequence[ast.AST] = ()) -> Optional[List[Entry]]:
    """Entries of the mapping held by local `name` after the straight-line statement list `stmts` (each executed in order; an `if` whose
    branches cannot bind `key` is skipped).  None when `name` is never assigned in them.  DictShapeError for anything not recognised:
    removal, escape into a call, a conditional that may bind `key`, a loop that touches the name."""
    cur: Optional[List[Entry]] = None
    for st in stmts:
        if any(st is x for x in ignore) or not any(isinstance(x, ast.Name) and x.id == name for x in ast.walk(st)):
            continue
        if isinstance(st, (ast.Assign, ast.AnnAssign)) and st.value is not None:
            tgs = st.targets if isinstance(st, ast.Assign) else [st.target]
            if len(tgs) == 1 and isinstance(tgs[0], ast.Name) and tgs[0].id == name:
                cur = _splice(dict_entries(st.value), name, cur)
                continue
            if len(tgs) == 1 and isinstance(tgs[0], ast.Subscript) and isinstance(tgs[0].value, ast.Name) and tgs[0].value.id == name \
                    and not any(isinstance(x, ast.Name) and x.id == name for x in ast.walk(st.value)):
                if cur is None:
                    raise DictShapeError(f'`{pf.nsrc(st)}`: `{name}` is not defined in the analysed block')
                ks = pf.const_str(tgs[0].slice)
                cur = cur + [('key', ks, st.value) if ks is not None else ('dynkey', tgs[0].slice, st.value)]
                continue
            if not any(isinstance(x, ast.Name) and x.id == name and isinstance(x.ctx, ast.Store) for t in tgs for x in ast.walk(t)):
                # `name` only read on the right-hand side (e.g. `n = len(env)`, `x = env['A']`)
                if _only_reads(st.value, name):
                    continue
            raise DictShapeError(f'`{pf.nsrc(st)}` not recognised')
        if isinstance(st, ast.AugAssign) and isinstance(st.target, ast.Name) and st.target.id == name and isinstance(st.op, ast.BitOr):
            if cur is None:
                raise DictShapeError(f'`{pf.nsrc(st)}`: `{name}` is not defined in the analysed block')
            cur = cur + _splice(dict_entries(st.value), name, cur)
            continue
        if isinstance(st, ast.Expr) and isinstance(st.value, ast.Call) and isinstance(st.value.func, ast.Attribute) and isinstance(st.value.func.value, ast.Name) \
                and st.value.func.value.id == name:
            c = st.value
            if cur is None:
                raise DictShapeError(f'`{pf.nsrc(st)}`: `{name}` is not defined in the analysed block')
            if c.func.attr == 'update':  # type: ignore[attr-defined]
                cur = cur + dict_entries(ast.Call(func=ast.Name('dict', ast.Load()), args=list(c.args), keywords=list(c.keywords)))
                continue
            if c.func.attr == 'setdefault' and len(c.args) == 2 and not c.keywords:  # type: ignore[attr-defined]
                ks = pf.const_str(c.args[0])
                if ks is None:
                    raise DictShapeError(f'`{pf.nsrc(st)}`: setdefault with a computed key')
                cur = cur + [('default', ks, c.args[1])]
                continue
            raise DictShapeError(f'`{pf.nsrc(st)}` not recognised')
        if isinstance(st, ast.If):
            d = _default_if(st, name)
            if d is not None and cur is not None:
                cur = cur + [d]
                continue
            if cur is not None:
                harmless = True
                for blk in (st.body, st.orelse):
                    # the branch is analysed as a continuation of an (empty) mapping: it is harmless when all it does is bind OTHER constant keys
                    if any(isinstance(b, (ast.Assign, ast.AnnAssign)) and any(isinstance(t_, ast.Name) and t_.id == name for t_ in (b.targets if isinstance(b, ast.Assign) else [b.target]))
                           for b in blk):
                        harmless = False
                        break
                    try:
                        probe = dict_var_entries([ast.Assign(targets=[ast.Name(name, ast.Store())], value=ast.Dict(keys=[], values=[]), lineno=0)] + list(blk), name, key, ignore)
                    except DictShapeError:
                        harmless = False
                        break
                    if any(not (ent[0] == 'key' and ent[1] != key) for ent in (probe or [])):
                        harmless = False
                        break
                if harmless and _only_reads(st.test, name):
                    continue
            raise DictShapeError(f'`{pf.nsrc(st.test)}`: conditional construction of `{name}` that may bind {key!r} (not analysed)')
        if isinstance(st, (ast.Expr, ast.Return, ast.Assert)) and _only_reads(st, name):
            continue
        raise DictShapeError(f'`{pf.nsrc(st)[:90]}`: use of `{name}` not recognised')
    return cur


def _only_reads(node: ast.AST, name: str) -> bool:
    """Every occurrence of `name` in node is a read that cannot change or leak the mapping: subscript load, .get/.items/.keys/.values, len(), `in`, f-string."""
    par: Dict[ast.AST, ast.AST] = {}
    for p in ast.walk(node):
        for c in ast.iter_child_nodes(p):
            par[c] = p
    for x in ast.walk(node):
        if not (isinstance(x, ast.Name) and x.id == name):
            continue
        if not isinstance(x.ctx, ast.Load):
            return False
        p = par.get(x)
        if isinstance(p, ast.Subscript) and p.value is x and isinstance(p.ctx, ast.Load):
            continue
        if isinstance(p, ast.Attribute) and p.attr in ('get', 'items', 'keys', 'values', '__len__', '__contains__') and isinstance(par.get(p), ast.Call):
            continue
        if isinstance(p, ast.Call) and isinstance(p.func, ast.Name) and p.func.id in ('len', 'bool', 'sorted', 'list', 'str', 'repr') and x in p.args:
            continue
        if isinstance(p, ast.Compare) or isinstance(p, (ast.FormattedValue, ast.BoolOp, ast.UnaryOp)):
            continue
        if isinstance(p, (ast.If, ast.While, ast.IfExp, ast.Assert)) and getattr(p, 'test', None) is x:
            continue
        if isinstance(p, (ast.For, ast.comprehension)) and p.iter is x:
            continue
        return False
    return True


def final_binding(entries: List[Entry], key: str, spread_kind: Callable[[ast.AST], str]) -> Tuple[str, Optional[ast.AST], Optional[ast.AST]]:
    """Which entry decides mapping[key]?  spread_kind(expr) -> 'may' (the spread mapping may contain the key) | 'never' | 'unknown'.
       ('fixed', value, None)          the last unconditional binding of the key; nothing after it can replace it
       ('overridable', value, spread)  a mapping that may contain the key is merged AFTER the binding (or the binding only fills a gap): that mapping wins
       ('missing', None, spread|None)  the key is never bound by a constant entry
    DictShapeError when a computed key or an unclassifiable spread decides."""
    default: Optional[ast.AST] = None
    for kind, k, v in reversed(entries):
        if kind == 'key' and k == key:
            return 'fixed', v, None
        if kind == 'default' and k == key:
            if default is None:
                default = v
            continue
        if kind == 'dynkey':
            raise DictShapeError(f'a computed key `{pf.nsrc(k)}` is bound after every binding of {key!r}')  # type: ignore[arg-type]
        if kind == 'spread':
            sk = spread_kind(k)  # type: ignore[arg-type]
            if sk == 'never':
                continue
            if sk != 'may':
                raise DictShapeError(f'`{pf.nsrc(k)}` is merged after every binding of {key!r} and it is not known whether it can contain that key')  # type: ignore[arg-type]
            # what would the key be without that mapping?
            base: Optional[ast.AST] = default
            if base is None:
                for kind2, k2, v2 in reversed(entries[:next(i for i, ent in enumerate(entries) if ent[1] is k)]):
                    if kind2 in ('key', 'default') and k2 == key:
                        base = v2
                        break
            if base is None:
                return 'missing', None, k  # type: ignore[return-value]
            return 'overridable', base, k  # type: ignore[return-value]
    if default is not None:
        return 'fixed', default, None
    return 'missing', None, None


# ------------------------------------------------------------------------------------------------
# 7. where does a sequence come from: reaching definitions on the CFG + order relation of the wrappers around it
# ------------------------------------------------------------------------------------------------

ORDER_RANK = {'same': 0, 'reordered': 1, 'subset': 2, 'unknown': 3}


def worse(a: str, b: str) -> str:
    return a if ORDER_RANK[a] >= ORDER_RANK[b] else b


def stores_name(n: pf.Node, name: str) -> bool:
    """Does executing CFG node n (re)bind the local `name`?"""
    a = n.ast
    if a is None:
        return False
    if n.kind == 'loop' and isinstance(a, (ast.For, ast.AsyncFor)):
        return any(isinstance(x, ast.Name) and x.id == name for x in ast.walk(a.target))
    if n.kind == 'with' and isinstance(a, (ast.With, ast.AsyncWith)):
        return any(it.optional_vars is not None and any(isinstance(x, ast.Name) and x.id == name for x in ast.walk(it.optional_vars)) for it in a.items)
    if n.kind == 'except':
        return getattr(a, 'name', None) == name
    if n.kind in ('stmt', 'return', 'raise', 'test'):
        if isinstance(a, (ast.For, ast.AsyncFor, ast.While, ast.If, ast.Try, ast.With, ast.AsyncWith, ast.FunctionDef, ast.AsyncFunctionDef, ast.ClassDef)):
            if isinstance(a, (ast.With, ast.AsyncWith)):
                return any(it.optional_vars is not None and any(isinstance(x, ast.Name) and x.id == name for x in ast.walk(it.optional_vars)) for it in a.items)
            if isinstance(a, (ast.FunctionDef, ast.AsyncFunctionDef, ast.ClassDef)):
                return a.name == name
            return False
        return any(isinstance(x, ast.Name) and x.id == name and isinstance(x.ctx, (ast.Store, ast.Del)) for x in pf.walk_shallow(a))
    return False


def reaching_defs(g: pf.CFG, name: str, at: pf.Node) -> Tuple[List[pf.Node], bool]:
    """(definition nodes of `name` that reach node `at`, does the value `name` had on entry (a parameter) reach it).
    A definition reaches `at` if some CFG path from it to `at` passes no other definition of the name."""
    defs = [n for n in g.nodes if stores_name(n, name)]
    out = [d for d in defs if g.path_avoiding(d, lambda n: n is at, lambda n: any(n is x for x in defs)) is not None]
    entry = at is g.entry or g.path_avoiding(g.entry, lambda n: n is at, lambda n: any(n is x for x in defs)) is not None
    return out, entry


def peel_order(e: ast.AST) -> Optional[Tuple[str, ast.AST, str]]:
    """One order-relevant wrapper around a sequence expression: (relation of e to the inner sequence, inner, how) or None.
       same: list(x) tuple(x) x[:] x.copy() [*x] [v for v in x] copy.copy(x) copy.deepcopy(x)   reordered: sorted(x, ..) reversed(x) x[::-1]
       subset: filter(f, x) [v for v in x if c] x[a:b] x[::k]"""
    if isinstance(e, ast.Call) and not any(k.arg is None for k in e.keywords):
        f = e.func
        d = pf.dotted(f)
        if isinstance(f, ast.Name) and f.id in ('list', 'tuple', 'iter') and len(e.args) == 1 and not e.keywords:
            return 'same', e.args[0], f.id
        if d in ('copy.copy', 'copy.deepcopy', 'deepcopy') and len(e.args) == 1:
            return 'same', e.args[0], d
        if isinstance(f, ast.Name) and f.id in ('sorted', 'reversed') and len(e.args) == 1:
            return 'reordered', e.args[0], f.id
        if isinstance(f, ast.Name) and f.id == 'filter' and len(e.args) == 2:
            return 'subset', e.args[1], 'filter'
        if d in ('random.sample',) and e.args:
            return 'reordered', e.args[0], d
        if isinstance(f, ast.Attribute) and f.attr == 'copy' and not e.args and not e.keywords:
            return 'same', f.value, '.copy()'
        return None
    if isinstance(e, ast.BoolOp) and isinstance(e.op, ast.Or) and len(e.values) == 2 and isinstance(e.values[1], (ast.List, ast.Tuple)) and not e.values[1].elts:
        return 'same', e.values[0], 'or []'
    if isinstance(e, ast.Subscript) and isinstance(e.slice, ast.Slice):
        sl = e.slice
        if sl.lower is None and sl.upper is None:
            if sl.step is None or pf.nsrc(sl.step) == '1':
                return 'same', e.value, '[:]'
            if pf.nsrc(sl.step) == '-1':
                return 'reordered', e.value, '[::-1]'
        return 'subset', e.value, 'slice'
    if isinstance(e, (ast.List, ast.Tuple)) and len(e.elts) == 1 and isinstance(e.elts[0], ast.Starred):
        return 'same', e.elts[0].value, '[*x]'
    if isinstance(e, (ast.ListComp, ast.GeneratorExp)) and len(e.generators) == 1 and isinstance(e.generators[0].target, ast.Name) and isinstance(e.elt, ast.Name) \
            and e.elt.id == e.generators[0].target.id and not e.generators[0].is_async:
        return ('subset' if e.generators[0].ifs else 'same'), e.generators[0].iter, 'comprehension'
    return None


class Origin:
    """One way a sequence expression can have been produced: `leaf` (an expression that is not a name / order wrapper, or the parameter
    itself with at_entry=True) seen through wrappers whose combined order relation is `rel`; `via` lists the wrappers / rebinding statements."""
    __slots__ = ('rel', 'leaf', 'node', 'at_entry', 'via')

    def __init__(self, rel: str, leaf: ast.AST, node: Optional[pf.Node], at_entry: bool, via: List[str]):
        self.rel, self.leaf, self.node, self.at_entry, self.via = rel, leaf, node, at_entry, via


def origins(g: pf.CFG, e: ast.AST, at: pf.Node, params: Set[str], depth: int = 8, rel: str = 'same', via: Optional[List[str]] = None,
            decide: Optional[Callable[[ast.AST, pf.Node], Optional[bool]]] = None) -> List[Origin]:
    """All origins of the sequence denoted by expression e when evaluated at CFG node `at`: names are followed through the definitions that reach
    `at` (plain assignment, tuple unpacking from a tuple display or from a conditional expression of tuple displays, conditional expression),
    order wrappers are peeled.  Anything else is a leaf.  decide(test, node) may settle the test of a conditional expression (True / False / None)."""
    via = list(via or [])
    if depth <= 0:
        return [Origin('unknown', e, at, False, via)]
    if isinstance(e, ast.IfExp):
        known = decide(e.test, at) if decide is not None else None
        if known is not None:
            return origins(g, e.body if known else e.orelse, at, params, depth - 1, rel, via, decide)
        return origins(g, e.body, at, params, depth - 1, rel, via, decide) + origins(g, e.orelse, at, params, depth - 1, rel, via, decide)
    if isinstance(e, ast.Name):
        ds, entry = reaching_defs(g, e.id, at)
        out: List[Origin] = []
        if entry:
            if e.id in params:
                out.append(Origin(rel, e, None, True, via))
            else:
                out.append(Origin('unknown', e, at, False, via + [f'`{e.id}` may be unbound / global']))
        for d in ds:
            a = d.ast
            val: Optional[ast.AST] = None
            if isinstance(a, ast.Assign) and len(a.targets) == 1:
                t = a.targets[0]
                if isinstance(t, ast.Name):
                    val = a.value
                elif isinstance(t, (ast.Tuple, ast.List)) and all(isinstance(x, ast.Name) for x in t.elts):
                    idx = [i for i, x in enumerate(t.elts) if x.id == e.id]  # type: ignore[attr-defined]

                    def pick(v: ast.AST) -> Optional[ast.AST]:
                        if isinstance(v, (ast.Tuple, ast.List)) and len(v.elts) == len(t.elts) and not any(isinstance(x, ast.Starred) for x in v.elts):  # type: ignore[union-attr]
                            return v.elts[idx[0]]
                        if isinstance(v, ast.IfExp):
                            b, o = pick(v.body), pick(v.orelse)
                            if b is not None and o is not None:
                                return ast.IfExp(test=v.test, body=b, orelse=o)
                        return None
                    val = pick(a.value) if len(idx) == 1 else None
            elif isinstance(a, ast.AnnAssign) and isinstance(a.target, ast.Name) and a.value is not None:
                val = a.value
            if val is None:
                out.append(Origin('unknown', e, d, False, via + [f'`{pf.nsrc(a)[:80]}`' if a is not None else '?']))
            else:
                self_ref = any(isinstance(x, ast.Name) and x.id == e.id for x in ast.walk(val))
                out += origins(g, val, d, params, depth - 1, rel, via + ([f'`{pf.nsrc(a)[:120]}`'] if self_ref or peel_order(val) is not None else []), decide)
        return out
    p = peel_order(e)
    if p is not None:
        r, inner, how = p
        return origins(g, inner, at, params, depth - 1, worse(rel, r), via + ([f'`{pf.nsrc(e)[:120]}`'] if r != 'same' and not (via and pf.nsrc(e)[:60] in via[-1]) else []), decide)
    return [Origin(rel, e, at, False, via)]


# ------------------------------------------------------------------------------------------------
# 8. literal constants moved to module / class level
# ------------------------------------------------------------------------------------------------

def literal_constants(m: pf.Module, cls: Optional[str] = None) -> Dict[str, ast.Constant]:
    """`NAME` (module level) and `self.NAME` / `cls.NAME` / `<cls>.NAME` (class level of `cls`) -> the str / bytes / int literal it is bound to, for names that are
    assigned exactly once in the module (resp. class body), never declared `global` and never assigned as an attribute anywhere in the module."""
    out: Dict[str, ast.Constant] = {}
    globals_ = {n for x in ast.walk(m.tree) if isinstance(x, ast.Global) for n in x.names}
    attr_stores = {x.attr for x in ast.walk(m.tree) if isinstance(x, ast.Attribute) and isinstance(x.ctx, (ast.Store, ast.Del))}

    def scan(body: Sequence[ast.stmt], prefixes: Sequence[str]) -> None:
        seen: Dict[str, List[ast.AST]] = {}
        for st in body:
            tgs = st.targets if isinstance(st, ast.Assign) else [st.target] if isinstance(st, (ast.AnnAssign, ast.AugAssign)) else []
            for t in tgs:
                for x in ast.walk(t):
                    if isinstance(x, ast.Name):
                        seen.setdefault(x.id, []).append(st)
        for name, sts in seen.items():
            st = sts[0]
            v = st.value if isinstance(st, (ast.Assign, ast.AnnAssign)) else None
            if len(sts) == 1 and isinstance(v, ast.Constant) and isinstance(v.value, (str, bytes, int)) and not isinstance(v.value, bool) \
                    and (not isinstance(st, ast.Assign) or (len(st.targets) == 1 and isinstance(st.targets[0], ast.Name))):
                for p in prefixes:
                    if p == '' and name in globals_:
                        continue
                    if p != '' and name in attr_stores:
                        continue
                    out[p + name] = v
    scan(m.tree.body, [''])
    if cls is not None:
        try:
            c = m.cls(cls)
        except AnalysisError:
            c = None
        if c is not None:
            scan(c.body, ['self.', 'cls.', f'{cls}.'])
    return out


def subst_constants(node: ast.AST, consts: Dict[str, ast.Constant], shadowed: Iterable[str] = ()) -> ast.AST:
    """Deep copy of node with loads of the given constant names (`NAME`, `self.NAME`) replaced by the literal.  `shadowed`: local names of the analysed function."""
    shadowed = set(shadowed)

    class _S(ast.NodeTransformer):
        def visit_Name(self, n: ast.Name):
            if isinstance(n.ctx, ast.Load) and n.id in consts and n.id not in shadowed:
                return ast.copy_location(copy.deepcopy(consts[n.id]), n)
            return n

        def visit_Attribute(self, n: ast.Attribute):
            d = pf.dotted(n)
            if isinstance(n.ctx, ast.Load) and d is not None and d in consts and d.split('.')[0] not in shadowed - {'self', 'cls'}:
                return ast.copy_location(copy.deepcopy(consts[d]), n)
            return self.generic_visit(n)
    return _S().visit(copy.deepcopy(node))
