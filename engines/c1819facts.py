"""Facts shared by rules/c18.py and rules/c19.py.  Everything here works on parsed source (ast) and on string CONSTANTS taken from it;
no repository code is imported or run.

  * set_uses(module, attr)        who-may-write classification of every syntactic use of `<x>.<attr>` where the attribute holds a set:
                                  'init' | 'grow' | 'shrink' | 'read' | 'unknown'   (alias-aware inside one function)
  * derive(expr, is_base)         is a set/list expression the same collection as the base / a superset / a possible subset of it
  * inline_expr_calls(...)        expression-level inlining of tiny helpers (`def f(s): return <expr over s>`)
  * char_hom(expr, base)          a string transform built from `.replace(c, s)` chains, `.translate(str.maketrans({..}))` and
                                  `re.sub('[..]', r'\\\\\\g<0>', x)` as a letter-to-string homomorphism  char -> image
  * ShellLexer / hom_in_state     a three-state (unquoted / '..' / "..") lexer for ONE bash word given as literal text interleaved with an
                                  opaque path part; decides which characters of the path alphabet stay active by enumerating the finite
                                  set of character classes (a table over an abstract alphabet, not a run of the program)
  * element_aliases / index_kind  alias facts for a who-may-mutate rule over a result list and its element lists
"""
from __future__ import annotations

import ast
import copy
from typing import Callable, Dict, Iterable, List, Optional, Sequence, Set, Tuple

from . import pyfacts as pf
from .common import AnalysisError

# ------------------------------------------------------------------------------------------------
# 1. set-valued attribute: who may shrink it
# ------------------------------------------------------------------------------------------------

GROW_METHODS = {'add', 'update'}
SHRINK_METHODS = {'remove', 'discard', 'pop', 'clear', 'difference_update', 'intersection_update', 'symmetric_difference_update'}
READ_METHODS = {'copy', 'union', 'intersection', 'difference', 'symmetric_difference', 'issubset', 'issuperset', 'isdisjoint',
                '__contains__', '__len__', '__iter__'}
PURE_FUNCS = {'len', 'set', 'frozenset', 'list', 'tuple', 'sorted', 'iter', 'any', 'all', 'sum', 'enumerate', 'zip', 'reversed', 'bool', 'min', 'max',
              'repr', 'str', 'print', 'isinstance', 'id', 'hash'}


class Use:
    __slots__ = ('kind', 'node', 'stmt', 'func', 'why')

    def __init__(self, kind: str, node: ast.AST, stmt: Optional[ast.AST], func: Optional[pf.FuncDef], why: str):
        self.kind, self.node, self.stmt, self.func, self.why = kind, node, stmt, func, why

    def __repr__(self) -> str:  # pragma: no cover
        return f'<{self.kind} {self.why}>'


def _is_empty_set(e: ast.AST) -> bool:
    if isinstance(e, ast.Call) and isinstance(e.func, ast.Name) and e.func.id in ('set', 'frozenset') and not e.keywords:
        if not e.args:
            return True
        a = e.args[0]
        return len(e.args) == 1 and isinstance(a, (ast.List, ast.Tuple, ast.Set)) and not a.elts
    return False


def derive(e: ast.AST, is_base: Callable[[ast.AST], bool]) -> str:
    """How does the collection denoted by `e` relate to the base collection?
       'same'     same elements (copy, sorted, list(...), unfiltered identity comprehension)
       'superset' every base element is in e
       'subset'   e may lack base elements (difference, intersection, filter, filtering comprehension, empty)
       'other'    does not mention the base
       'unknown'  mentions the base in a way that is not analysed"""
    if is_base(e):
        return 'same'
    if _is_empty_set(e) or (isinstance(e, (ast.List, ast.Set, ast.Tuple)) and not e.elts) or (isinstance(e, ast.Constant) and e.value is None):
        return 'other'
    mentions = any(is_base(x) for x in ast.walk(e))
    if not mentions:
        return 'other'
    if isinstance(e, ast.Call) and not any(k.arg is None for k in e.keywords):
        f = e.func
        if isinstance(f, ast.Name) and f.id in ('set', 'frozenset', 'list', 'tuple', 'sorted') and len(e.args) == 1:
            return derive(e.args[0], is_base)
        if isinstance(f, ast.Name) and f.id == 'filter' and len(e.args) == 2 and derive(e.args[1], is_base) in ('same', 'superset', 'subset'):
            return 'subset'
        if isinstance(f, ast.Name) and f.id == 'reversed' and len(e.args) == 1:
            return derive(e.args[0], is_base)
        if isinstance(f, ast.Attribute):
            inner = derive(f.value, is_base)
            if inner in ('same', 'superset', 'subset'):
                if f.attr == 'copy' and not e.args:
                    return inner
                if f.attr == 'union':
                    return 'superset' if inner in ('same', 'superset') else 'unknown'
                if f.attr in ('difference', 'intersection', 'symmetric_difference'):
                    return 'subset'
            if inner == 'other' and f.attr == 'union' and any(derive(a, is_base) in ('same', 'superset') for a in e.args):
                return 'superset'
        return 'unknown'
    if isinstance(e, ast.BinOp):
        l, r = derive(e.left, is_base), derive(e.right, is_base)
        if isinstance(e.op, (ast.BitOr, ast.Add)):
            if 'same' in (l, r) or 'superset' in (l, r):
                return 'superset'
            return 'unknown'
        if isinstance(e.op, (ast.Sub, ast.BitAnd, ast.BitXor)):
            if l in ('same', 'superset', 'subset') or (isinstance(e.op, (ast.BitAnd, ast.BitXor)) and r in ('same', 'superset', 'subset')):
                return 'subset'
            return 'unknown'
        return 'unknown'
    if isinstance(e, (ast.Set, ast.List, ast.Tuple)):
        for x in e.elts:
            if isinstance(x, ast.Starred) and derive(x.value, is_base) in ('same', 'superset'):
                return 'superset'
        return 'unknown'
    if isinstance(e, (ast.SetComp, ast.ListComp, ast.GeneratorExp)):
        if len(e.generators) == 1:
            g = e.generators[0]
            inner = derive(g.iter, is_base)
            if inner in ('same', 'superset', 'subset'):
                if g.ifs:
                    return 'subset'
                if isinstance(g.target, ast.Name) and isinstance(e.elt, ast.Name) and e.elt.id == g.target.id:
                    return inner
        return 'unknown'
    if isinstance(e, ast.IfExp):
        a, b = derive(e.body, is_base), derive(e.orelse, is_base)
        if a == b:
            return a
        if 'subset' in (a, b):
            return 'subset'
        return 'unknown'
    if isinstance(e, ast.Subscript) and isinstance(e.slice, ast.Slice) and derive(e.value, is_base) in ('same', 'superset', 'subset'):
        sl = e.slice
        if sl.lower is None and sl.upper is None:
            return derive(e.value, is_base)
        return 'subset'
    return 'unknown'


def _stmt_of(par: Dict[ast.AST, ast.AST], n: ast.AST) -> Optional[ast.AST]:
    cur: Optional[ast.AST] = n
    while cur is not None and not isinstance(cur, ast.stmt):
        cur = par.get(cur)
    return cur


def _classify_load(par: Dict[ast.AST, ast.AST], node: ast.AST, m: pf.Module, what: str, follow_alias: bool, out: List[Use]) -> None:
    """Classify one Load occurrence `node` of the collection (the attribute itself or a local alias of it)."""
    p = par.get(node)
    st = _stmt_of(par, node)
    fn = m.enclosing_func(node)

    def add(kind: str, why: str) -> None:
        out.append(Use(kind, node, st, fn, why))

    if isinstance(p, ast.Attribute) and p.value is node:
        gp = par.get(p)
        if isinstance(gp, ast.Call) and gp.func is p:
            if p.attr in GROW_METHODS:
                return add('grow', f'.{p.attr}(...)')
            if p.attr in SHRINK_METHODS:
                return add('shrink', f'.{p.attr}(...) removes elements')
            if p.attr in READ_METHODS:
                return add('read', f'.{p.attr}(...)')
            return add('unknown', f'method .{p.attr}(...) of {what}')
        return add('unknown', f'bound method .{p.attr} of {what} taken without a call')
    if isinstance(p, (ast.For, ast.AsyncFor, ast.comprehension)) and p.iter is node:
        return add('read', 'iterated')
    if isinstance(p, ast.Compare) or isinstance(p, (ast.BoolOp, ast.UnaryOp, ast.BinOp, ast.FormattedValue, ast.Starred, ast.JoinedStr)):
        return add('read', 'operand')
    if isinstance(p, (ast.If, ast.While, ast.IfExp, ast.Assert)) and getattr(p, 'test', None) is node:
        return add('read', 'truth test')
    if isinstance(p, ast.Call) and any(a is node for a in p.args) and isinstance(p.func, ast.Name) and p.func.id in PURE_FUNCS:
        return add('read', f'{p.func.id}(...)')
    if isinstance(p, ast.Call) and isinstance(p.func, ast.Attribute) and p.func.attr in ('union', 'update', 'extend', 'issubset', 'issuperset', 'isdisjoint', 'difference',
                                                                                           'intersection', 'difference_update', 'join') and any(a is node for a in p.args):
        return add('read', f'argument of .{p.func.attr}(...)')
    if isinstance(p, ast.AugAssign) and p.value is node:
        return add('read', 'right-hand side')
    if isinstance(p, (ast.Assign, ast.AnnAssign)) and p.value is node and follow_alias:
        tg = p.targets if isinstance(p, ast.Assign) else [p.target]
        if len(tg) == 1 and isinstance(tg[0], ast.Name) and fn is not None:
            alias = tg[0].id
            if len(pf.assignments(fn).get(alias, [])) != 1:
                return add('unknown', f'alias `{alias}` of {what} is re-bound')
            add('read', f'aliased as `{alias}`')
            for x in pf.walk_shallow(fn, into_nested_defs=True):
                if isinstance(x, ast.Name) and x.id == alias and x is not tg[0]:
                    if isinstance(x.ctx, ast.Load):
                        _classify_load(par, x, m, f'`{alias}` (= {what})', False, out)
                    else:
                        px = par.get(x)
                        if isinstance(px, ast.AugAssign) and px.target is x:
                            k = 'grow' if isinstance(px.op, ast.BitOr) else 'shrink' if isinstance(px.op, (ast.Sub, ast.BitAnd, ast.BitXor)) else 'unknown'
                            out.append(Use(k, x, px, fn, f'`{pf.nsrc(px)}` on an alias of {what} (in-place on the same set)'))
                        else:
                            out.append(Use('unknown', x, _stmt_of(par, x), fn, f'alias `{alias}` of {what} is re-bound'))
            return
        return add('unknown', f'{what} stored into `{pf.nsrc(tg[0])}`')
    if isinstance(p, (ast.Assign, ast.AnnAssign)) and p.value is node:
        return add('unknown', f'alias of an alias of {what}')
    return add('unknown', f'{what} escapes through `{pf.nsrc(p) if p is not None else "?"}`')


def set_uses(m: pf.Module, attr: str, init_funcs: Sequence[str] = ('__init__',)) -> List[Use]:
    """Every syntactic use of `<recv>.<attr>` in module m, classified."""
    par = m.parents()
    out: List[Use] = []
    for node in ast.walk(m.tree):
        if isinstance(node, ast.Constant) and node.value == attr:
            out.append(Use('unknown', node, _stmt_of(par, node), m.enclosing_func(node), f'the name {attr!r} appears as a string (reflection: getattr/setattr/__dict__)'))
            continue
        if not (isinstance(node, ast.Attribute) and node.attr == attr):
            continue
        recv = pf.nsrc(node.value)
        what = f'`{recv}.{attr}`'
        st = _stmt_of(par, node)
        fn = m.enclosing_func(node)
        p = par.get(node)
        if isinstance(node.ctx, ast.Del):
            out.append(Use('shrink', node, st, fn, 'deleted'))
        elif isinstance(node.ctx, ast.Store):
            if isinstance(p, (ast.Assign, ast.AnnAssign)) and (node in getattr(p, 'targets', []) or getattr(p, 'target', None) is node):
                v = p.value
                if v is None:
                    out.append(Use('read', node, st, fn, 'annotation only'))
                    continue
                in_init = fn is not None and fn.name in init_funcs and recv == (fn.args.args[0].arg if fn.args.args else 'self')
                if _is_empty_set(v):
                    out.append(Use('init', node, st, fn, 'initialised empty') if in_init else Use('shrink', node, st, fn, 'reset to the empty set outside the constructor'))
                    continue
                vx = pf.expand_locals(fn, v) if fn is not None else v
                rel = derive(vx, lambda x, r=recv: isinstance(x, ast.Attribute) and x.attr == attr and pf.nsrc(x.value) == r)
                if rel in ('same', 'superset'):
                    out.append(Use('grow', node, st, fn, f're-assigned to a {rel} of itself'))
                elif rel == 'subset':
                    out.append(Use('shrink', node, st, fn, f're-assigned to `{pf.nsrc(v)}`, which can lack elements of the old set'))
                elif rel == 'other' and in_init:
                    out.append(Use('init', node, st, fn, f'initialised to `{pf.nsrc(v)}`'))
                else:
                    out.append(Use('unknown', node, st, fn, f'{what} re-assigned to `{pf.nsrc(v)}`'))
            elif isinstance(p, ast.AugAssign) and p.target is node:
                if isinstance(p.op, ast.BitOr):
                    out.append(Use('grow', node, st, fn, '|='))
                elif isinstance(p.op, (ast.Sub, ast.BitAnd, ast.BitXor)):
                    out.append(Use('shrink', node, st, fn, f'`{pf.nsrc(p)}` removes elements in place'))
                else:
                    out.append(Use('unknown', node, st, fn, f'`{pf.nsrc(p)}`'))
            else:
                out.append(Use('unknown', node, st, fn, f'{what} is an unpacking / loop / with target'))
        else:
            _classify_load(par, node, m, what, True, out)
    return out


# ------------------------------------------------------------------------------------------------
# 2. expression-level helper inlining and local expansion
# ------------------------------------------------------------------------------------------------

def expand_locals_except(fn: pf.FuncDef, e: ast.AST, stop: Iterable[str], depth: int = 4) -> ast.AST:
    """Copy of e with single-definition locals replaced by their defining expression, except the names in `stop`."""
    stop = set(stop)
    params = {a.arg for a in fn.args.posonlyargs + fn.args.args + fn.args.kwonlyargs}

    class _S(ast.NodeTransformer):
        def __init__(self, d: int):
            self.d = d

        def visit_Name(self, node: ast.Name):
            if isinstance(node.ctx, ast.Load) and node.id not in params and node.id not in stop and self.d > 0:
                dd = pf.single_def(fn, node.id)
                if dd is not None and isinstance(dd, ast.expr) and not isinstance(dd, (ast.Await, ast.Yield, ast.YieldFrom)):
                    return _S(self.d - 1).visit(copy.deepcopy(dd))
            return node

        def visit_Lambda(self, node):
            return node
    return _S(depth).visit(copy.deepcopy(e))


def _simple_helper(f: pf.FuncDef) -> Optional[Tuple[List[str], ast.expr]]:
    """(parameter names, returned expression with its single-definition locals expanded) for `def f(a, b): [doc]; [x = ...]*; return E`."""
    if isinstance(f, ast.AsyncFunctionDef) or f.args.vararg or f.args.kwarg or f.args.posonlyargs or f.args.kwonlyargs:
        return None
    if any(d not in ('staticmethod',) for d in pf.decorator_names(f)):
        return None
    body = list(f.body)
    if body and isinstance(body[0], ast.Expr) and isinstance(body[0].value, ast.Constant) and isinstance(body[0].value.value, str):
        body = body[1:]
    if not body or not isinstance(body[-1], ast.Return) or body[-1].value is None:
        return None
    for st in body[:-1]:
        if not (isinstance(st, (ast.Assign, ast.AnnAssign)) and (len(st.targets) == 1 if isinstance(st, ast.Assign) else True)):
            return None
        t = st.targets[0] if isinstance(st, ast.Assign) else st.target
        if not isinstance(t, ast.Name) or len(pf.assignments(f).get(t.id, [])) != 1:
            return None
    params = [a.arg for a in f.args.args]
    return params, expand_locals_except(f, body[-1].value, params)  # type: ignore[return-value]


def inline_expr_calls(m: pf.Module, e: ast.AST, cls: Optional[str] = None, depth: int = 3) -> ast.AST:
    """Copy of e in which calls of module-level one-expression helpers (and, with cls, `self.h(..)` / `<cls>.h(..)` of that class)
    are replaced by the helper's returned expression with the arguments substituted.  Other calls are left alone."""
    mod_funcs = {st.name: st for st in m.tree.body if isinstance(st, ast.FunctionDef)}
    cls_funcs: Dict[str, ast.FunctionDef] = {}
    if cls is not None:
        try:
            cls_funcs = {st.name: st for st in m.cls(cls).body if isinstance(st, ast.FunctionDef)}
        except AnalysisError:
            cls_funcs = {}

    class _I(ast.NodeTransformer):
        def __init__(self, d: int):
            self.d = d

        def visit_Call(self, node: ast.Call):
            node = self.generic_visit(node)  # type: ignore[assignment]
            if self.d <= 0 or any(isinstance(a, ast.Starred) for a in node.args) or any(k.arg is None for k in node.keywords):
                return node
            f = None
            drop_self = False
            if isinstance(node.func, ast.Name) and node.func.id in mod_funcs:
                f = mod_funcs[node.func.id]
            elif isinstance(node.func, ast.Attribute) and isinstance(node.func.value, ast.Name) and node.func.value.id in ('self', 'cls', cls) and node.func.attr in cls_funcs:
                f = cls_funcs[node.func.attr]
                drop_self = 'staticmethod' not in pf.decorator_names(f)
            if f is None:
                return node
            sh = _simple_helper(f)
            if sh is None:
                return node
            params, ret = sh
            if drop_self:
                if not params:
                    return node
                recv, params = params[0], params[1:]
                if any(isinstance(x, ast.Name) and x.id == recv for x in ast.walk(ret)):
                    return node  # uses self: not a pure string helper
            bound: Dict[str, ast.expr] = dict(zip(params, node.args))
            if len(node.args) > len(params):
                return node
            for k in node.keywords:
                if k.arg in bound or k.arg not in params:
                    return node
                bound[k.arg] = k.value  # type: ignore[index]
            defaults = dict(zip(params[len(params) - len(f.args.defaults):], f.args.defaults))
            for p_ in params:
                if p_ not in bound:
                    if p_ not in defaults:
                        return node
                    bound[p_] = defaults[p_]

            class _Sub(ast.NodeTransformer):
                def visit_Name(self, n: ast.Name):
                    if isinstance(n.ctx, ast.Load) and n.id in bound:
                        return copy.deepcopy(bound[n.id])
                    return n

                def visit_Lambda(self, n):
                    return n
            new = _Sub().visit(copy.deepcopy(ret))
            return _I(self.d - 1).visit(new)
    return _I(depth).visit(copy.deepcopy(e))


# ------------------------------------------------------------------------------------------------
# 3. character homomorphisms  (escape helpers)
# ------------------------------------------------------------------------------------------------

class Hom:
    """A letter-to-string homomorphism: `table[c]` is the image of character c, every other character maps to itself."""

    def __init__(self, table: Optional[Dict[str, str]] = None):
        self.table: Dict[str, str] = dict(table or {})

    def image(self, c: str) -> str:
        return self.table.get(c, c)

    def then(self, step: Dict[str, str]) -> 'Hom':
        """self followed by the single-letter substitution `step` (composition of homomorphisms, computed on the images)."""
        keys = set(self.table) | set(step)
        return Hom({c: ''.join(step.get(ch, ch) for ch in self.image(c)) for c in keys})

    def is_identity(self) -> bool:
        return all(k == v for k, v in self.table.items())


def _char_class(pat: str) -> Optional[Set[str]]:
    """`[abc]` or `([abc])` (no ranges, no negation) -> set of characters."""
    if pat.startswith('(') and pat.endswith(')') and not pat.startswith('(?'):
        pat = pat[1:-1]
    if not (pat.startswith('[') and pat.endswith(']')) or pat.startswith('[^'):
        return None
    body = pat[1:-1]
    out: Set[str] = set()
    i = 0
    while i < len(body):
        c = body[i]
        if c == '\\':
            if i + 1 >= len(body):
                return None
            nx = body[i + 1]
            if nx.isalnum():
                return None  # \d, \w, \s ...: a class, not a character
            out.add(nx)
            i += 2
            continue
        if c == '-' and 0 < i < len(body) - 1:
            return None  # a range
        if c in '[]':
            return None
        out.add(c)
        i += 1
    return out


def char_hom(e: ast.AST, is_base: Callable[[ast.AST], bool], m: Optional[pf.Module] = None) -> Optional[Tuple[Hom, ast.AST]]:
    """If e is the base expression wrapped in single-character substitutions, return (homomorphism, base node); None if e is not of that shape.
    Raises AnalysisError for a substitution it cannot model (multi-character search strings, regex classes with ranges ...)."""
    steps: List[Dict[str, str]] = []
    cur = e
    while True:
        if is_base(cur):
            h = Hom()
            for s in reversed(steps):
                h = h.then(s)
            return h, cur
        if isinstance(cur, ast.Call) and isinstance(cur.func, ast.Attribute) and cur.func.attr == 'replace' and not cur.keywords and len(cur.args) == 2:
            a, b = pf.const_str(cur.args[0]), pf.const_str(cur.args[1])
            if a is None or b is None:
                raise AnalysisError(f'`{pf.nsrc(cur)}`: replace() with non-constant arguments')
            if len(a) != 1:
                raise AnalysisError(f'`{pf.nsrc(cur)}`: replace() of a multi-character string is not a per-character substitution')
            steps.append({a: b})
            cur = cur.func.value
            continue
        if isinstance(cur, ast.Call) and isinstance(cur.func, ast.Attribute) and cur.func.attr == 'translate' and not cur.keywords and len(cur.args) == 1:
            t = cur.args[0]
            if isinstance(t, ast.Name) and m is not None:
                try:
                    t = m.global_assign(t.id)
                except AnalysisError:
                    pass
            if isinstance(t, ast.Call) and pf.dotted(t.func) == 'str.maketrans' and len(t.args) == 1 and isinstance(t.args[0], ast.Dict):
                t = t.args[0]
            if not isinstance(t, ast.Dict):
                raise AnalysisError(f'`{pf.nsrc(cur)}`: translation table not recognised')
            step: Dict[str, str] = {}
            for k, v in zip(t.keys, t.values):
                ks = pf.const_str(k) if k is not None else None
                if ks is None and isinstance(k, ast.Call) and pf.dotted(k.func) == 'ord' and len(k.args) == 1:
                    ks = pf.const_str(k.args[0])
                vs = pf.const_str(v)
                if isinstance(v, ast.Constant) and v.value is None:
                    vs = ''
                if ks is None or vs is None or len(ks) != 1:
                    raise AnalysisError(f'`{pf.nsrc(cur)}`: translation table entry `{pf.nsrc(k) if k else None}: {pf.nsrc(v)}` not recognised')
                step[ks] = vs
            steps.append(step)
            cur = cur.func.value
            continue
        if isinstance(cur, ast.Call) and pf.dotted(cur.func) == 're.sub' and len(cur.args) == 3 and not cur.keywords:
            pat, rep = pf.const_str(cur.args[0]), pf.const_str(cur.args[1])
            if pat is None or rep is None:
                raise AnalysisError(f'`{pf.nsrc(cur)}`: re.sub with non-constant pattern / replacement')
            cs = _char_class(pat)
            if cs is None:
                raise AnalysisError(f'`{pf.nsrc(cur)}`: pattern {pat!r} is not a plain character class')
            grouped = pat.startswith('(')
            refs = ['\\g<0>'] + (['\\1', '\\g<1>'] if grouped else [])
            pre = None
            for r in refs:
                if rep.endswith(r) and rep.count(r) == 1:
                    pre = rep[:-len(r)]
            if pre is None:
                raise AnalysisError(f'`{pf.nsrc(cur)}`: replacement {rep!r} not recognised')
            pre = pre.replace('\\\\', '\\')
            steps.append({c: pre + c for c in cs})
            cur = cur.args[2]
            continue
        return None


# ------------------------------------------------------------------------------------------------
# 4. one bash word
# ------------------------------------------------------------------------------------------------

U, S, D = 'unquoted', "'single-quoted'", '"double-quoted"'
UNQUOTED_SPECIAL = ' \t\n$`\\"\'|&;<>()*?[{'
DQ_SPECIAL = '$`\\"'
ORDINARY = 'a0/._-'
WITNESS = {'$': 'cost_in_$US.tsv', '`': 'out`id`.txt', '\\': 'back\\slash.txt', '"': 'say "cheese".txt', "'": "it's.tsv", ' ': 'per sample.tsv',
           '\t': 'a\tb.tsv', '\n': 'a\nb.tsv', '*': 'all*.txt', '?': 'what?.txt', ';': 'a;b.txt', '&': 'a&b.txt', '|': 'a|b.txt', '<': 'a<b.txt', '>': 'a>b.txt',
           '(': 'a(1).txt', ')': 'a(1).txt', '[': 'a[1].txt', ']': 'a[1].txt', '#': '#1.txt', '~': '~x.txt', '{': 'a{1,2}.txt', '}': 'a{1,2}.txt', '!': 'a!b.txt',
           '=': 'k=v.txt'}


class WordError(AnalysisError):
    pass


class ShellLexer:
    """Lexes literal text of one bash word.  items: ('char', c, state) | ('var', name, state)."""

    def __init__(self, state: str = U):
        self.state = state
        self.items: List[Tuple[str, str, str]] = []
        self.pending_backslash = False  # a backslash at the very end of a piece of text: it would escape whatever comes next

    def feed(self, text: str) -> None:
        i = 0
        n = len(text)
        while i < n:
            c = text[i]
            if self.pending_backslash:
                raise WordError('a backslash directly precedes a non-literal part')
            if self.state == S:
                if c == "'":
                    self.state = U
                else:
                    self.items.append(('char', c, S))
                i += 1
                continue
            if c == '\\':
                if i + 1 >= n:
                    self.pending_backslash = True
                    i += 1
                    continue
                nx = text[i + 1]
                if self.state == U:
                    if nx != '\n':
                        self.items.append(('char', nx, U))
                    i += 2
                    continue
                # double quotes: the backslash is removed only before $ ` " \ newline
                if nx in DQ_SPECIAL:
                    self.items.append(('char', nx, D))
                    i += 2
                elif nx == '\n':
                    i += 2
                else:
                    self.items.append(('char', '\\', D))
                    i += 1
                continue
            if c == '$':
                j = i + 1
                if j < n and text[j] == '{':
                    k = text.find('}', j)
                    name = text[j + 1:k] if k > 0 else ''
                    if k < 0 or not name.isidentifier():
                        raise WordError(f'parameter expansion `{text[i:i + 24]}` not analysed')
                    self.items.append(('var', name, self.state))
                    i = k + 1
                    continue
                k = j
                while k < n and (text[k].isalnum() or text[k] == '_'):
                    k += 1
                if k == j:
                    if j < n and text[j] in '(':
                        raise WordError('command substitution in the replacement text')
                    if j >= n:
                        raise WordError('`$` at the end of a literal piece: it would combine with the following part')
                    if text[j] in '$!?#@*-' or text[j].isdigit():
                        self.items.append(('var', text[j], self.state))
                        i = j + 1
                        continue
                    self.items.append(('char', '$', self.state))
                    i += 1
                    continue
                if k >= n:
                    raise WordError(f'unbraced `${text[j:k]}` at the end of a literal piece: the variable name would extend into the following part')
                self.items.append(('var', text[j:k], self.state))
                i = k
                continue
            if c == '`':
                raise WordError('back-tick command substitution in the replacement text')
            if self.state == D:
                if c == '"':
                    self.state = U
                else:
                    self.items.append(('char', c, D))
                i += 1
                continue
            # unquoted
            if c == "'":
                self.state = S
            elif c == '"':
                self.state = D
            elif c in ' \t\n|&;<>()':
                raise WordError(f'unquoted {c!r} in the replacement text: it is more than one word')
            elif c in '*?[#~{':
                raise WordError(f'unquoted {c!r} in the replacement text (glob / brace / tilde syntax not analysed)')
            else:
                self.items.append(('char', c, U))
            i += 1


def hom_in_state(h: Hom, state: str) -> Tuple[List[str], List[str]]:
    """For a path inserted through homomorphism h while the lexer is in `state`:
    (characters that stay ACTIVE or change the quoting state, characters whose literal value is MANGLED)."""
    special = {U: UNQUOTED_SPECIAL, D: DQ_SPECIAL, S: "'"}[state]
    alphabet = list(dict.fromkeys(list(special) + list(h.table) + list(ORDINARY)))
    active: List[str] = []
    mangled: List[str] = []
    for c in alphabet:
        img = h.image(c)
        lx = ShellLexer(state)
        try:
            lx.feed(img)
        except WordError:
            active.append(c)
            continue
        if lx.pending_backslash or lx.state != state or any(k == 'var' for k, _, _ in lx.items):
            active.append(c)
            continue
        lit = ''.join(ch for k, ch, _ in lx.items if k == 'char')
        if state == U and c in special and img == c:
            active.append(c)
        elif lit != c:
            mangled.append(c)
    return active, mangled


# ------------------------------------------------------------------------------------------------
# 5. who may mutate a result list
# ------------------------------------------------------------------------------------------------

def _strip_iter(e: ast.AST) -> ast.AST:
    """reversed(x) / x[a:b] / list(x) / iter(x) -> x"""
    while True:
        if isinstance(e, ast.Call) and isinstance(e.func, ast.Name) and e.func.id in ('reversed', 'list', 'iter', 'tuple') and len(e.args) == 1 and not e.keywords:
            e = e.args[0]
        elif isinstance(e, ast.Subscript) and isinstance(e.slice, ast.Slice):
            e = e.value
        else:
            return e


def element_aliases(fn: pf.FuncDef, result: str) -> Dict[str, ast.AST]:
    """Local names bound to an ELEMENT of the list `result` (iteration variable over it, directly or through zip / enumerate / reversed / slices,
    or `x = result[i]`), with the binding construct.  `alias_kind` tells whether the element can be a non-last one."""
    out: Dict[str, ast.AST] = {}

    def bind(target: ast.AST, it: ast.AST, site: ast.AST) -> None:
        it = _strip_iter(it)
        if isinstance(it, ast.Name) and it.id == result:
            if isinstance(target, ast.Name):
                out[target.id] = site
            return
        if isinstance(it, ast.Call) and isinstance(it.func, ast.Name) and not it.keywords:
            if it.func.id == 'enumerate' and it.args and isinstance(target, (ast.Tuple, ast.List)) and len(target.elts) == 2:
                bind(target.elts[1], it.args[0], site)
            elif it.func.id == 'zip' and isinstance(target, (ast.Tuple, ast.List)) and len(target.elts) == len(it.args):
                for t, a in zip(target.elts, it.args):
                    bind(t, a, site)

    for n in pf.walk_shallow(fn):
        if isinstance(n, (ast.For, ast.AsyncFor)):
            bind(n.target, n.iter, n)
        elif isinstance(n, (ast.ListComp, ast.SetComp, ast.GeneratorExp, ast.DictComp)):
            for g in n.generators:
                bind(g.target, g.iter, n)
        elif isinstance(n, ast.Assign) and len(n.targets) == 1 and isinstance(n.targets[0], ast.Name) and isinstance(n.value, ast.Subscript) \
                and isinstance(n.value.value, ast.Name) and n.value.value.id == result and not isinstance(n.value.slice, ast.Slice):
            out[n.targets[0].id] = n
        elif isinstance(n, ast.NamedExpr) and isinstance(n.target, ast.Name) and isinstance(n.value, ast.Subscript) and isinstance(n.value.value, ast.Name) \
                and n.value.value.id == result and not isinstance(n.value.slice, ast.Slice):
            out[n.target.id] = n
        elif isinstance(n, ast.Assign) and len(n.targets) == 1 and isinstance(n.targets[0], ast.Name) and isinstance(n.value, ast.Call) \
                and isinstance(n.value.func, ast.Attribute) and n.value.func.attr == 'pop' and isinstance(n.value.func.value, ast.Name) and n.value.func.value.id == result:
            out[n.targets[0].id] = n
    return out


def alias_kind(fn: pf.FuncDef, site: ast.AST, result: str) -> str:
    """'earlier' (can be a non-last element) | 'last' | 'unknown' for a binding construct returned by element_aliases."""
    v = getattr(site, 'value', None)
    if isinstance(site, (ast.Assign, ast.NamedExpr)) and isinstance(v, ast.Subscript):
        return index_kind(fn, v.slice, result)
    if isinstance(site, ast.Assign):
        return 'unknown'  # result.pop(...)
    return 'earlier'


def index_kind(fn: pf.FuncDef, idx: ast.AST, result: str) -> str:
    """'last' | 'earlier' | 'unknown' for result[idx]."""
    idx = pf.resolve_expr(fn, idx)
    s = pf.nsrc(idx)
    if s in ('-1', f'len({result}) - 1'):
        return 'last'
    if isinstance(idx, ast.Constant) and isinstance(idx.value, int):
        return 'earlier'
    if isinstance(idx, ast.UnaryOp) and isinstance(idx.op, ast.USub) and isinstance(idx.operand, ast.Constant) and isinstance(idx.operand.value, int) and idx.operand.value > 1:
        return 'earlier'
    if isinstance(idx, ast.Name):
        ds = pf.assignments(fn).get(idx.id, [])
        if ds and all(isinstance(d, (ast.For, ast.comprehension)) for d in ds):
            return 'earlier'  # a loop index ranges over positions, not only the last one
    return 'unknown'
