"""Static facts for C20 / C21 (rule-module local engine; stdlib only, nothing from the repository is imported or run).

 * DelayEval      interval + unit abstract evaluation of the value handed to a sleep: every expression is mapped to an abstract value
                  (lower / upper bound as exact fractions or +-inf, a dimension tag 'ms' / 's' inferred from names such as *_MS, *_secs and
                  from `/ 1000`, and a flag "is exactly the documented jitter band of delay_ms_for_try(tries) scaled by k").  Values read off an
                  exception / a header / any caller-supplied object are unbounded until clamped by min() against a bounded value.
 * lossless flow  classification of the dataflow from a response read to a constructor argument: identity / str / fixed-codec decode are
                  lossless, a closed table of operations (slicing, textwrap.shorten, strip/replace, case folding, lenient decoding, filtering)
                  is lossy, everything else is undecided.
 * implication    exhaustive evaluation of two classifier functions over a finite abstract domain of (exception class, status value class,
                  body-token atoms, free atoms) to decide "whatever classifier A accepts, classifier B accepts".
"""
from __future__ import annotations

import ast
import itertools
from fractions import Fraction
from typing import Callable, Dict, Iterable, List, Optional, Sequence, Set, Tuple

from . import pyfacts as pf
from .common import AnalysisError

INF = float('inf')


# ------------------------------------------------------------------------------------------------
# delay domain
# ------------------------------------------------------------------------------------------------


def unit_of_name(name: str) -> Optional[str]:
    """Dimension tag carried by an identifier: *_ms / *_msecs / *_millis -> 'ms'; *_s / *_secs / *_seconds -> 's'."""
    parts = name.lower().split('_')
    for p in reversed(parts):
        if p in ('ms', 'msec', 'msecs', 'millis', 'milliseconds'):
            return 'ms'
        if p in ('s', 'sec', 'secs', 'seconds'):
            return 's'
    return None


class AV:
    """Abstract value of a numeric expression."""
    __slots__ = ('lo', 'hi', 'unit', 'band', 'ext', 'stale', 'origin', 'notes', 'excursion')

    def __init__(self, lo, hi, unit: Optional[str] = None, band: Optional[Tuple[Fraction, int]] = None, ext: bool = False, stale: bool = False,
                 origin: str = '', notes: Optional[List[str]] = None):
        self.lo = lo
        self.hi = hi
        self.unit = unit
        self.band = band        # (scale k, tries offset): the value is exactly k * delay_ms_for_try(<tries after `offset` increments>)
        self.ext = ext          # derived from data supplied by the environment (exception attributes, headers)
        self.stale = stale      # value left over from an earlier iteration
        self.origin = origin    # source text responsible for the upper bound
        self.notes = list(notes or [])  # unit disagreements met while evaluating
        self.excursion: Optional[str] = None  # a proven way for the value to leave the documented band although it stays below the maximum

    def show(self) -> str:
        def f(x):
            if x in (INF, -INF):
                return 'inf' if x > 0 else '-inf'
            return str(int(x)) if Fraction(x).denominator == 1 else str(float(x))
        return f'[{f(self.lo)}, {f(self.hi)}]' + (f' {self.unit}' if self.unit else '')


def _join_unit(a: Optional[str], b: Optional[str]) -> Optional[str]:
    return a if a is not None else b


def av_join(vals: Sequence[AV]) -> AV:
    assert vals
    hi_src = max(vals, key=lambda v: v.hi)
    band = vals[0].band if all(v.band == vals[0].band for v in vals) else None
    unit = None
    notes: List[str] = []
    for v in vals:
        notes += v.notes
        if v.unit is not None:
            if unit is not None and unit != v.unit:
                notes.append(f'alternatives carry different units ({unit} / {v.unit})')
            unit = unit or v.unit
    out = AV(min(v.lo for v in vals), max(v.hi for v in vals), unit, band, any(v.ext for v in vals), any(v.stale for v in vals), hi_src.origin, notes)
    out.excursion = next((v.excursion for v in vals if v.excursion), None)
    return out


class Decline(AnalysisError):
    pass


class DelayEval:
    """Evaluates expressions of one module.  `band_lo_ms`/`band_hi_ms` are the global bounds of delay_ms_for_try(tries) with default arguments
    (decided separately by the interval analysis of that function)."""

    def __init__(self, m: pf.Module, band_lo_ms: int, band_hi_ms: int, delay_fn: str = 'delay_ms_for_try', tries: str = 'tries', band1_hi_ms: Optional[int] = None,
                 base_ms: Optional[int] = None, model: Optional['DelayModel'] = None):
        self.m = m
        self.model = model      # the back-off function itself, for calls that bind parameters beyond (tries, base_delay_ms, max_delay_ms)
        self.b1hi = Fraction(band1_hi_ms if band1_hi_ms is not None else band_hi_ms)
        self.base = Fraction(base_ms if base_ms is not None else band_lo_ms)
        self.blo = Fraction(band_lo_ms)
        self.bhi = Fraction(band_hi_ms)
        self.delay_fn = delay_fn
        self.tries = tries
        self._stack: List[str] = []

    # -- leaves
    def const(self, v, unit=None, origin='') -> AV:
        f = Fraction(v) if not isinstance(v, float) else Fraction(str(v))
        return AV(f, f, unit, origin=origin)

    def external(self, origin: str, unit: Optional[str] = None) -> AV:
        return AV(-INF, INF, unit, ext=True, origin=origin)

    def module_const(self, name: str) -> Optional[AV]:
        try:
            v = self.m.global_assign(name)
        except AnalysisError:
            return None
        try:
            r = self.eval(v, {}, None, 0, set())
        except Decline:
            return None
        if r.lo != r.hi:
            return None
        r.unit = r.unit or unit_of_name(name)
        r.origin = name
        return r

    # -- expression evaluation
    def eval(self, e: ast.AST, env: Dict[str, AV], fn: Optional[pf.FuncDef], offset: int, params_ext: Set[str]) -> AV:
        if isinstance(e, ast.Constant):
            if isinstance(e.value, bool) or e.value is None:
                raise Decline(f'non-numeric constant `{pf.nsrc(e)}` in a delay expression')
            if isinstance(e.value, (int, float)):
                return self.const(e.value, origin=pf.nsrc(e))
            raise Decline(f'non-numeric constant `{pf.nsrc(e)}` in a delay expression')
        if isinstance(e, ast.Name):
            if e.id in env:
                return env[e.id]
            if e.id in params_ext:
                return self.external(e.id, unit_of_name(e.id))
            if fn is not None and e.id in pf.assignments(fn) and e.id not in [a.arg for a in fn.args.args + fn.args.kwonlyargs]:
                return self._local(e.id, fn, env, offset, params_ext)
            c = self.module_const(e.id)
            if c is not None:
                return c
            raise Decline(f'`{e.id}` is not a local with known definitions, a parameter or a numeric module constant')
        if isinstance(e, ast.UnaryOp) and isinstance(e.op, (ast.USub, ast.UAdd)):
            a = self.eval(e.operand, env, fn, offset, params_ext)
            if isinstance(e.op, ast.UAdd):
                return a
            return AV(-a.hi, -a.lo, a.unit, None, a.ext, a.stale, a.origin, a.notes)
        if isinstance(e, ast.BinOp):
            return self._binop(e, env, fn, offset, params_ext)
        if isinstance(e, ast.IfExp):
            return av_join([self.eval(e.body, env, fn, offset, params_ext), self.eval(e.orelse, env, fn, offset, params_ext)])
        if isinstance(e, ast.BoolOp) and isinstance(e.op, ast.Or):
            return av_join([self.eval(v, env, fn, offset, params_ext) for v in e.values])
        if isinstance(e, ast.Call):
            return self._call(e, env, fn, offset, params_ext)
        if isinstance(e, (ast.Attribute, ast.Subscript)):
            root = e
            while isinstance(root, (ast.Attribute, ast.Subscript, ast.Call)):
                root = root.value if not isinstance(root, ast.Call) else root.func
            if isinstance(root, ast.Name):
                if root.id in params_ext:
                    return self.external(pf.nsrc(e))
                if root.id in env and env[root.id].ext:
                    return self.external(pf.nsrc(e))
                if fn is not None and root.id in pf.assignments(fn):
                    try:
                        r = self._local(root.id, fn, env, offset, params_ext)
                        if r.ext:
                            return self.external(pf.nsrc(e))
                    except Decline:
                        pass
            raise Decline(f'`{pf.nsrc(e)}` is not rooted at caller-supplied data')
        raise Decline(f'unsupported delay expression `{pf.nsrc(e)}`')

    def _local(self, name: str, fn: pf.FuncDef, env: Dict[str, AV], offset: int, params_ext: Set[str]) -> AV:
        key = f'{fn.name}.{name}'
        if key in self._stack:
            raise Decline(f'`{name}` is defined in terms of itself (loop-carried value)')
        self._stack.append(key)
        try:
            vals = []
            for d in pf.assignments(fn)[name]:
                if isinstance(d, ast.expr):
                    vals.append(self.eval(d, env, fn, offset, params_ext))
                elif isinstance(d, ast.AugAssign):
                    vals.append(self.eval(ast.BinOp(left=ast.Name(id=name, ctx=ast.Load()), op=d.op, right=d.value), env, fn, offset, params_ext))
                elif isinstance(d, ast.ExceptHandler):
                    vals.append(self.external(name))
                else:
                    raise Decline(f'`{name}` is bound by `{type(d).__name__}` (not an expression)')
            return av_join(vals)
        finally:
            self._stack.pop()

    def _binop(self, e: ast.BinOp, env, fn, offset, params_ext) -> AV:
        a = self.eval(e.left, env, fn, offset, params_ext)
        b = self.eval(e.right, env, fn, offset, params_ext)
        notes = a.notes + b.notes
        ext = a.ext or b.ext
        stale = a.stale or b.stale
        op = e.op
        if isinstance(op, (ast.Add, ast.Sub)):
            if a.unit and b.unit and a.unit != b.unit:
                notes.append(f'`{pf.nsrc(e)}` adds {a.unit} to {b.unit}')
            if isinstance(op, ast.Add):
                lo, hi = a.lo + b.lo, a.hi + b.hi
            else:
                lo, hi = a.lo - b.hi, a.hi - b.lo
            origin = a.origin if a.hi >= b.hi else b.origin
            band = a.band if (b.lo == b.hi == 0) else (b.band if (a.lo == a.hi == 0 and isinstance(op, ast.Add)) else None)
            out = AV(lo, hi, _join_unit(a.unit, b.unit), band, ext, stale, f'{pf.nsrc(e)}' if band is None else origin, notes)
            out.excursion = a.excursion or b.excursion
            return out
        if isinstance(op, (ast.Mult, ast.Div, ast.FloorDiv)):
            if isinstance(op, ast.Mult) and a.lo == a.hi and b.lo != b.hi:
                a, b = b, a
            if b.lo != b.hi or b.lo in (INF, -INF):
                raise Decline(f'`{pf.nsrc(e)}`: scaling by a non-constant')
            k = Fraction(b.lo)
            if k <= 0:
                raise Decline(f'`{pf.nsrc(e)}`: scaling by a non-positive constant')
            f = k if isinstance(op, ast.Mult) else 1 / k
            unit = a.unit
            if b.unit is None:
                if a.unit == 'ms' and f == Fraction(1, 1000):
                    unit = 's'
                elif a.unit == 's' and f == 1000:
                    unit = 'ms'
            else:
                unit = _join_unit(a.unit, b.unit) if isinstance(op, ast.Mult) else None
            band = (a.band[0] * f, a.band[1]) if a.band is not None and not isinstance(op, ast.FloorDiv) else None

            def sc(x):
                return x if x in (INF, -INF) else Fraction(x) * f
            out = AV(sc(a.lo), sc(a.hi), unit, band, ext, stale, a.origin, notes)
            out.excursion = a.excursion or b.excursion
            return out
        raise Decline(f'unsupported operator in `{pf.nsrc(e)}`')

    def _call(self, e: ast.Call, env, fn, offset, params_ext) -> AV:
        name = pf.dotted(e.func) or ''
        if name == self.delay_fn and not e.args and any(k.arg == 'tries' for k in e.keywords):
            # delay_ms_for_try(tries=n, ...) is delay_ms_for_try(n, ...)
            e = ast.copy_location(ast.Call(func=e.func, args=[k.value for k in e.keywords if k.arg == 'tries'], keywords=[k for k in e.keywords if k.arg != 'tries']), e)
        if name == self.delay_fn:
            known = ('base_delay_ms', 'max_delay_ms')
            beyond = len(e.args) > 3 or any(k.arg not in known for k in e.keywords)
            if self.model is not None and (beyond or any(p in self.model.extras for p in self.model.positional[1:len(e.args)])):
                return self._model_call(e, env, fn, offset, params_ext)
            if beyond:
                raise Decline(f'`{pf.nsrc(e)}` binds parameters other than (tries, base_delay_ms, max_delay_ms): not understood without a model of `{self.delay_fn}`')
            if [pf.nsrc(a) for a in e.args] == [self.tries] and not e.keywords:
                return AV(self.blo, self.bhi, 'ms', (Fraction(1), offset), origin=pf.nsrc(e))
            # explicit bounds that evaluate to the defaults are the documented band too
            if len(e.args) >= 1 and pf.nsrc(e.args[0]) == self.tries:
                given: Dict[str, ast.AST] = dict(zip(['base_delay_ms', 'max_delay_ms'], e.args[1:3]))
                for k in e.keywords:
                    if k.arg in ('base_delay_ms', 'max_delay_ms'):
                        given[k.arg] = k.value
                if len(e.args) <= 3 and all(k.arg in ('base_delay_ms', 'max_delay_ms') for k in e.keywords):
                    try:
                        vals = {k: self.eval(v, env, fn, offset, params_ext) for k, v in given.items()}
                        if all(v.lo == v.hi for v in vals.values()) and vals.get('base_delay_ms', AV(self.base, self.base)).lo == self.base \
                                and vals.get('max_delay_ms', AV(self.bhi, self.bhi)).lo == self.bhi:
                            return AV(self.blo, self.bhi, 'ms', (Fraction(1), offset), origin=pf.nsrc(e))
                    except Decline:
                        pass
            # non-default bounds: the cap is whatever is passed as max_delay_ms
            cap = None
            if len(e.args) >= 3:
                cap = e.args[2]
            for k in e.keywords:
                if k.arg == 'max_delay_ms':
                    cap = k.value
            if len(e.args) >= 1 and pf.nsrc(e.args[0]) != self.tries:
                raise Decline(f'`{pf.nsrc(e)}`: first argument is not `{self.tries}`')
            if cap is None:
                # only the base changed: jitter band differs from the documented one, cap unchanged
                return AV(Fraction(0), self.bhi, 'ms', None, origin=pf.nsrc(e))
            c = self.eval(cap, env, fn, offset, params_ext)
            return AV(Fraction(0), c.hi, 'ms', None, origin=pf.nsrc(e), notes=c.notes)
        if name in ('min', 'max') and len(e.args) >= 2 and not e.keywords:
            vals = [self.eval(a, env, fn, offset, params_ext) for a in e.args]
            notes = [n for v in vals for n in v.notes]
            units = [v.unit for v in vals if v.unit is not None]
            if len(set(units)) > 1:
                notes.append(f'`{pf.nsrc(e)}` compares a value in {units[0]} with a value in {[u for u in units if u != units[0]][0]}')
            unit = units[0] if units else None
            if name == 'min':
                lo, hi = min(v.lo for v in vals), min(v.hi for v in vals)
                bands = [v for v in vals if v.band is not None]
                band = None
                if len(bands) == 1 and all(o.lo >= bands[0].hi for o in vals if o is not bands[0]):
                    band = bands[0].band
                origin = min(vals, key=lambda v: v.hi).origin
                # a clamp only bounds the result when the bound itself is finite
                ext = all(v.ext for v in vals) if hi != INF else any(v.ext for v in vals)
            else:
                lo, hi = max(v.lo for v in vals), max(v.hi for v in vals)
                bands = [v for v in vals if v.band is not None]
                band = None
                if len(bands) == 1 and all(o.hi <= bands[0].lo for o in vals if o is not bands[0]):
                    band = bands[0].band
                origin = max(vals, key=lambda v: v.hi).origin
                ext = any(v.ext for v in vals)
            out = AV(lo, hi, unit, band, ext, any(v.stale for v in vals), origin if band is None else bands[0].origin, notes)
            out.excursion = next((v.excursion for v in vals if v.excursion), None)
            if band is None and len(bands) == 1 and out.excursion is None:
                k = bands[0].band[0]
                others = [o for o in vals if o is not bands[0]]
                if name == 'max':
                    big = max(others, key=lambda o: o.hi)
                    if big.hi > k * self.b1hi:
                        out.excursion = (f'`{pf.nsrc(e)}`: after the first failure the documented band is [{float(k * self.blo):g}, {float(k * self.b1hi):g}] but `{big.origin}` '
                                         f'ranges over {big.show()}')
                else:
                    small = min(others, key=lambda o: o.hi)
                    if small.hi < k * self.bhi and k not in (Fraction(1), Fraction(1, 1000)):
                        out.excursion = (f'`{pf.nsrc(e)}`: the back-off is scaled by {float(k * (1000 if bands[0].unit == "s" else 1)):g} before it is cut to `{small.origin}` = {small.show()}: '
                                         f'after the first failure it ranges over [{float(k * self.blo):g}, {float(min(k * self.b1hi, small.hi)):g}] instead of the documented band')
                    elif small.hi < k * self.bhi:
                        out.excursion = (f'`{pf.nsrc(e)}`: for large try counts the documented band is pinned at the maximum {float(k * self.bhi):g} but the value is '
                                         f'cut to `{small.origin}` = {small.show()}')
            return out
        if name in ('float', 'int', 'round', 'abs') and len(e.args) >= 1:
            a = self.eval(e.args[0], env, fn, offset, params_ext)
            if name == 'abs':
                return AV(0 if a.lo < 0 else a.lo, max(abs(a.lo), abs(a.hi)) if a.lo != -INF else INF, a.unit, None, a.ext, a.stale, a.origin, a.notes)
            out = AV(a.lo, a.hi, a.unit, a.band if name == 'float' else None, a.ext, a.stale, a.origin, a.notes)
            out.excursion = a.excursion
            return out
        if name == 'getattr' and e.args:
            try:
                a = self.eval(e.args[0], env, fn, offset, params_ext)
            except Decline:
                a = None
            if isinstance(e.args[0], ast.Name) and (e.args[0].id in params_ext or (a is not None and a.ext)):
                return self.external(pf.nsrc(e))
            raise Decline(f'`{pf.nsrc(e)}`: getattr of an object that is not caller-supplied')
        if name in ('random.random',) and not e.args:
            return AV(Fraction(0), Fraction(1), None, origin=pf.nsrc(e))
        if name in ('random.uniform',) and len(e.args) == 2:
            a = self.eval(e.args[0], env, fn, offset, params_ext)
            b = self.eval(e.args[1], env, fn, offset, params_ext)
            return AV(min(a.lo, b.lo), max(a.hi, b.hi), _join_unit(a.unit, b.unit), None, a.ext or b.ext, False, pf.nsrc(e), a.notes + b.notes)
        # method call on caller-supplied data: headers.get('Retry-After')
        if isinstance(e.func, ast.Attribute):
            try:
                recv = self.eval(e.func.value, env, fn, offset, params_ext)
            except Decline:
                recv = None
            if recv is not None and recv.ext:
                return self.external(pf.nsrc(e))
        # helper defined in the module: join of its return values
        if isinstance(e.func, ast.Name) and self.m.has_func(e.func.id):
            return self._helper(e, env, fn, offset, params_ext)
        raise Decline(f'call `{pf.nsrc(e)}` is not understood by the delay analysis')

    def _model_call(self, e: ast.Call, env, fn, offset, params_ext) -> AV:
        """A call of the back-off function that binds one of its extra parameters (a floor, an additive extra, ...): the body of the function
        is evaluated in the interval domain for every try count (exhaustive thanks to the clamp on the exponent), once with the parameter
        values of this call and once with the defaults.  Inside the default result for every try count = still the documented band."""
        import math
        from . import absdom
        mdl = self.model
        assert mdl is not None
        if not e.args or pf.nsrc(e.args[0]) != self.tries:
            raise Decline(f'`{pf.nsrc(e)}`: first argument is not `{self.tries}`')
        if len(e.args) > len(mdl.positional):
            raise Decline(f'`{pf.nsrc(e)}`: more positional arguments than parameters')
        srcs: Dict[str, ast.AST] = dict(zip(mdl.positional[1:], e.args[1:]))
        for k in e.keywords:
            if k.arg is None or k.arg not in mdl.params[1:] or k.arg in srcs:
                raise Decline(f'`{pf.nsrc(e)}`: keyword `{k.arg}` is not a parameter of {self.delay_fn}')
            srcs[k.arg] = k.value
        avs = {p: self.eval(a, env, fn, offset, params_ext) for p, a in srcs.items()}
        for p, v in avs.items():
            if p not in mdl.extras and not (v.lo == v.hi and mdl.defaults.get(p) is not NONE and v.lo == mdl.defaults.get(p)):
                raise Decline(f'`{pf.nsrc(e)}`: `{p}` is not the default together with an optional parameter of {self.delay_fn} (not analysed)')
        notes: List[str] = []
        bound: Dict[str, object] = {}
        for p, v in avs.items():
            notes += v.notes
            want_unit = unit_of_name(p)
            if want_unit and v.unit and v.unit != want_unit:
                notes.append(f'`{p}` of {self.delay_fn} is in {want_unit} but `{pf.nsrc(srcs[p])[:60]}` is in {v.unit}')
            lo = -UNB if v.lo == -INF else math.floor(v.lo)
            hi = UNB if v.hi == INF else math.ceil(v.hi)
            bound[p] = absdom.Interval(lo, hi)
        rows = []
        try:
            for t in range(1, mdl.hi_try + 1):
                got, ok = mdl.run(t, bound)
                ref, _ = mdl.run(t, {})
                rows.append((t, got, ref, ok))
        except AnalysisError as ex:
            raise Decline(f'`{pf.nsrc(e)}`: {ex}')
        outside = [(t, g, r) for t, g, r, _ in rows if g.lo < r.lo or g.hi > r.hi]
        if not outside:
            if not mdl.exhaustive:
                raise Decline(f'`{pf.nsrc(e)}`: inside the documented band for the {len(rows)} try counts evaluated, but they are not exhaustive (no clamp on the exponent)')
            return AV(self.blo, self.bhi, 'ms', (Fraction(1), offset), origin=pf.nsrc(e), notes=notes)
        if not all(ok for _, _, _, ok in rows):
            raise Decline(f'`{pf.nsrc(e)}`: the result is only over-approximated (an undecided branch in {self.delay_fn}) and the over-approximation leaves the documented band: not decided')

        def show(x):
            return 'unbounded' if is_unb(x) else str(x)
        over = [(t, g, r) for t, g, r in outside if g.hi > r.hi]
        t, g, r = max(over, key=lambda x: x[1].hi - x[2].hi) if over else outside[0]
        if over:
            t = min(tt for tt, gg, rr in over if gg.hi - rr.hi == g.hi - r.hi)
            g, r = next((gg, rr) for tt, gg, rr in over if tt == t)
        culprits = [p for p in srcs if p in mdl.extras] or list(srcs)
        what = ', '.join(f'`{p}` = `{pf.nsrc(srcs[p])[:70]}` ranging over {avs[p].show()}' + (f' (from `{avs[p].origin[:60]}`)' if avs[p].ext and avs[p].origin else '') for p in culprits)
        descr = (f'{pf.nsrc(e)[:120]}: with {what}, {self.delay_fn} returns [{show(g.lo)}, {show(g.hi)}] ms for tries={t} where the documented band is [{r.lo}, {r.hi}] ms '
                 f'({len(outside)} of {len(rows)} try counts leave the band)')
        lo = min(g2.lo for _, g2, _, _ in rows)
        hi = max(g2.hi for _, g2, _, _ in rows)
        out = AV(-INF if is_unb(lo) else Fraction(lo), INF if is_unb(hi) else Fraction(hi), 'ms', None, any(v.ext for v in avs.values()), any(v.stale for v in avs.values()), descr, notes)
        if out.hi <= self.bhi:
            out.excursion = descr
        return out

    def bind_helper(self, e: ast.Call, env, fn, offset, params_ext):
        """(helper def, evaluator to use inside it, its environment, its external parameters) for a call of a module-level helper."""
        h = self.m.func(e.func.id)  # type: ignore[attr-defined]
        key = f'call:{h.name}'
        if key in self._stack or len(self._stack) > 12:
            raise Decline(f'recursive helper `{h.name}` in a delay expression')
        ps = [a.arg for a in h.args.args]
        if h.args.vararg or h.args.kwarg or len(e.args) > len(ps):
            raise Decline(f'`{pf.nsrc(e)}`: helper signature not understood')
        henv: Dict[str, AV] = {}
        hext: Set[str] = set()
        bound: Dict[str, ast.AST] = {}
        for p, a in zip(ps, e.args):
            bound[p] = a
        for k in e.keywords:
            if k.arg is None or k.arg not in ps:
                raise Decline(f'`{pf.nsrc(e)}`: helper keyword not understood')
            bound[k.arg] = k.value
        defaults = dict(zip(ps[len(ps) - len(h.args.defaults):], h.args.defaults))
        tries_param: Optional[str] = None
        for p in ps:
            if p in bound:
                src = bound[p]
                if isinstance(src, ast.Name) and src.id == self.tries:
                    tries_param = p
                    continue
                is_ext = isinstance(src, ast.Name) and (src.id in params_ext or (src.id in env and env[src.id].ext))
                if is_ext:
                    hext.add(p)
                    continue
                try:
                    henv[p] = self.eval(src, env, fn, offset, params_ext)
                except Decline:
                    pass  # left unbound: any use inside the helper declines
            elif p in defaults:
                try:
                    henv[p] = self.eval(defaults[p], {}, None, offset, set())
                    if henv[p].unit is None:
                        henv[p].unit = unit_of_name(p)
                except Decline:
                    pass
            else:
                raise Decline(f'`{pf.nsrc(e)}`: no value for parameter {p}')
        sub = self
        if tries_param is not None:
            sub = DelayEval(self.m, int(self.blo), int(self.bhi), self.delay_fn, tries_param, int(self.b1hi), int(self.base), model=self.model)
            sub._stack = self._stack
        return h, sub, henv, hext, key

    def _helper(self, e: ast.Call, env, fn, offset, params_ext) -> AV:
        h, sub, henv, hext, key = self.bind_helper(e, env, fn, offset, params_ext)
        self._stack.append(key)
        try:
            rets = [r for r in pf.walk_shallow(h) if isinstance(r, ast.Return)]
            if not rets:
                raise Decline(f'helper `{h.name}` returns nothing')
            vals = []
            for r in rets:
                if r.value is None:
                    raise Decline(f'helper `{h.name}` has a bare return')
                vals.append(sub.eval(r.value, henv, h, offset, hext))
            out = av_join(vals)
        finally:
            self._stack.pop()
        declared = unit_of_name(h.name)
        if declared and out.unit and declared != out.unit:
            out.notes.append(f'`{h.name}` is named as returning {declared} but its value `{out.origin}` is in {out.unit}')
        if declared and out.unit is None:
            out.unit = declared
        return out


# ------------------------------------------------------------------------------------------------
# lossless dataflow
# ------------------------------------------------------------------------------------------------

OK, LOSSY, UNKNOWN = 'ok', 'lossy', 'unknown'

_LOSSY_METHODS = {
    'strip': 'strips characters', 'lstrip': 'strips characters', 'rstrip': 'strips characters', 'replace': 'replaces content',
    'split': 'splits the value', 'rsplit': 'splits the value', 'splitlines': 'splits the value', 'partition': 'splits the value', 'rpartition': 'splits the value',
    'translate': 'rewrites characters', 'expandtabs': 'rewrites characters', 'removeprefix': 'removes content', 'removesuffix': 'removes content',
    'pop': 'removes an element', 'popitem': 'removes an element',
}
_CASE_METHODS = {'lower', 'upper', 'casefold', 'title', 'capitalize', 'swapcase'}
_LOSSY_FUNCS = {'textwrap.shorten': 'shortens the text', 'textwrap.wrap': 're-wraps the text', 'textwrap.fill': 're-wraps the text', 'shorten': 'shortens the text',
                'html.escape': 'rewrites characters', 're.sub': 'replaces content'}
_SOURCE_METHODS = {'read', 'text', 'json', 'get'}


class Flow:
    def __init__(self, kind: str, why: str):
        self.kind = kind
        self.why = why


def _worst(flows: Sequence[Flow]) -> Flow:
    for k in (LOSSY, UNKNOWN):
        for f in flows:
            if f.kind == k:
                return f
    return flows[0] if flows else Flow(OK, 'nothing')


class LosslessFlow:
    """Classifies how the value of an expression relates to the response data it is read from."""

    def __init__(self, m: pf.Module, case_sensitive: bool = True):
        self.m = m
        self.case_sensitive = case_sensitive
        self._stack: List[str] = []

    def classify(self, e: ast.AST, fn: Optional[pf.FuncDef], bound: Optional[Dict[str, Flow]] = None) -> Flow:
        bound = bound or {}
        if isinstance(e, ast.Await):
            if isinstance(e.value, ast.Call):
                return self._call(e.value, fn, bound, awaited=True)
            return self.classify(e.value, fn, bound)
        if isinstance(e, ast.Constant):
            return Flow(OK, 'constant')
        if isinstance(e, ast.Name):
            if e.id in bound:
                return bound[e.id]
            if fn is None:
                return Flow(UNKNOWN, f'`{e.id}` outside a function')
            defs = pf.assignments(fn).get(e.id)
            if not defs:
                return Flow(OK, f'`{e.id}` (free name)')
            key = f'{fn.name}.{e.id}'
            if key in self._stack:
                return Flow(UNKNOWN, f'`{e.id}` defined in terms of itself')
            self._stack.append(key)
            try:
                flows = []
                for d in defs:
                    if isinstance(d, ast.arg):
                        flows.append(Flow(OK, f'parameter `{e.id}`'))
                    elif isinstance(d, ast.expr):
                        f = self.classify(d, fn, bound)
                        flows.append(Flow(f.kind, f.why if f.kind == OK else f'`{e.id} = {pf.nsrc(d)[:80]}`: {f.why}'))
                    elif isinstance(d, (ast.For, ast.AsyncFor, ast.comprehension)):
                        flows.append(self.classify(d.iter, fn, bound))
                    elif isinstance(d, ast.AugAssign):
                        flows.append(Flow(UNKNOWN, f'`{pf.nsrc(d)}` modifies `{e.id}`'))
                    else:
                        flows.append(Flow(OK, f'`{e.id}` bound by {type(d).__name__}'))
                return _worst(flows)
            finally:
                self._stack.pop()
        if isinstance(e, ast.Attribute):
            return self.classify(e.value, fn, bound) if not isinstance(e.value, ast.Name) else self._name_or_obj(e.value, fn, bound)
        if isinstance(e, ast.Subscript):
            if isinstance(e.slice, ast.Slice) and e.slice.upper is None and e.slice.step is None and (
                    e.slice.lower is None or (isinstance(e.slice.lower, ast.Constant) and e.slice.lower.value == 0)):
                return self.classify(e.value, fn, bound)  # x[:] / x[0:] is a copy of the whole value
            if isinstance(e.slice, ast.Slice) or (isinstance(e.slice, ast.Tuple) and any(isinstance(x, ast.Slice) for x in e.slice.elts)):
                return Flow(LOSSY, f'`{pf.nsrc(e)}` keeps only a slice of the value (truncation)')
            return self.classify(e.value, fn, bound)
        if isinstance(e, ast.IfExp):
            return _worst([self.classify(e.body, fn, bound), self.classify(e.orelse, fn, bound)])
        if isinstance(e, ast.BoolOp):
            return _worst([self.classify(v, fn, bound) for v in e.values])
        if isinstance(e, (ast.BinOp, ast.JoinedStr, ast.FormattedValue)):
            parts = [x for x in ast.iter_child_nodes(e) if isinstance(x, ast.expr)]
            flows = [self.classify(x, fn, bound) for x in parts]
            lossy = [f for f in flows if f.kind == LOSSY]
            if lossy:
                return lossy[0]
            if isinstance(e, ast.BinOp) and isinstance(e.op, (ast.Mod, ast.FloorDiv)):
                return Flow(LOSSY, f'`{pf.nsrc(e)}` reduces the value arithmetically')
            return Flow(UNKNOWN, f'`{pf.nsrc(e)[:80]}` combines values')
        if isinstance(e, (ast.ListComp, ast.GeneratorExp, ast.SetComp)):
            if any(g.ifs for g in e.generators):
                return Flow(LOSSY, f'`{pf.nsrc(e)[:80]}` filters the elements')
            sub = dict(bound)
            flows = []
            for g in e.generators:
                f = self.classify(g.iter, fn, sub)
                flows.append(f)
                for x in ast.walk(g.target):
                    if isinstance(x, ast.Name):
                        sub[x.id] = f
            flows.append(self.classify(e.elt, fn, sub))
            return _worst(flows)
        if isinstance(e, ast.Call):
            return self._call(e, fn, bound)
        if isinstance(e, (ast.List, ast.Tuple, ast.Set)):
            return _worst([self.classify(x, fn, bound) for x in e.elts]) if e.elts else Flow(OK, 'empty literal')
        if isinstance(e, ast.Dict):
            return _worst([self.classify(x, fn, bound) for x in e.values if x is not None]) if e.values else Flow(OK, 'empty literal')
        return Flow(UNKNOWN, f'`{pf.nsrc(e)[:80]}`')

    def _name_or_obj(self, n: ast.Name, fn, bound) -> Flow:
        f = self.classify(n, fn, bound)
        return f

    def _call(self, e: ast.Call, fn, bound, awaited: bool = False) -> Flow:
        name = pf.dotted(e.func) or ''
        if name in _LOSSY_FUNCS:
            return Flow(LOSSY, f'`{pf.nsrc(e)[:80]}` {_LOSSY_FUNCS[name]}')
        if name in ('str', 'bytes', 'list', 'tuple', 'dict', 'int', 'repr') and len(e.args) == 1 and not e.keywords:
            return self.classify(e.args[0], fn, bound)
        if isinstance(e.func, ast.Attribute):
            meth = e.func.attr
            recv = self.classify(e.func.value, fn, bound)
            if meth in _LOSSY_METHODS:
                return Flow(LOSSY, f'`{pf.nsrc(e)[:80]}` {_LOSSY_METHODS[meth]}')
            if meth in _CASE_METHODS:
                if self.case_sensitive:
                    return Flow(LOSSY, f'`{pf.nsrc(e)[:80]}` folds the case while the classifier matches case-sensitively')
                return recv
            if meth in ('decode', 'encode', 'text'):
                errs = None
                for k in e.keywords:
                    if k.arg == 'errors':
                        errs = k.value
                if meth != 'text' and len(e.args) >= 2:
                    errs = e.args[1]
                if errs is not None:
                    if not (isinstance(errs, ast.Constant) and errs.value == 'strict'):
                        return Flow(LOSSY, f'`{pf.nsrc(e)[:80]}` decodes leniently (errors={pf.nsrc(errs)}): undecodable bytes are dropped or replaced')
                if meth == 'text':
                    return recv
                cod = e.args[0] if e.args else None
                for k in e.keywords:
                    if k.arg == 'encoding':
                        cod = k.value
                if cod is not None and not (isinstance(cod, ast.Constant) and str(cod.value).lower().replace('_', '-') in ('utf-8', 'utf8')):
                    return Flow(UNKNOWN, f'`{pf.nsrc(e)[:80]}`: codec is not the fixed utf-8')
                return recv
            if meth in ('read', 'readline', 'readany', 'readexactly', 'readchunk', 'readuntil') and (meth != 'read' or e.args or any(k.arg in ('n', 'size') for k in e.keywords)):
                if not (meth == 'read' and len(e.args) == 1 and isinstance(e.args[0], ast.UnaryOp) and pf.nsrc(e.args[0]) == '-1'):
                    return Flow(LOSSY, f'`{pf.nsrc(e)[:80]}` reads only part of the payload')
            if meth in _SOURCE_METHODS:
                return recv
            if awaited:
                return Flow(OK, f'`await {pf.nsrc(e)[:60]}`: value received from the peer')
            return Flow(UNKNOWN, f'`{pf.nsrc(e)[:80]}`: method `{meth}` is not in the lossless / lossy tables')
        if isinstance(e.func, ast.Name) and self.m.has_func(e.func.id):
            h = self.m.func(e.func.id)
            key = f'call:{h.name}'
            if key in self._stack or len(self._stack) > 10:
                return Flow(UNKNOWN, f'recursive helper `{h.name}`')
            ps = [a.arg for a in h.args.posonlyargs + h.args.args]
            if h.args.vararg or len(e.args) > len(ps):
                return Flow(UNKNOWN, f'`{pf.nsrc(e)[:80]}`: helper signature not understood')
            hb: Dict[str, Flow] = {}
            for p, a in zip(ps, e.args):
                hb[p] = self.classify(a, fn, bound)
            for k in e.keywords:
                if k.arg is None:
                    return Flow(UNKNOWN, f'`{pf.nsrc(e)[:80]}`: **kwargs')
                hb[k.arg] = self.classify(k.value, fn, bound)
            for a in h.args.posonlyargs + h.args.args + h.args.kwonlyargs:
                hb.setdefault(a.arg, Flow(OK, 'default'))
            rets = [r for r in pf.walk_shallow(h) if isinstance(r, ast.Return) and r.value is not None]
            if not rets:
                return Flow(UNKNOWN, f'helper `{h.name}` returns nothing')
            self._stack.append(key)
            try:
                flows = [self.classify(r.value, h, hb) for r in rets]
            finally:
                self._stack.pop()
            w = _worst(flows)
            return Flow(w.kind, w.why if w.kind == OK else f'helper `{h.name}`: {w.why}')
        if awaited:
            return Flow(OK, f'`await {pf.nsrc(e)[:60]}`: value received from the peer')
        return Flow(UNKNOWN, f'call `{pf.nsrc(e)[:80]}` is not in the lossless / lossy tables')


# ------------------------------------------------------------------------------------------------
# classifier reads / constructor sites
# ------------------------------------------------------------------------------------------------


def module_rel_of(dotted: str, root: str = 'hail/python') -> Optional[str]:
    """repo-relative file of the module part of a dotted class reference (`hailtop.httpx.ClientResponseError` -> hail/python/hailtop/httpx.py)."""
    import os
    from .common import repo_path
    parts = dotted.split('.')
    for cut in range(len(parts) - 1, 0, -1):
        rel = f'{root}/' + '/'.join(parts[:cut]) + '.py'
        if os.path.exists(repo_path(rel)):
            return rel
    return None


def classifier_reads(fn: pf.FuncDef) -> List[Tuple[str, str, ast.AST]]:
    """(class reference, attribute, node) for every `e.<attr>` read in a test (or the body it guards) that is conjoined with / nested under
    `isinstance(e, <class>)`; `e` is the first parameter of the classifier."""
    ev = fn.args.args[0].arg
    out: List[Tuple[str, str, ast.AST]] = []

    def isinstance_classes(test: ast.AST) -> List[str]:
        cs = []
        for c in ast.walk(test):
            if isinstance(c, ast.Call) and pf.dotted(c.func) == 'isinstance' and len(c.args) == 2 and isinstance(c.args[0], ast.Name) and c.args[0].id == ev:
                t = c.args[1]
                for x in (t.elts if isinstance(t, ast.Tuple) else [t]):
                    d = pf.dotted(x)
                    if d:
                        cs.append(d)
        return cs

    def attrs(node: ast.AST) -> List[ast.Attribute]:
        return [a for a in ast.walk(node) if isinstance(a, ast.Attribute) and isinstance(a.value, ast.Name) and a.value.id == ev and not a.attr.startswith('__')]

    def visit(stmts: Sequence[ast.stmt], under: List[str]):
        for st in stmts:
            if isinstance(st, ast.If):
                cs = isinstance_classes(st.test)
                for a in attrs(st.test):
                    for c in (cs or under):
                        out.append((c, a.attr, a))
                visit(st.body, under + cs)
                visit(st.orelse, under)
            else:
                for a in attrs(st):
                    for c in under:
                        out.append((c, a.attr, a))
    visit(fn.body, [])
    return out


def init_attr_sources(cls: ast.ClassDef) -> Tuple[Optional[pf.FuncDef], Dict[str, ast.expr], List[str], bool]:
    """(__init__, {attribute: assigned expression}, positional parameter names after self, has **kwargs)."""
    init = None
    for st in cls.body:
        if isinstance(st, ast.FunctionDef) and st.name == '__init__':
            init = st
    if init is None:
        return None, {}, [], False
    amap: Dict[str, ast.expr] = {}
    for n in ast.walk(init):
        if isinstance(n, ast.Assign) and len(n.targets) == 1 and isinstance(n.targets[0], ast.Attribute) and isinstance(n.targets[0].value, ast.Name) \
                and n.targets[0].value.id == init.args.args[0].arg:
            amap[n.targets[0].attr] = n.value
    return init, amap, [a.arg for a in init.args.args[1:]], init.args.kwarg is not None


# ------------------------------------------------------------------------------------------------
# implication between classifiers over a finite abstract domain
# ------------------------------------------------------------------------------------------------


def int_set_of(m: pf.Module, name: str) -> Optional[Set[int]]:
    """Members of a module-level set/tuple/list literal of ints, minus everything a later `<name>.remove/discard(<int>)` may take out."""
    try:
        v = m.global_assign(name)
    except AnalysisError:
        return None
    if not isinstance(v, (ast.Set, ast.Tuple, ast.List)) or not all(isinstance(x, ast.Constant) and isinstance(x.value, int) for x in v.elts):
        return None
    out = {x.value for x in v.elts}  # type: ignore[attr-defined]
    for c in ast.walk(m.tree):
        if isinstance(c, ast.Call) and pf.dotted(c.func) in (f'{name}.remove', f'{name}.discard') and len(c.args) == 1:
            if isinstance(c.args[0], ast.Constant):
                out.discard(c.args[0].value)
            else:
                return None
        if isinstance(c, ast.Call) and pf.dotted(c.func) in (f'{name}.clear', f'{name}.difference_update', f'{name}.intersection_update', f'{name}.pop'):
            return None
    return out


def product(domains: Dict[str, Sequence]) -> Iterable[Dict[str, object]]:
    keys = list(domains)
    for combo in itertools.product(*[domains[k] for k in keys]):
        yield dict(zip(keys, combo))


# ------------------------------------------------------------------------------------------------
# integer intervals with the int methods the back-off arithmetic uses, and symbolic upper bounds
# ------------------------------------------------------------------------------------------------


def eval_int_interval(e: ast.AST, env: Dict[str, 'absdom.Interval']) -> 'absdom.Interval':
    """Interval semantics of non-negative integer expressions: everything engines/absdom.eval_interval knows (+ - * // << ** min max
    randrange randint int) plus the monotone int operations `x.bit_length()` / `int.bit_length(x)`, `x >> k`, `abs(x)` and `max`/`min`
    of any arity.  Every operator is evaluated at the corners of its operand intervals (all are monotone on non-negative operands)."""
    from . import absdom
    I = absdom.Interval
    if isinstance(e, ast.Call):
        f = e.func
        if isinstance(f, ast.Attribute) and f.attr == 'bit_length' and not e.keywords:
            recv = None
            if not e.args and pf.dotted(f) != 'int.bit_length':
                recv = f.value
            elif len(e.args) == 1 and pf.dotted(f) == 'int.bit_length':
                recv = e.args[0]
            if recv is not None:
                v = eval_int_interval(recv, env)
                if v.lo < 0:
                    raise AnalysisError('interval evaluation: bit_length of a possibly negative value')
                return I(v.lo.bit_length(), v.hi.bit_length())
        name = pf.dotted(f) or ''
        if name in ('min', 'max') and len(e.args) >= 2 and not e.keywords:
            args = [eval_int_interval(a, env) for a in e.args]
            pick = min if name == 'min' else max
            return I(pick(a.lo for a in args), pick(a.hi for a in args))
        if name in ('random.randrange', 'randrange') and len(e.args) == 1 and not e.keywords:
            a = eval_int_interval(e.args[0], env)
            if a.lo < 1:
                raise AnalysisError('interval evaluation: randrange of a possibly non-positive bound')
            return I(0, a.hi - 1)
        if name in ('random.randint', 'randint') and len(e.args) == 2 and not e.keywords:
            a, b = eval_int_interval(e.args[0], env), eval_int_interval(e.args[1], env)
            return I(a.lo, b.hi)
        if name in ('int', 'abs') and len(e.args) == 1 and not e.keywords:
            a = eval_int_interval(e.args[0], env)
            if name == 'abs' and a.lo < 0:
                raise AnalysisError('interval evaluation: abs of a possibly negative value')
            return a
        raise AnalysisError(f'interval evaluation: unsupported call {pf.nsrc(f)}')
    if isinstance(e, ast.BinOp):
        a = eval_int_interval(e.left, env)
        b = eval_int_interval(e.right, env)
        if isinstance(e.op, ast.RShift):
            if b.lo < 0 or b.hi > 4096 or a.lo < 0:
                raise AnalysisError('interval evaluation: shift out of range')
            return I(a.lo >> b.hi, a.hi >> b.lo)
        # re-use the shared evaluator on the operand intervals
        tmp = {'__a': a, '__b': b}
        return absdom.eval_interval(ast.BinOp(left=ast.Name(id='__a', ctx=ast.Load()), op=e.op, right=ast.Name(id='__b', ctx=ast.Load())), tmp)
    if isinstance(e, ast.IfExp):
        raise AnalysisError(f'interval evaluation: conditional expression `{pf.nsrc(e)}`')
    return absdom.eval_interval(e, env)


def eval_straightline_int(fn: ast.FunctionDef, env: Dict[str, 'absdom.Interval']) -> 'absdom.Interval':
    """A function whose body is assignments followed by one return, evaluated with eval_int_interval."""
    env = dict(env)
    for st in fn.body:
        if isinstance(st, ast.Expr) and isinstance(st.value, ast.Constant):
            continue
        if isinstance(st, ast.Assign) and len(st.targets) == 1 and isinstance(st.targets[0], ast.Name):
            env[st.targets[0].id] = eval_int_interval(st.value, env)
        elif isinstance(st, ast.AnnAssign) and isinstance(st.target, ast.Name) and st.value is not None:
            env[st.target.id] = eval_int_interval(st.value, env)
        elif isinstance(st, ast.Return) and st.value is not None:
            return eval_int_interval(st.value, env)
        else:
            raise AnalysisError(f'{fn.name}: not straight-line (line {st.lineno}: {type(st).__name__})')
    raise AnalysisError(f'{fn.name}: no return')


class UB:
    """A symbolic upper bound  sum(coef[atom] * atom) + const  over atoms that denote non-negative quantities (source texts)."""
    __slots__ = ('coef', 'const')

    def __init__(self, coef: Optional[Dict[str, Fraction]] = None, const: Fraction = Fraction(0)):
        self.coef = {k: Fraction(v) for k, v in (coef or {}).items() if v != 0}
        self.const = Fraction(const)

    def __add__(self, o: 'UB') -> 'UB':
        c = dict(self.coef)
        for k, v in o.coef.items():
            c[k] = c.get(k, Fraction(0)) + v
        return UB(c, self.const + o.const)

    def scale(self, k: Fraction) -> 'UB':
        return UB({a: v * k for a, v in self.coef.items()}, self.const * k)

    def key(self) -> Tuple:
        return (tuple(sorted(self.coef.items())), self.const)

    def below(self, atom: str) -> bool:
        """Is this bound <= atom for every non-negative valuation?"""
        return self.const <= 0 and all(v <= 0 or (a == atom and v <= 1) for a, v in self.coef.items())

    def show(self) -> str:
        parts = [(f'{v}*' if v != 1 else '') + a for a, v in sorted(self.coef.items())]
        if self.const or not parts:
            parts.append(str(self.const))
        return ' + '.join(parts)


def upper_bounds(fn: pf.FuncDef, e: ast.AST, depth: int = 8, limit: int = 64) -> List[UB]:
    """Symbolic upper bounds of a NON-NEGATIVE numeric expression of `fn`, each valid for every value of the parameters:
         x                     <= x                      and <= every bound of its single local definition
         min(a, b, ..)         <= every bound of every argument
         max(a, b, ..)         <= a bound of one argument that dominates some bound of every other argument
         a // k, a / k, a >> k <= bounds(a) / k          (k a positive constant; `>> k` divides by 2**k)
         a * k                 <= bounds(a) * k
         a + b                 <= bound(a) + bound(b)
         randrange(n)          <= bounds(n) - 1          randint(a, b) / uniform(a, b) <= bounds(b)      random() * x <= bounds(x)
         int(x), floor(x)      <= bounds(x)              round(x), ceil(x) <= bounds(x) + 1
       anything else is its own atom.  The derivation only ever weakens (every listed form IS an upper bound), so
       `any(b.below('max_delay_ms'))` is a proof that the value never exceeds the parameter."""
    params = {a.arg for a in fn.args.posonlyargs + fn.args.args + fn.args.kwonlyargs}

    def const_of(x: ast.AST) -> Optional[Fraction]:
        if isinstance(x, ast.Constant) and isinstance(x.value, (int, float)) and not isinstance(x.value, bool):
            return Fraction(str(x.value))
        return None

    def dedupe(bs: List[UB]) -> List[UB]:
        seen = {}
        for b in bs:
            seen.setdefault(b.key(), b)
        return list(seen.values())[:limit]

    def go(x: ast.AST, d: int) -> List[UB]:
        own = UB({pf.nsrc(x): Fraction(1)})
        c = const_of(x)
        if c is not None:
            return [UB({}, c)]
        if d <= 0:
            return [own]
        if isinstance(x, ast.Name):
            out = [own]
            if x.id not in params:
                dd = pf.single_def(fn, x.id)
                if isinstance(dd, ast.expr):
                    out += go(dd, d - 1)
            return dedupe(out)
        if isinstance(x, ast.Call) and not x.keywords:
            name = pf.dotted(x.func) or ''
            if name == 'min' and len(x.args) >= 2:
                return dedupe([b for a in x.args for b in go(a, d - 1)])
            if name == 'max' and len(x.args) >= 2:
                per = [go(a, d - 1) for a in x.args]

                def dominates(big: UB, small: UB) -> bool:  # small <= big for every non-negative valuation of the atoms
                    return small.const <= big.const and all(v <= big.coef.get(a, Fraction(0)) for a, v in small.coef.items()) \
                        and all(v >= 0 for a, v in big.coef.items() if a not in small.coef)
                shared = [b for i, bs in enumerate(per) for b in bs if all(any(dominates(b, o) for o in other) for j, other in enumerate(per) if j != i)]
                return dedupe(shared + [own])
            if name in ('random.randrange', 'randrange') and len(x.args) == 1:
                return dedupe([b + UB({}, Fraction(-1)) for b in go(x.args[0], d - 1)] + [own])
            if name in ('random.randint', 'randint', 'random.uniform', 'uniform') and len(x.args) == 2:
                return dedupe(go(x.args[1], d - 1) + [own])
            if name in ('int', 'float', 'math.floor', 'floor') and len(x.args) == 1:
                return dedupe(go(x.args[0], d - 1) + [own])
            if name in ('round', 'math.ceil', 'ceil') and len(x.args) == 1:
                return dedupe([b + UB({}, Fraction(1)) for b in go(x.args[0], d - 1)] + [own])
            return [own]
        if isinstance(x, ast.BinOp):
            if isinstance(x.op, (ast.FloorDiv, ast.Div, ast.RShift)):
                k = const_of(x.right)
                if k is not None and k > 0 and (not isinstance(x.op, ast.RShift) or k.denominator == 1 and k <= 64):
                    div = Fraction(2) ** int(k) if isinstance(x.op, ast.RShift) else k
                    return dedupe([b.scale(1 / div) for b in go(x.left, d - 1)] + [own])
                return [own]
            if isinstance(x.op, ast.Mult):
                for a, b in ((x.left, x.right), (x.right, x.left)):
                    k = const_of(b)
                    if k is not None and k >= 0:
                        return dedupe([u.scale(k) for u in go(a, d - 1)] + [own])
                    if isinstance(b, ast.Call) and pf.dotted(b.func) in ('random.random',) and not b.args:
                        return dedupe(go(a, d - 1) + [own])
                return [own]
            if isinstance(x.op, ast.Add):
                ls, rs = go(x.left, d - 1), go(x.right, d - 1)
                return dedupe([a + b for a in ls for b in rs] + [own])
            return [own]
        return [own]
    return go(e, depth)


def depends_on(fn: pf.FuncDef, e: ast.AST, name: str) -> bool:
    """Does the value of `e` depend (through local definitions of fn, transitively) on the name `name`?"""
    seen: Set[str] = set()
    todo = [e]
    while todo:
        x = todo.pop()
        for n in ast.walk(x):
            if isinstance(n, ast.Name) and isinstance(n.ctx, ast.Load):
                if n.id == name:
                    return True
                if n.id not in seen:
                    seen.add(n.id)
                    for d in pf.assignments(fn).get(n.id, []):
                        todo.append(d)
    return False


# ------------------------------------------------------------------------------------------------
# the back-off function as a model: interval evaluation of its body for every try count, with extra (optional) parameters bound to the
# abstract values a call site passes (a floor, an additive extra, a scale ...)
# ------------------------------------------------------------------------------------------------

UNB = 1 << 200  # "no finite bound" inside integer interval arithmetic: every operator evaluated is monotone, a corner this large can only stem from it
NONE = object()  # value of a parameter whose default is None (only `is None` / `is not None` tests may look at it)


def is_unb(x) -> bool:
    return abs(x) >= (UNB >> 90)


def _narrow(test: ast.AST, env: Dict[str, object], exact: Set[str]):
    """(env if the test holds | None when it cannot, env if it fails | None when it cannot, exact?) for the tests understood:
    `p is None`, `p is not None`, truth of a name, one comparison `name <op> expr` / `expr <op> name` (interval narrowing of the name)."""
    from . import absdom
    I = absdom.Interval
    if isinstance(test, ast.UnaryOp) and isinstance(test.op, ast.Not):
        t, f, ex = _narrow(test.operand, env, exact)
        return f, t, ex
    if isinstance(test, ast.Compare) and len(test.ops) == 1 and isinstance(test.ops[0], (ast.Is, ast.IsNot)) and isinstance(test.left, ast.Name) \
            and isinstance(test.comparators[0], ast.Constant) and test.comparators[0].value is None and test.left.id in env:
        is_none = env[test.left.id] is NONE
        holds = is_none if isinstance(test.ops[0], ast.Is) else not is_none
        return (env if holds else None), (None if holds else env), True
    if isinstance(test, ast.Name) and test.id in env:
        v = env[test.id]
        if v is NONE:
            return None, env, True
        if isinstance(v, I) and v.lo >= 0:
            t_env = dict(env, **{test.id: I(max(v.lo, 1), v.hi)}) if v.hi >= 1 else None
            f_env = dict(env, **{test.id: I(0, 0)}) if v.lo <= 0 else None
            return t_env, f_env, test.id in exact
    if isinstance(test, ast.Compare) and len(test.ops) == 1 and isinstance(test.ops[0], (ast.Lt, ast.LtE, ast.Gt, ast.GtE)):
        op = type(test.ops[0])
        flip = {ast.Lt: ast.Gt, ast.LtE: ast.GtE, ast.Gt: ast.Lt, ast.GtE: ast.LtE}
        for name_side, other, o in ((test.left, test.comparators[0], op), (test.comparators[0], test.left, flip[op])):
            if not (isinstance(name_side, ast.Name) and isinstance(env.get(name_side.id), I)):
                continue
            if any(isinstance(x, ast.Name) and x.id == name_side.id for x in ast.walk(other)):
                continue
            n = env[name_side.id]
            r = eval_int_interval(other, {k: v for k, v in env.items() if isinstance(v, I)})
            # name o other
            if o is ast.Gt:
                t_rng, f_rng = (max(n.lo, r.lo + 1), n.hi), (n.lo, min(n.hi, r.hi))
            elif o is ast.GtE:
                t_rng, f_rng = (max(n.lo, r.lo), n.hi), (n.lo, min(n.hi, r.hi - 1))
            elif o is ast.Lt:
                t_rng, f_rng = (n.lo, min(n.hi, r.hi - 1)), (max(n.lo, r.lo), n.hi)
            else:
                t_rng, f_rng = (n.lo, min(n.hi, r.hi)), (max(n.lo, r.lo + 1), n.hi)
            t_env = dict(env, **{name_side.id: I(*t_rng)}) if t_rng[0] <= t_rng[1] else None
            f_env = dict(env, **{name_side.id: I(*f_rng)}) if f_rng[0] <= f_rng[1] else None
            return t_env, f_env, name_side.id in exact
    return env, env, False


def eval_body_int(stmts: Sequence[ast.stmt], env: Dict[str, object], exact: Set[str]):
    """Interval evaluation of a loop-free body of assignments, returns and `if`s.  -> (hull of the returned values | None, environment at
    the end | None when every path returned, exact?).  `exact` = names that are independent inputs: narrowing one of them by a single
    comparison loses nothing, so both arms are really attainable; any other undecided test makes the result an over-approximation."""
    from . import absdom
    I = absdom.Interval
    env = dict(env)
    ret = None
    ok = True

    def num(e):
        for x in ast.walk(e):
            if isinstance(x, ast.Name) and env.get(x.id) is NONE:
                raise AnalysisError(f'interval evaluation: `{x.id}` may be None in `{pf.nsrc(e)}`')
        return eval_int_interval(e, {k: v for k, v in env.items() if isinstance(v, I)})

    def hull(a, b):
        if a is None:
            return b
        if b is None:
            return a
        return I(min(a.lo, b.lo), max(a.hi, b.hi))

    for st in stmts:
        if isinstance(st, ast.Expr) and isinstance(st.value, ast.Constant):
            continue
        if isinstance(st, ast.Pass):
            continue
        if isinstance(st, ast.Assign) and len(st.targets) == 1 and isinstance(st.targets[0], ast.Name):
            env[st.targets[0].id] = num(st.value)
        elif isinstance(st, ast.AnnAssign) and isinstance(st.target, ast.Name) and st.value is not None:
            env[st.target.id] = num(st.value)
        elif isinstance(st, ast.Return) and st.value is not None:
            return hull(ret, num(st.value)), None, ok
        elif isinstance(st, ast.If):
            t_env, f_env, ex = _narrow(st.test, env, exact)
            if t_env is not None and f_env is not None and not ex:
                ok = False
            outs = []
            for benv, body in ((t_env, st.body), (f_env, st.orelse)):
                if benv is None:
                    continue
                r, e2, ex2 = eval_body_int(body, benv, exact)
                ok = ok and ex2
                ret = hull(ret, r)
                if e2 is not None:
                    outs.append(e2)
            if not outs:
                return ret, None, ok
            merged: Dict[str, object] = {}
            for k in outs[0]:
                vals = [o.get(k) for o in outs]
                if all(isinstance(v, I) for v in vals):
                    merged[k] = I(min(v.lo for v in vals), max(v.hi for v in vals))  # type: ignore[union-attr]
                elif all(v is NONE for v in vals):
                    merged[k] = NONE
            env = merged
        else:
            raise AnalysisError(f'interval evaluation: statement `{pf.nsrc(st)[:60]}` (line {st.lineno}: {type(st).__name__}) is not an assignment / return / if')
    return ret, env, ok


class DelayModel:
    """delay_ms_for_try as decided by R3: its definition, the module constants it uses, the default of every parameter but `tries`
    (int, or NONE), and the try counts 1..hi_try that are exhaustive thanks to the clamp on the exponent."""

    def __init__(self, fn: pf.FuncDef, consts: Dict[str, int], defaults: Dict[str, object], hi_try: int, known: Sequence[str] = ('base_delay_ms', 'max_delay_ms'),
                 exhaustive: bool = True):
        self.fn = fn
        self.exhaustive = exhaustive  # the try counts 1..hi_try cover every behaviour of the function (the exponent is clamped below hi_try)
        self.consts = dict(consts)
        self.defaults = dict(defaults)
        self.hi_try = hi_try
        self.params = [a.arg for a in fn.args.posonlyargs + fn.args.args + fn.args.kwonlyargs]
        self.positional = [a.arg for a in fn.args.posonlyargs + fn.args.args]
        self.extras = [p for p in self.params[1:] if p not in known]

    def run(self, t: int, bound: Dict[str, object]):
        """(interval of the result for try count t with the given parameter values, exact?)"""
        from . import absdom
        I = absdom.Interval
        env: Dict[str, object] = {k: I(v, v) for k, v in self.consts.items()}
        for p, d in self.defaults.items():
            env[p] = d if d is NONE else I(d, d)  # type: ignore[arg-type]
        env.update(bound)
        env[self.params[0]] = I(t, t)
        ret, rest, ok = eval_body_int(self.fn.body, env, set(self.extras))
        if ret is None or rest is not None:
            raise AnalysisError(f'{self.fn.name}: some path does not return a value')
        return ret, ok
