"""C23 facts (static; nothing is imported or run).

Part A - buffer accounting of buffered stream readers
    For a class with a read path (`read` / `readinto` / `readexactly` ... and the `self.*` helpers they call) every byte buffer
    field B that is sliced there is analysed.  The representation of "unconsumed bytes" is derived from the consumption statements:
        reslice : consumed bytes are dropped from the buffer (`B = B[k:]`, `del B[:k]`);      unconsumed = len(B)
        cursor  : a position field P is advanced (`P += k`);                                  unconsumed = len(B) - P
    and every use is compared with that one representation in linear normal form (engines/linform): the counts compared with a
    requested size (refill tests, caps), the slices handed out, the consumption amounts, and the pairing of buffer replacement with
    cursor reset.  A use written in the other representation is the violation.  Shapes outside the recognised idioms -> AnalysisError.

Part B - delivery of a request attribute along a call chain
    `Delivery` follows one entry of a keyword-argument dict (e.g. kwargs['headers'] carrying 'Range', or the keyword Range=) from a
    call site through every function that may be called (class hierarchy + attribute types from __init__ annotations / constructors,
    higher-order combinators that call a function parameter with *args/**kwargs, nested closures) down to the first call whose
    receiver is not defined in the analysed packages (the request primitive).  It is an abstract execution over alias groups:
    locations (local names, dict[key] slots) -> object group, groups are live (still carry the datum) or dead (replaced / the inner
    key overwritten or removed), with case splits on the tests it can decide from the presence facts.  It reports the statements
    that replace or drop the container before the primitive is reached.

Part C - the Range a back end sends when it is assembled out of sight of the request call (`RangeExec`, see the comment there)
"""
from __future__ import annotations

import ast
import copy
from typing import Dict, FrozenSet, List, Optional, Sequence, Set, Tuple, Union

from . import linform, pyfacts as pf
from .common import AnalysisError

# =================================================================================================
# Part A: buffer accounting
# =================================================================================================

READ_ENTRY = ('read', 'readinto', 'readexactly', 'read1', 'readall', 'readline', 'readlines', 'readuntil', 'readany', 'peek')
_WRAPPERS = ('bytes', 'bytearray', 'memoryview')


class BufCheck:
    """Outcome of one role of one buffer: ok True / False; message for False; line."""

    def __init__(self, role: str, ok: bool, message: str = '', line: int = 0, detail: str = ''):
        self.role, self.ok, self.message, self.line, self.detail = role, ok, message, line, detail


class BufReport:
    def __init__(self, cls: str, buf: str, cursor: Optional[str], rep: str, methods: List[str]):
        self.cls, self.buf, self.cursor, self.rep, self.methods = cls, buf, cursor, rep, methods
        self.checks: List[BufCheck] = []
        self.declined: List[str] = []  # roles that could not be decided (raise unless another role established a violation)


def _methods(cls: ast.ClassDef) -> Dict[str, pf.FuncDef]:
    return {st.name: st for st in cls.body if isinstance(st, (ast.FunctionDef, ast.AsyncFunctionDef))}


def read_path(cls: ast.ClassDef) -> List[pf.FuncDef]:
    ms = _methods(cls)
    todo = [n for n in ms if n in READ_ENTRY]
    seen: List[str] = []
    while todo:
        n = todo.pop()
        if n in seen or n not in ms:
            continue
        seen.append(n)
        for x in ast.walk(ms[n]):  # called, or handed to an executor / combinator
            if isinstance(x, ast.Attribute) and isinstance(x.ctx, ast.Load) and isinstance(x.value, ast.Name) and x.value.id == 'self' and x.attr in ms:
                todo.append(x.attr)
    return [ms[n] for n in sorted(seen)]


def _is_self_attr(e: ast.AST) -> bool:
    return isinstance(e, ast.Attribute) and isinstance(e.value, ast.Name) and e.value.id == 'self'


def _strip(e: ast.AST) -> ast.AST:
    """bytes(x) / bytearray(x) / memoryview(x) / await x -> x (same content)."""
    while True:
        if isinstance(e, ast.Await):
            e = e.value
        elif isinstance(e, ast.Call) and isinstance(e.func, ast.Name) and e.func.id in _WRAPPERS and len(e.args) == 1 and not e.keywords:
            e = e.args[0]
        else:
            return e


class _Canon(ast.NodeTransformer):
    """alias names -> the buffer attribute; memoryview(B) -> B."""

    def __init__(self, btxt: str, aliases: Set[str]):
        self.btxt, self.aliases = btxt, aliases

    def visit_Name(self, node: ast.Name):
        if node.id in self.aliases and isinstance(node.ctx, ast.Load):
            return ast.parse(self.btxt, mode='eval').body
        return node

    def visit_Call(self, node: ast.Call):
        node = self.generic_visit(node)  # type: ignore[assignment]
        if isinstance(node.func, ast.Name) and node.func.id == 'memoryview' and len(node.args) == 1 and pf.nsrc(node.args[0]) == self.btxt:
            return node.args[0]
        return node


def _aliases(fn: pf.FuncDef, btxt: str) -> Set[str]:
    out: Set[str] = set()
    for n in ast.walk(fn):
        if isinstance(n, ast.Assign) and len(n.targets) == 1 and isinstance(n.targets[0], ast.Name):
            v = n.value
            if pf.nsrc(_strip_view(v)) == btxt:
                out.add(n.targets[0].id)
        elif isinstance(n, (ast.With, ast.AsyncWith)):
            for it in n.items:
                if isinstance(it.optional_vars, ast.Name) and pf.nsrc(_strip_view(it.context_expr)) == btxt:
                    out.add(it.optional_vars.id)
    # an alias must have no other binding
    for name in list(out):
        defs = pf.assignments(fn).get(name, [])
        if len(defs) > 1:
            raise AnalysisError(f'{fn.name}: local `{name}` aliases {btxt} and is rebound')
    return out


def _strip_view(e: ast.AST) -> ast.AST:
    if isinstance(e, ast.Call) and isinstance(e.func, ast.Name) and e.func.id == 'memoryview' and len(e.args) == 1 and not e.keywords:
        return e.args[0]
    return e


def buffer_fields(cls: ast.ClassDef) -> List[str]:
    """self attributes that are sliced (loaded) or prefix-dropped on the read path."""
    out: List[str] = []
    for fn in read_path(cls):
        al: Dict[str, str] = {}
        for n in ast.walk(fn):
            if isinstance(n, ast.Assign) and len(n.targets) == 1 and isinstance(n.targets[0], ast.Name) and _is_self_attr(_strip_view(n.value)):
                al[n.targets[0].id] = pf.nsrc(_strip_view(n.value))
            elif isinstance(n, (ast.With, ast.AsyncWith)):
                for it in n.items:
                    if isinstance(it.optional_vars, ast.Name) and _is_self_attr(_strip_view(it.context_expr)):
                        al[it.optional_vars.id] = pf.nsrc(_strip_view(it.context_expr))
        for n in ast.walk(fn):
            if isinstance(n, ast.Subscript) and isinstance(n.slice, ast.Slice):
                base = n.value
                t = pf.nsrc(base) if _is_self_attr(base) else (al.get(base.id) if isinstance(base, ast.Name) else None)
                if t is not None and isinstance(n.ctx, (ast.Load, ast.Del)) and t not in out:
                    out.append(t)
    return sorted(out)


class _Site:
    def __init__(self, kind: str, st: ast.stmt, fn: pf.FuncDef, block: Sequence[ast.stmt], amount: Optional[ast.AST] = None, value: Optional[ast.AST] = None):
        self.kind, self.st, self.fn, self.block, self.amount, self.value = kind, st, fn, block, amount, value


def _blocks(fn: pf.FuncDef):
    """Every statement list of fn (not of nested defs) with its statements."""
    out: List[Sequence[ast.stmt]] = []

    def rec(stmts: Sequence[ast.stmt]):
        out.append(stmts)
        for st in stmts:
            if isinstance(st, (ast.FunctionDef, ast.AsyncFunctionDef, ast.ClassDef)):
                continue
            for f in ('body', 'orelse', 'finalbody'):
                sub = getattr(st, f, None)
                if isinstance(sub, list) and sub and isinstance(sub[0], ast.stmt):
                    rec(sub)
            for h in getattr(st, 'handlers', []) or []:
                rec(h.body)
            if hasattr(ast, 'Match') and isinstance(st, ast.Match):
                for c in st.cases:
                    rec(c.body)
    rec(fn.body)
    return out


def _untuple(st: ast.stmt) -> List[ast.stmt]:
    """`a, b = x, y` -> `a = x`, `b = y` (the right-hand sides here are evaluated before any store, which does not matter for the classification)."""
    if isinstance(st, ast.Assign) and len(st.targets) == 1 and isinstance(st.targets[0], (ast.Tuple, ast.List)) and isinstance(st.value, (ast.Tuple, ast.List)) \
            and len(st.targets[0].elts) == len(st.value.elts) and not any(isinstance(x, ast.Starred) for x in st.targets[0].elts + st.value.elts):
        return [ast.copy_location(ast.Assign(targets=[t], value=v), st) for t, v in zip(st.targets[0].elts, st.value.elts)]
    return [st]


def _lin(e: Optional[ast.AST], fn: pf.FuncDef, canon: _Canon) -> linform.Lin:
    if e is None:
        return linform.const(0)
    e2 = canon.visit(copy.deepcopy(pf.expand_locals(fn, e)))
    return linform.lin(e2)


def analyse_buffer(rel: str, cls: ast.ClassDef, btxt: str) -> Optional[BufReport]:
    """None when the field is not consumed like a read buffer (nothing handed out, nothing consumed)."""
    where = f'{rel}::{cls.name}'
    fns = read_path(cls)
    lbkey = f'len({btxt})'
    sites: List[_Site] = []
    handouts: List[Tuple[pf.FuncDef, ast.Subscript]] = []
    canon_of: Dict[str, _Canon] = {}
    skip_nodes: Set[int] = set()
    int_attr_stores: Dict[str, List[Tuple[pf.FuncDef, ast.stmt, Sequence[ast.stmt]]]] = {}

    for fn in fns:
        canon = _Canon(btxt, _aliases(fn, btxt))
        canon_of[fn.name] = canon

        def cn(e: ast.AST) -> ast.AST:
            return canon.visit(copy.deepcopy(e))

        for block in _blocks(fn):
            for st in [x for st0 in block for x in _untuple(st0)]:
                if isinstance(st, (ast.Assign, ast.AnnAssign, ast.AugAssign)):
                    tgts = st.targets if isinstance(st, ast.Assign) else [st.target]
                    flat = [x for t in tgts for x in (t.elts if isinstance(t, (ast.Tuple, ast.List)) else [t])]
                    if any(pf.nsrc(t) == btxt for t in flat):
                        if len(flat) != 1 or getattr(st, 'value', None) is None:
                            raise AnalysisError(f'{where}.{fn.name}: `{pf.nsrc(st)}` binds {btxt} in a way that is not analysed')
                        if isinstance(st, ast.AugAssign):
                            if isinstance(st.op, ast.Add):
                                sites.append(_Site('append', st, fn, block))
                                continue
                            raise AnalysisError(f'{where}.{fn.name}: `{pf.nsrc(st)}` not recognised')
                        v = _strip(cn(st.value))
                        if isinstance(v, ast.Subscript) and pf.nsrc(v.value) == btxt and isinstance(v.slice, ast.Slice):
                            if v.slice.upper is None and v.slice.step is None and v.slice.lower is not None:
                                sites.append(_Site('drop', st, fn, block, amount=v.slice.lower))
                                skip_nodes.add(id(st))
                                continue
                            raise AnalysisError(f'{where}.{fn.name}: `{pf.nsrc(st)}` keeps a bounded part of the buffer: not analysed')
                        if pf.nsrc(v) == btxt:
                            continue  # re-wrapped, same content
                        if isinstance(v, ast.BinOp) and isinstance(v.op, ast.Add) and pf.nsrc(_strip(v.left)) == btxt:
                            sites.append(_Site('append', st, fn, block))
                            continue
                        if btxt not in pf.nsrc(v):
                            sites.append(_Site('replace', st, fn, block, value=v))
                            continue
                        raise AnalysisError(f'{where}.{fn.name}: `{pf.nsrc(st)}` not recognised')
                    for t in flat:
                        if _is_self_attr(t) and pf.nsrc(t) != btxt:
                            int_attr_stores.setdefault(pf.nsrc(t), []).append((fn, st, block))
                elif isinstance(st, ast.Delete):
                    for t in st.targets:
                        tt = cn(t)
                        if isinstance(tt, ast.Subscript) and pf.nsrc(tt.value) == btxt:
                            sl = tt.slice
                            if isinstance(sl, ast.Slice) and sl.step is None and sl.upper is not None and (sl.lower is None or pf.nsrc(sl.lower) == '0'):
                                sites.append(_Site('drop', st, fn, block, amount=sl.upper))
                                skip_nodes.add(id(st))
                            else:
                                raise AnalysisError(f'{where}.{fn.name}: `{pf.nsrc(st)}` not recognised')
                elif isinstance(st, ast.Expr):
                    v = st.value.value if isinstance(st.value, ast.Await) else st.value
                    if isinstance(v, ast.Call) and isinstance(v.func, ast.Attribute) and pf.nsrc(cn(v.func.value)) == btxt:
                        if v.func.attr in ('extend', 'append'):
                            sites.append(_Site('append', st, fn, block))
                        elif v.func.attr == 'clear':
                            sites.append(_Site('replace', st, fn, block, value=ast.Constant(value=b'')))
                        elif v.func.attr not in ('release', 'tobytes', 'hex', 'find', 'index', 'startswith', 'endswith'):
                            raise AnalysisError(f'{where}.{fn.name}: `{pf.nsrc(st)}` not recognised')
        # slices handed out
        for n in ast.walk(fn):
            if isinstance(n, ast.Subscript) and isinstance(n.slice, ast.Slice) and isinstance(n.ctx, ast.Load) and pf.nsrc(cn(n.value)) == btxt:
                handouts.append((fn, n))
            elif isinstance(n, ast.Subscript) and isinstance(n.ctx, ast.Store) and pf.nsrc(cn(n.value)) == btxt:
                raise AnalysisError(f'{where}.{fn.name}: the buffer is written in place (`{pf.nsrc(n)}`): not analysed')
    drop_values = {id(x) for s in sites if s.kind == 'drop' and isinstance(s.st, ast.Assign) for x in ast.walk(s.st.value) if isinstance(x, ast.Subscript)}
    handouts = [(fn, n) for fn, n in handouts if id(n) not in drop_values]

    # ---- cursor: an int-like self field that bounds a hand-out from below, or is combined with len(B), and is stored on the read path
    cands: List[str] = []
    for fn, h in handouts:
        if h.slice.lower is not None:
            for x in ast.walk(h.slice.lower):
                if _is_self_attr(x) and pf.nsrc(x) != btxt and pf.nsrc(x) in int_attr_stores and pf.nsrc(x) not in cands:
                    cands.append(pf.nsrc(x))
    for fn in fns:
        canon = canon_of[fn.name]
        for n in ast.walk(fn):
            if isinstance(n, (ast.Compare, ast.BinOp)):
                t = pf.nsrc(canon.visit(copy.deepcopy(n)))
                if lbkey in t:
                    for x in ast.walk(n):
                        if _is_self_attr(x) and pf.nsrc(x) != btxt and pf.nsrc(x) in int_attr_stores and pf.nsrc(x) not in cands:
                            # only fields that are advanced / reset like a position
                            if any(_cursor_store_kind(st, pf.nsrc(x), btxt, canon_of[f.name]) is not None for f, st, _ in int_attr_stores[pf.nsrc(x)]):
                                cands.append(pf.nsrc(x))
    if len(cands) > 1:
        raise AnalysisError(f'{where}: several position fields for {btxt}: {cands}')
    ptxt = cands[0] if cands else None
    if ptxt is not None:
        for fn, st, block in int_attr_stores[ptxt]:
            k = _cursor_store_kind(st, ptxt, btxt, canon_of[fn.name])
            if k is None:
                raise AnalysisError(f'{where}.{fn.name}: `{pf.nsrc(st)}` changes the position {ptxt} in a way that is not analysed')
            sites.append(_Site(k[0], st, fn, block, amount=k[1]))
            skip_nodes.add(id(st))

    advs = [s for s in sites if s.kind == 'adv']
    drops = [s for s in sites if s.kind == 'drop']
    if not handouts and not advs and not drops:
        return None
    rep = 'cursor' if (ptxt is not None and advs) else 'reslice'
    r = BufReport(cls.name, btxt, ptxt if rep == 'cursor' else None, rep, [f.name for f in fns])
    P = linform.sym(ptxt) if ptxt else None
    LB = linform.sym(lbkey)

    def lin(e, fn):
        try:
            return _lin(e, fn, canon_of[fn.name])
        except AnalysisError as ex:
            raise AnalysisError(f'{where}.{fn.name}: `{pf.nsrc(e)}` is not linear ({ex})')

    # ---- role: representation (never both ways of consuming)
    try:
        if not advs and not drops:
            fn, h = handouts[0]
            odd = [x for x in sites if x.kind == 'replace' and not _fresh_value(x.value)]
            if odd:
                raise AnalysisError(f'{where}.{odd[0].fn.name}: `{pf.nsrc(odd[0].st)}` may be how {btxt} is consumed: not analysed')
            r.checks.append(BufCheck('consumption', False, f'`{pf.nsrc(h)}` hands out bytes of {btxt} but no statement of the read path consumes them (no `{btxt} = {btxt}[k:]`, no position advance): '
                                     f'every read returns the same bytes again', h.lineno))
            return r
        if rep == 'cursor':
            mixed = []
            for d in drops:
                is_compaction = lin(d.amount, d.fn) == P and any(s.kind in ('reset', 'rebase') and s.block is d.block for s in sites)
                if not is_compaction and lin(d.amount, d.fn) == P and _elsewhere(d.fn, sites, ('reset', 'rebase'), fns):
                    # the position is reset in another statement list of the method / in a method it calls: how the two pair up is not analysed
                    raise AnalysisError(f'{where}.{d.fn.name}: `{pf.nsrc(d.st)}` drops the consumed prefix and {ptxt} is reset elsewhere in the method: pairing not analysed')
                if not is_compaction:
                    mixed.append(d)
            if mixed:
                d = mixed[0]
                r.checks.append(BufCheck('representation', False, f'`{pf.nsrc(d.st)}` drops consumed bytes from {btxt} while `{pf.nsrc(advs[0].st)}` also skips them with the position {ptxt}: '
                                         f'the two ways of consuming are mixed, every read loses the bytes between them (read k bytes: k are dropped and the position moves k further)', d.st.lineno))
            else:
                r.checks.append(BufCheck('representation', True, detail=f'cursor: unconsumed = len({btxt}) - {ptxt}'))
        else:
            r.checks.append(BufCheck('representation', True, detail=f'reslice: unconsumed = len({btxt})'))
    except AnalysisError as _e:
        r.declined.append(str(_e))

    # ---- role: counts compared with a request are counts of unconsumed bytes
    try:
        uses_ok: List[str] = []
        uses_bad: List[Tuple[str, int, str]] = []
        for fn in fns:
            canon = canon_of[fn.name]
            params = {a.arg for a in fn.args.posonlyargs + fn.args.args + fn.args.kwonlyargs} - {'self'}
            local_names = set(pf.assignments(fn)) | params

            def classify(L: linform.Lin, text: str, line: int) -> None:
                cL = L.coef.get(lbkey, 0)
                cP = L.coef.get(ptxt, 0) if ptxt else 0
                if cL == 0 and cP == 0:
                    return
                others = [s for s in L.symbols() if s not in (lbkey, ptxt)]
                request = [s for s in others if any(isinstance(x, ast.Name) and x.id in local_names for x in ast.walk(ast.parse(s, mode='eval')))]
                if rep == 'reslice':
                    if cL != 0:
                        uses_ok.append(text)
                    return
                if cL + cP == 0:
                    uses_ok.append(text)
                elif not request:
                    return  # emptiness tests / thresholds: say nothing
                elif cL != 0:
                    uses_bad.append((text, line, f'`{text}` counts len({btxt}) {"without" if cP == 0 else "not exactly minus"} the {ptxt} bytes already consumed: '
                                     f'the unconsumed bytes are len({btxt}) - {ptxt}'))
                else:
                    raise AnalysisError(f'{where}.{fn.name}: `{text}` compares the position {ptxt} with a request: not analysed')

            def has_atom(e: ast.AST) -> bool:
                # len(B) or the position, outside the bounds of a slice of B (those are judged with the hand-outs)
                def rec(x: ast.AST) -> bool:
                    if isinstance(x, ast.Subscript) and isinstance(x.slice, ast.Slice) and pf.nsrc(x.value) == btxt:
                        return False
                    if pf.nsrc(x) == lbkey or (ptxt is not None and pf.nsrc(x) == ptxt):
                        return True
                    return any(rec(c) for c in ast.iter_child_nodes(x))
                return rec(canon.visit(copy.deepcopy(pf.expand_locals(fn, e))))

            def visit(e: ast.AST) -> None:
                if isinstance(e, ast.Subscript) and isinstance(e.slice, ast.Slice) and pf.nsrc(canon.visit(copy.deepcopy(e.value))) == btxt:
                    return  # bounds are checked with the hand-outs
                if isinstance(e, (ast.Lambda, ast.FunctionDef, ast.AsyncFunctionDef)):
                    return
                if isinstance(e, ast.Compare) and has_atom(e):
                    if len(e.ops) != 1 or not isinstance(e.ops[0], (ast.Lt, ast.LtE, ast.Gt, ast.GtE, ast.Eq, ast.NotEq)):
                        raise AnalysisError(f'{where}.{fn.name}: comparison `{pf.nsrc(e)}` not analysed')
                    classify(lin(e.left, fn) - lin(e.comparators[0], fn), pf.nsrc(e), e.lineno)
                    return
                if isinstance(e, ast.Call) and isinstance(e.func, ast.Name) and e.func.id in ('min', 'max') and len(e.args) == 2 and not e.keywords and has_atom(e):
                    classify(lin(e.args[0], fn) - lin(e.args[1], fn), pf.nsrc(e), e.lineno)
                    return
                if isinstance(e, (ast.BinOp, ast.UnaryOp)) and not (isinstance(e, ast.UnaryOp) and isinstance(e.op, ast.Not)) and has_atom(e):
                    classify(lin(e, fn), pf.nsrc(e), e.lineno)
                    return
                for c in ast.iter_child_nodes(e):
                    visit(c)

            def visit_stmt(st: ast.stmt) -> None:
                if id(st) in skip_nodes:
                    return
                for f, v in ast.iter_fields(st):
                    if isinstance(v, list):
                        for x in v:
                            if isinstance(x, ast.stmt):
                                if not isinstance(x, (ast.FunctionDef, ast.AsyncFunctionDef, ast.ClassDef)):
                                    visit_stmt(x)
                            elif isinstance(x, ast.AST):
                                if isinstance(x, ast.ExceptHandler):
                                    for y in x.body:
                                        visit_stmt(y)
                                elif isinstance(x, ast.withitem):
                                    visit(x.context_expr)
                                elif hasattr(ast, 'match_case') and isinstance(x, ast.match_case):
                                    for y in x.body:
                                        visit_stmt(y)
                                else:
                                    visit(x)
                    elif isinstance(v, ast.AST) and not isinstance(v, (ast.expr_context, ast.operator)):
                        if isinstance(st, (ast.Assign, ast.AugAssign, ast.AnnAssign)) and f in ('targets', 'target'):
                            continue
                        visit(v)

            for st in fn.body:
                visit_stmt(st)
        appended_in_loop = any(s.kind == 'append' for s in sites)
        if uses_bad:
            t, line, msg = uses_bad[0]
            r.checks.append(BufCheck('unconsumed count', False, msg + _witness(btxt, ptxt) + (f' (+{len(uses_bad) - 1} more)' if len(uses_bad) > 1 else ''), line))
        else:
            if appended_in_loop and not uses_ok:
                raise AnalysisError(f'{where}: {btxt} is refilled but no test of its unconsumed size was recognised')
            if uses_ok:
                r.checks.append(BufCheck('unconsumed count', True, detail='; '.join(sorted(set(uses_ok)))))
    except AnalysisError as _e:
        r.declined.append(str(_e))

    # ---- role: slices handed out start at the first unconsumed byte
    try:
        if handouts:
            bad_h = None
            for fn, h in handouts:
                if h.slice.step is not None:
                    raise AnalysisError(f'{where}.{fn.name}: stepped slice `{pf.nsrc(h)}`')
                lo = lin(h.slice.lower, fn)
                if rep == 'cursor':
                    if lo == P:
                        continue
                    if lo == linform.const(0):
                        bad_h = bad_h or (h, f'`{pf.nsrc(h)}` hands out bytes from the start of {btxt}, but the bytes before {ptxt} were already consumed '
                                             f'(`{pf.nsrc(advs[0].st)}` moves the position, nothing drops them): after a first read of k bytes the next read returns the same k bytes again')
                        continue
                    raise AnalysisError(f'{where}.{fn.name}: `{pf.nsrc(h)}` does not start at {ptxt} nor at 0: not analysed')
                else:
                    if lo != linform.const(0):
                        raise AnalysisError(f'{where}.{fn.name}: `{pf.nsrc(h)}` does not start at 0 although consumed bytes are dropped from {btxt}: not analysed')
            if bad_h:
                r.checks.append(BufCheck('hand-out', False, bad_h[1], bad_h[0].lineno))
            else:
                r.checks.append(BufCheck('hand-out', True, detail='; '.join(sorted({pf.nsrc(h) for _, h in handouts}))))
    except AnalysisError as _e:
        r.declined.append(str(_e))

    # ---- role: the amount consumed is the amount handed out
    try:
        cons = [s for s in (advs if rep == 'cursor' else drops)]
        amount_bad: Optional[Tuple[_Site, str]] = None
        n_amount = 0
        for fn in fns:
            hs = [h for f, h in handouts if f is fn]
            cs = [s for s in cons if s.fn is fn]
            if hs and not cs:
                raise AnalysisError(f'{where}.{fn.name}: hands out `{pf.nsrc(hs[0])}` but the consumption happens in another method: not analysed')
            canon = canon_of[fn.name]
            for s in cs:
                if not hs:
                    raise AnalysisError(f'{where}.{fn.name}: `{pf.nsrc(s.st)}` consumes without a hand-out in the same method: not analysed')
                n_amount += 1
                k = s.amount
                if k is None:  # P = len(B): everything
                    if any(h.slice.upper is None for h in hs):
                        continue
                    raise AnalysisError(f'{where}.{fn.name}: `{pf.nsrc(s.st)}` consumes everything but the hand-out is bounded')
                kk = canon.visit(copy.deepcopy(pf.expand_locals(fn, k)))
                if isinstance(kk, ast.Call) and isinstance(kk.func, ast.Name) and kk.func.id == 'len' and len(kk.args) == 1:
                    a = _strip(kk.args[0])
                    if isinstance(a, ast.Name):  # several bindings: take the one that reaches this statement
                        d = nearest_def(fn, a.id, s.st)
                        if d is not None:
                            a = _strip(canon.visit(copy.deepcopy(pf.expand_locals(fn, d))))
                    if any(pf.nsrc(a) == pf.nsrc(canon.visit(copy.deepcopy(pf.expand_locals(fn, h)))) for h in hs):
                        continue
                    raise AnalysisError(f'{where}.{fn.name}: `{pf.nsrc(s.st)}`: `{pf.nsrc(k)}` is not the length of a hand-out')
                kl = lin(k, fn)
                diffs = []
                for h in hs:
                    hi = lin(h.slice.upper, fn) if h.slice.upper is not None else LB
                    diffs.append((h, kl - (hi - lin(h.slice.lower, fn))))
                exact = [h for h, d in diffs if d == linform.const(0)]
                if exact:
                    if rep == 'cursor':
                        # the position may only move past bytes that exist: the amount must be capped by the unconsumed count
                        kd = pf.resolve_expr(fn, k) if isinstance(k, ast.Name) else k
                        capped = isinstance(kd, ast.Call) and isinstance(kd.func, ast.Name) and kd.func.id == 'min' and any(_safe_eq(lambda a=a: lin(a, fn) == LB - P) for a in kd.args)
                        if not capped:
                            raise AnalysisError(f'{where}.{fn.name}: `{pf.nsrc(s.st)}` advances by the requested size, not by the bytes handed out, and no cap by the unconsumed count was found: not analysed')
                    continue
                consts = [(h, d) for h, d in diffs if d.is_const()]
                if len(hs) == 1 and consts:
                    h, d = consts[0]
                    amount_bad = amount_bad or (s, f'`{pf.nsrc(s.st)}` consumes {pf.nsrc(k)} bytes but `{pf.nsrc(h)}` hands out {d.const:+} fewer: '
                                                   f'{"a byte is skipped" if d.const > 0 else "a byte is delivered twice"} between consecutive reads')
                    continue
                raise AnalysisError(f'{where}.{fn.name}: `{pf.nsrc(s.st)}` is not comparable with the hand-outs {[pf.nsrc(h) for h in hs]}')
        if amount_bad:
            r.checks.append(BufCheck('consumption', False, amount_bad[1], amount_bad[0].st.lineno))
        elif n_amount:
            r.checks.append(BufCheck('consumption', True, detail='; '.join(sorted({pf.nsrc(s.st) for s in cons}))))
    except AnalysisError as _e:
        r.declined.append(str(_e))

    # ---- role: (cursor) replacing the buffer and resetting the position go together
    try:
        if rep == 'cursor':
            bad_r: Optional[Tuple[ast.stmt, str]] = None
            seen_blocks: List[Sequence[ast.stmt]] = []
            n_pairs = 0
            for s in sites:
                if s.kind not in ('replace', 'reset') or any(s.block is b for b in seen_blocks):
                    continue
                seen_blocks.append(s.block)
                here = [x for x in sites if x.block is s.block]
                reps = [x for x in here if x.kind == 'replace']
                resets = [x for x in here if x.kind in ('reset', 'rebase')]
                compacts = [x for x in here if x.kind == 'drop']
                n_pairs += 1
                if reps and not resets:
                    v = reps[0].value
                    ctor = isinstance(v, ast.Call) and isinstance(v.func, ast.Name) and v.func.id in _WRAPPERS and not v.keywords
                    empty = (isinstance(v, ast.Constant) and not v.value) or (ctor and not v.args) or \
                        (ctor and len(v.args) == 1 and isinstance(v.args[0], ast.Constant) and not v.args[0].value)
                    if empty:
                        raise AnalysisError(f'{where}.{reps[0].fn.name}: `{pf.nsrc(reps[0].st)}` empties the buffer without resetting {ptxt}: harmless only if the stream is finished - not analysed')
                    if _elsewhere(reps[0].fn, [x for x in sites if x.block is not s.block], ('reset', 'rebase'), fns):
                        raise AnalysisError(f'{where}.{reps[0].fn.name}: `{pf.nsrc(reps[0].st)}` replaces {btxt}; {ptxt} is reset in another statement list of the method or in a method it calls: pairing not analysed')
                    bad_r = bad_r or (reps[0].st, f'`{pf.nsrc(reps[0].st)}` replaces {btxt} with new data but {ptxt} keeps the position reached in the old buffer: '
                                                   f'the first {ptxt} bytes of the new data are never delivered')
                elif resets and not reps and not compacts:
                    if _elsewhere(resets[0].fn, [x for x in sites if x.block is not s.block], ('replace', 'drop'), fns):
                        raise AnalysisError(f'{where}.{resets[0].fn.name}: `{pf.nsrc(resets[0].st)}` rewinds {ptxt}; {btxt} is replaced / compacted in another statement list of the method or in a method it calls: pairing not analysed')
                    bad_r = bad_r or (resets[0].st, f'`{pf.nsrc(resets[0].st)}` rewinds {ptxt} while {btxt} keeps its content: bytes already delivered are delivered again')
            if bad_r:
                r.checks.append(BufCheck('reset pairing', False, bad_r[1], bad_r[0].lineno))
            elif n_pairs:
                r.checks.append(BufCheck('reset pairing', True))
    except AnalysisError as _e:
        r.declined.append(str(_e))

    return r


def _fresh_value(v: Optional[ast.AST]) -> bool:
    """A value that is new data, not a part of the old buffer: a literal, bytes()/bytearray(), an awaited read / next chunk."""
    if v is None:
        return False
    v = _strip(v)
    if isinstance(v, ast.Constant):
        return True
    if isinstance(v, ast.Call) and isinstance(v.func, ast.Name) and v.func.id in _WRAPPERS and not v.args:
        return True
    if isinstance(v, ast.Call) and isinstance(v.func, ast.Attribute) and not (isinstance(v.func.value, ast.Name) and v.func.value.id == 'self'):
        return True  # a method of another object (stream.read(..), it.__anext__()): data from outside
    if isinstance(v, ast.Call) and isinstance(v.func, ast.Name) and v.func.id in ('anext', 'next'):
        return True
    return False


def _elsewhere(fn: pf.FuncDef, sites: Sequence['_Site'], kinds: Tuple[str, ...], fns: Sequence[pf.FuncDef]) -> bool:
    """Does `fn` hold a site of one of `kinds` among `sites`, or call (as self.<m>) a read-path method that holds one?"""
    if any(x.kind in kinds and x.fn is fn for x in sites):
        return True
    holders = {x.fn.name for x in sites if x.kind in kinds}
    called = {c.func.attr for c in pf.calls_in(fn, into_nested_defs=True) if isinstance(c.func, ast.Attribute) and isinstance(c.func.value, ast.Name) and c.func.value.id == 'self'}
    called |= {x.attr for x in ast.walk(fn) if isinstance(x, ast.Attribute) and isinstance(x.value, ast.Name) and x.value.id == 'self' and any(f.name == x.attr for f in fns)}
    return bool(holders & called)


def _binds(st: ast.stmt, name: str) -> bool:
    return any(isinstance(x, ast.Name) and x.id == name and isinstance(x.ctx, (ast.Store, ast.Del)) for x in ast.walk(st))


def nearest_def(fn: pf.FuncDef, name: str, at: ast.stmt) -> Optional[ast.AST]:
    """The value of the closest assignment `name = value` that is executed on every path before `at` and after which `name` is not
    rebound before `at` (searching backwards through the enclosing statement lists; `with` bodies count as straight-line code).
    None when the closest binding is conditional or not a plain assignment."""
    def path_to(stmts: Sequence[ast.stmt], trail):
        for i, st in enumerate(stmts):
            if st is at:
                return trail + [(stmts, i)]
            if isinstance(st, (ast.FunctionDef, ast.AsyncFunctionDef, ast.ClassDef)):
                continue
            subs = [getattr(st, f) for f in ('body', 'orelse', 'finalbody') if isinstance(getattr(st, f, None), list)]
            subs += [h.body for h in getattr(st, 'handlers', []) or []]
            for sub in subs:
                if sub and isinstance(sub[0], ast.stmt):
                    r = path_to(sub, trail + [(stmts, i)])
                    if r is not None:
                        return r
        return None

    def last_in(stmts: Sequence[ast.stmt]):
        """('val', v) | ('unknown',) | None for: the last binding of name when stmts run to their end."""
        for st in reversed(list(stmts)):
            if not _binds(st, name):
                continue
            if isinstance(st, ast.Assign) and len(st.targets) == 1 and isinstance(st.targets[0], ast.Name) and st.targets[0].id == name:
                return ('val', st.value)
            if isinstance(st, (ast.With, ast.AsyncWith)) and not any(it.optional_vars is not None and _binds_expr(it.optional_vars, name) for it in st.items):
                return last_in(st.body)
            return ('unknown',)
        return None

    trail = path_to(fn.body, [])
    if trail is None:
        return None
    for stmts, i in reversed(trail):
        r = last_in(stmts[:i])
        if r is not None:
            return r[1] if r[0] == 'val' else None
    return None


def _binds_expr(e: ast.AST, name: str) -> bool:
    return any(isinstance(x, ast.Name) and x.id == name for x in ast.walk(e))


def _safe_eq(f) -> bool:
    try:
        return bool(f())
    except AnalysisError:
        return False


def _witness(btxt: str, ptxt: Optional[str]) -> str:
    # printed only after the linear comparison has established the defect
    return (f'; e.g. with len({btxt}) = 64 and {ptxt} = 60 it counts 64 bytes as available where 4 are left: a request for 32 bytes fetches nothing more and gets '
            f'the 4 bytes - a short read in the middle of the stream, which the callers take for the end of the data')


def _cursor_store_kind(st: ast.stmt, ptxt: str, btxt: str, canon: _Canon) -> Optional[Tuple[str, Optional[ast.AST]]]:
    """('reset', None) | ('adv', k) | ('adv', None)= everything | ('rebase', k); None = not recognised."""
    if isinstance(st, ast.AugAssign) and pf.nsrc(st.target) == ptxt:
        if isinstance(st.op, ast.Add):
            return ('adv', st.value)
        if isinstance(st.op, ast.Sub):
            return ('rebase', st.value)
        return None
    if isinstance(st, (ast.Assign, ast.AnnAssign)) and getattr(st, 'value', None) is not None:
        tg = st.targets if isinstance(st, ast.Assign) else [st.target]
        if len(tg) != 1 or pf.nsrc(tg[0]) != ptxt:
            return None
        v = st.value
        if isinstance(v, ast.Constant) and v.value == 0 and not isinstance(v.value, bool):
            return ('reset', None)
        if isinstance(v, ast.BinOp) and isinstance(v.op, ast.Add):
            if pf.nsrc(v.left) == ptxt:
                return ('adv', v.right)
            if pf.nsrc(v.right) == ptxt:
                return ('adv', v.left)
        if pf.nsrc(canon.visit(copy.deepcopy(v))) == f'len({btxt})':
            return ('adv', None)
    return None


# =================================================================================================
# Part B: delivery of a request attribute along the call chain
# =================================================================================================

UNIVERSE_DIRS = ['hail/python/hailtop/aiocloud', 'hail/python/hailtop/aiotools', 'hail/python/hailtop/utils', 'hail/python/hailtop/httpx.py']
_BENIGN_CALLS = ('len', 'str', 'repr', 'print', 'bool', 'sorted', 'list', 'isinstance', 'type', 'id', 'json.dumps', 'orjson.dumps')
_LOGGERS = ('log', 'logger', 'logging', 'warnings')
_COPY_CTORS = ('dict', 'CIMultiDict', 'MultiDict', 'CIMultiDictProxy', 'MultiDictProxy', 'OrderedDict', 'multidict.CIMultiDict', 'multidict.MultiDict',
               'collections.OrderedDict', 'copy.copy', 'copy.deepcopy')
Loc = Union[str, Tuple[str, str]]
_FRESH = ('fresh', 'const')


class Decline(AnalysisError):
    pass


class External:
    def __init__(self, text: str):
        self.text = text


class FuncRef:
    def __init__(self, rel: str, cls: Optional[ast.ClassDef], fn: pf.FuncDef):
        self.rel, self.cls, self.fn = rel, cls, fn

    @property
    def qual(self) -> str:
        return f'{self.rel}::{self.cls.name + "." if self.cls else ""}{self.fn.name}'


def _is_abstract(fn: pf.FuncDef) -> bool:
    if any(d.split('.')[-1] == 'abstractmethod' for d in pf.decorator_names(fn)):
        return True
    body = [s for s in fn.body if not (isinstance(s, ast.Expr) and isinstance(s.value, ast.Constant))]
    return all(isinstance(s, ast.Pass) or (isinstance(s, ast.Raise) and s.exc is not None and 'NotImplementedError' in pf.nsrc(s.exc)) for s in body)


class Universe:
    """The modules whose functions are followed; anything else is 'outside' (the request primitive lives there)."""

    def __init__(self, dirs: Sequence[str] = tuple(UNIVERSE_DIRS)):
        self.mods: Dict[str, pf.Module] = {rel: pf.load(rel) for rel in pf.walk_py(list(dirs))}
        self.classes: Dict[str, List[Tuple[str, ast.ClassDef]]] = {}
        self.funcs: Dict[str, List[Tuple[str, pf.FuncDef]]] = {}
        for rel, m in self.mods.items():
            for st in m.tree.body:
                if isinstance(st, ast.ClassDef):
                    self.classes.setdefault(st.name, []).append((rel, st))
                elif isinstance(st, (ast.FunctionDef, ast.AsyncFunctionDef)):
                    self.funcs.setdefault(st.name, []).append((rel, st))
        self._imports: Dict[str, Dict[str, str]] = {}

    def imports(self, rel: str) -> Dict[str, str]:
        if rel not in self._imports:
            self._imports[rel] = self.mods[rel].imports()
        return self._imports[rel]

    def origin_external(self, rel: str, head: str) -> bool:
        imp = self.imports(rel).get(head)
        return imp is not None and not imp.startswith('.') and imp.split('.')[0] != 'hailtop'

    def resolve_type(self, rel: str, name: str):
        """[(rel, ClassDef)] | External | None (unknown)."""
        head, base = name.split('.')[0], name.split('.')[-1]
        if self.origin_external(rel, head):
            return External(name)
        cands = self.classes.get(base, [])
        if not cands:
            return None
        same = [c for c in cands if c[0] == rel]
        if '.' not in name and same:
            return same
        imp = self.imports(rel).get(head)
        if imp and len(cands) > 1:
            want = (imp.lstrip('.') + name[len(head):]).split('.')[:-1]
            hit = [c for c in cands if want and c[0][:-3].replace('/__init__', '').split('/')[-len(want):] == want]
            if hit:
                return hit
        return cands

    def bases(self, rel: str, cls: ast.ClassDef) -> List[Tuple[str, ast.ClassDef]]:
        out = []
        for b in cls.bases:
            d = pf.dotted(b)
            if d:
                r = self.resolve_type(rel, d)
                if isinstance(r, list):
                    out += r
        return out

    def mro(self, rel: str, cls: ast.ClassDef) -> List[Tuple[str, ast.ClassDef]]:
        out, todo = [], [(rel, cls)]
        while todo:
            x = todo.pop(0)
            if any(x[1] is y[1] for y in out):
                continue
            out.append(x)
            todo += self.bases(*x)
        return out

    def subclasses(self, cls: ast.ClassDef) -> List[Tuple[str, ast.ClassDef]]:
        out = []
        for name, lst in self.classes.items():
            for rel, c in lst:
                if c is not cls and any(y[1] is cls for y in self.mro(rel, c)[1:]):
                    out.append((rel, c))
        return out

    def method_targets(self, rel: str, cls: ast.ClassDef, name: str) -> List[FuncRef]:
        out: List[FuncRef] = []
        for r, c in self.mro(rel, cls):
            ms = _methods(c)
            if name in ms:
                if not _is_abstract(ms[name]):
                    out.append(FuncRef(r, c, ms[name]))
                break
        for r, c in self.subclasses(cls):
            ms = _methods(c)
            if name in ms and not _is_abstract(ms[name]) and not any(x.fn is ms[name] for x in out):
                out.append(FuncRef(r, c, ms[name]))
        return out

    def attr_types(self, rel: str, cls: ast.ClassDef, attr: str) -> List[Tuple[str, str]]:
        """(module, type name) for every type the instance attribute is declared / constructed with (class and bases)."""
        out: List[Tuple[str, str]] = []

        def ann_names(a: Optional[ast.AST]) -> List[str]:
            if a is None:
                return []
            if isinstance(a, ast.Constant) and isinstance(a.value, str):
                try:
                    return ann_names(ast.parse(a.value, mode='eval').body)
                except SyntaxError:
                    return []
            d = pf.dotted(a)
            if d:
                return [] if d in ('None', 'Any', 'object') else [d]
            if isinstance(a, ast.Subscript):  # Optional[X], Union[X, Y], 'Type[X]': the arguments, not the wrapper
                return ann_names(a.slice)
            res: List[str] = []
            for c in ast.iter_child_nodes(a):
                res += ann_names(c)
            return res

        for r, c in self.mro(rel, cls):
            for st in c.body:
                if isinstance(st, ast.AnnAssign) and isinstance(st.target, ast.Name) and st.target.id == attr:
                    out += [(r, n) for n in ann_names(st.annotation)]
            init = _methods(c).get('__init__')
            if init is None:
                continue
            pann = {a.arg: a.annotation for a in init.args.posonlyargs + init.args.args + init.args.kwonlyargs}
            for st in ast.walk(init):
                tgt = val = ann = None
                if isinstance(st, ast.Assign) and len(st.targets) == 1:
                    tgt, val = st.targets[0], st.value
                elif isinstance(st, ast.AnnAssign) and st.value is not None:
                    tgt, val, ann = st.target, st.value, st.annotation
                if tgt is None or not (_is_self_attr(tgt) and tgt.attr == attr):
                    continue
                out += [(r, n) for n in ann_names(ann)]
                v = val.value if isinstance(val, ast.Await) else val
                if isinstance(v, ast.Call) and pf.dotted(v.func):
                    out.append((r, pf.dotted(v.func)))
                elif isinstance(v, ast.Name):
                    out += [(r, n) for n in ann_names(pann.get(v.id))]
                    for st2 in ast.walk(init):
                        if isinstance(st2, ast.Assign) and len(st2.targets) == 1 and isinstance(st2.targets[0], ast.Name) and st2.targets[0].id == v.id \
                                and isinstance(st2.value, ast.Call) and pf.dotted(st2.value.func):
                            out.append((r, pf.dotted(st2.value.func)))
        return out


class Problem:
    def __init__(self, kind: str, where: str, file: str, line: int, text: str):
        self.kind, self.where, self.file, self.line, self.text = kind, where, file, line, text


class _St:
    """One abstract state (one path)."""
    __slots__ = ('loc', 'dicts', 'live', 'why', 'gone', 'forwarded', 'skipped', 'keys', 'consts')

    def __init__(self):
        self.loc: Dict[Loc, int] = {}
        self.dicts: Set[str] = set()
        self.live: Set[int] = set()
        self.why: Dict[int, str] = {}
        self.gone: Dict[Loc, str] = {}
        self.forwarded = False
        self.skipped: List[ast.Call] = []  # calls made while the datum was held but not handed over
        self.keys: Dict[str, Optional[FrozenSet[str]]] = {}  # followed dict -> its exact key set when that is known (closed), else None / missing
        self.consts: Dict[str, object] = {}  # locals known to hold a literal (defaults taken from a closed dict)

    def copy(self) -> '_St':
        s = _St()
        s.loc, s.dicts, s.live, s.why, s.gone, s.forwarded = dict(self.loc), set(self.dicts), set(self.live), dict(self.why), dict(self.gone), self.forwarded
        s.skipped = list(self.skipped)
        s.keys, s.consts = dict(self.keys), dict(self.consts)
        return s

    def has_key(self, d: str, k: str) -> Optional[bool]:
        if (d, k) in self.loc:
            return True
        ks = self.keys.get(d)
        if ks is not None:
            return k in ks
        if (d, k) in self.gone:
            return False
        return None

    def add_key(self, d: str, k: str) -> None:
        if self.keys.get(d) is not None:
            self.keys[d] = self.keys[d] | {k}  # type: ignore[operator]

    def del_key(self, d: str, k: str) -> None:
        if self.keys.get(d) is not None:
            self.keys[d] = self.keys[d] - {k}  # type: ignore[operator]

    def sig(self):
        return (frozenset(self.loc.items()), frozenset(self.dicts), frozenset(self.live), frozenset(self.gone), self.forwarded,
                frozenset((k, v) for k, v in self.keys.items()), frozenset((k, repr(v)) for k, v in self.consts.items()))

    def kill(self, g: int, why) -> None:
        if g in self.live:
            self.live.discard(g)
            self.why[g] = why


def _dedupe(states: List[_St]) -> List[_St]:
    seen, out = set(), []
    for s in states:
        k = s.sig()
        if k not in seen:
            seen.add(k)
            out.append(s)
    return out


class _Fctx:
    def __init__(self, ref: FuncRef, funcs: Dict[str, list]):
        self.ref = ref
        self.funcs = funcs
        self.nested: Dict[str, pf.FuncDef] = {}
        self.exits: List[_St] = []
        self.breaks: List[List[_St]] = []
        self.conts: List[List[_St]] = []
        self.guards: List[Tuple[str, str]] = []  # (key expr, container) facts `key not in container` on the current branch
        self.recv = ref.fn.args.args[0].arg if (ref.cls is not None and ref.fn.args.args and 'staticmethod' not in pf.decorator_names(ref.fn)) else None


class Delivery:
    """Follow kwargs[key] (and, if `inner` is given, the entry `inner` of that mapping) from a call to the request primitive.

    origin=False: the datum is handed in at the starting call (start_at_call).
    origin=True : the datum comes into being where the analysed function writes `<mapping>[inner] = ...` / builds `{inner: ...}` (start_in_function)."""

    MAX_FUNCS = 600
    MAX_STATES = 96

    def __init__(self, uni: Universe, key: str, inner: Optional[str], origin: bool = False):
        self.uni, self.key, self.inner, self.origin = uni, key, inner, origin
        self.problems: List[Problem] = []
        self.primitives: List[str] = []
        self.chain: List[str] = []
        self.origins: List[str] = []
        self._g = 0
        self._stack: List[Tuple[int, Tuple]] = []
        self._n = 0
        self._cur: Optional[_Fctx] = None

    # -- helpers -----------------------------------------------------------------------------
    def newg(self) -> int:
        self._g += 1
        return self._g

    def _problem(self, kind: str, fc: _Fctx, node: ast.AST, text: str) -> None:
        line = getattr(node, 'lineno', 0)
        if not any(p.kind == kind and p.where == fc.ref.qual and p.line == line for p in self.problems):
            self.problems.append(Problem(kind, fc.ref.qual, self.uni.mods[fc.ref.rel].path, line, text))

    def _what(self) -> str:
        return f"{self.key}[{self.inner!r}]" if self.inner else self.key

    def _why(self, node: ast.AST, text: str) -> Tuple[str, str, str, int]:
        fc = self._cur
        return (text, fc.ref.qual if fc else '', self.uni.mods[fc.ref.rel].path if fc else '', getattr(node, 'lineno', 0))

    def _report_dead(self, g: int, st: '_St', fc: _Fctx, c: ast.Call) -> None:
        w = st.why.get(g)
        if w is None:
            return
        text, qual, file, line = w
        if not any(p.where == qual and p.line == line for p in self.problems):
            self.problems.append(Problem('killed', qual, file, line, f'{text}; `{pf.nsrc(c)[:100]}` ({fc.ref.fn.name}) is then issued without {self._what()}'))

    # -- values ------------------------------------------------------------------------------
    def _const_key(self, e: ast.AST) -> Optional[str]:
        return pf.const_str(e)

    def _entry_of(self, e: ast.AST, st: _St, cv: Dict[int, tuple]) -> Optional[int]:
        v = self.val(e, st, cv)
        return v[1] if v[0] == 'entry' else None

    def val(self, e: ast.AST, st: _St, cv: Dict[int, tuple]) -> tuple:
        """('entry', g) | ('dictval', {key: g}) | ('fresh',).  Declines on a tracked object used in a way that is not followed."""
        if isinstance(e, ast.Await):
            return self.val(e.value, st, cv)
        if id(e) in cv:
            return cv[id(e)]
        if isinstance(e, ast.Name):
            if e.id in st.dicts:
                raise Decline(f'the dict `{e.id}` is used as a value (`{e.id}` aliased or stored): not followed')
            if e.id in st.loc:
                return ('entry', st.loc[e.id])
            if e.id in st.consts:
                return ('const', st.consts[e.id])
            return ('fresh',)
        if isinstance(e, ast.Subscript) and isinstance(e.value, ast.Name) and e.value.id in st.dicts:
            k = self._const_key(e.slice)
            if k is None:
                raise Decline(f'computed key `{pf.nsrc(e)}` on a followed dict')
            g = st.loc.get((e.value.id, k))
            if g is None and k == self.key and st.has_key(e.value.id, k) is None:
                g = self.newg()  # present or not is unknown; if present it is this object
                st.loc[(e.value.id, k)] = g
            return ('entry', g) if g is not None else ('fresh',)
        if isinstance(e, ast.Subscript):
            base = self.val(e.value, st, cv)
            if base[0] == 'entry':
                return ('fresh',)  # an element of the mapping, not the mapping
            return ('fresh',)
        if isinstance(e, ast.BoolOp) and isinstance(e.op, ast.Or):
            first = self.val(e.values[0], st, cv)
            if first[0] == 'const':
                if first[1]:
                    return first
                return self.val(e.values[1], st, cv) if len(e.values) == 2 else self.val(ast.BoolOp(op=ast.Or(), values=e.values[1:]), st, cv)
            if first[0] == 'entry':
                if first[1] in st.live:
                    return first  # the datum is truthy
                raise Decline(f'`{pf.nsrc(e)}`: truthiness of a replaced value not known')
            rest = [self.val(x, st, cv) for x in e.values[1:]]
            if all(r[0] in _FRESH for r in rest) and first[0] in _FRESH:
                return ('fresh',)
            raise Decline(f'`{pf.nsrc(e)}` mixes followed and other values')
        if isinstance(e, ast.BoolOp):
            vs = [self.val(x, st, cv) for x in e.values]
            if all(v[0] in _FRESH for v in vs):
                return ('fresh',)
            if vs[-1][0] == 'entry' and all(v[0] in _FRESH for v in vs[:-1]):
                raise Decline(f'`{pf.nsrc(e)}`: conditional value')
            raise Decline(f'`{pf.nsrc(e)}`: not followed')
        if isinstance(e, ast.IfExp):
            t = self.truth(e.test, st)
            if t is True:
                return self.val(e.body, st, cv)
            if t is False:
                return self.val(e.orelse, st, cv)
            a, b = self.val(e.body, st, cv), self.val(e.orelse, st, cv)
            if a[0] in _FRESH and b[0] in _FRESH:
                return ('fresh',)
            raise Decline(f'`{pf.nsrc(e)}`: conditional value not decided')
        if isinstance(e, ast.Dict):
            return self._merge([(k, v) for k, v in zip(e.keys, e.values)], st, cv, e)
        if isinstance(e, ast.BinOp) and isinstance(e.op, ast.BitOr):
            return self._merge([(None, e.left), (None, e.right)], st, cv, e)
        if isinstance(e, ast.Call):
            name = pf.dotted(e.func) or ''
            if name in _COPY_CTORS:
                if len(e.args) > 1:
                    raise Decline(f'`{pf.nsrc(e)}` not followed')
                items: List[Tuple[Optional[ast.AST], ast.AST]] = [(None, a) for a in e.args]
                for k in e.keywords:
                    items.append((None, k.value) if k.arg is None else (ast.Constant(value=k.arg), k.value))
                return self._merge(items, st, cv, e)
            if isinstance(e.func, ast.Attribute) and e.func.attr == 'copy' and not e.args and not e.keywords:
                return self._merge([(None, e.func.value)], st, cv, e)
            if name in ('cast', 'typing.cast') and len(e.args) == 2:
                return self.val(e.args[1], st, cv)
            # any other call: its tracked arguments were handled when the call was processed
            return ('fresh',)
        if isinstance(e, (ast.Constant, ast.JoinedStr, ast.Compare, ast.Lambda, ast.Attribute)):
            self._no_tracked(e, st)
            return ('fresh',)
        self._no_tracked(e, st)
        return ('fresh',)

    def _no_tracked(self, e: ast.AST, st: _St) -> None:
        for x in ast.walk(e):
            if isinstance(x, ast.Name) and isinstance(x.ctx, ast.Load) and (x.id in st.dicts or (x.id in st.loc and st.loc[x.id] in st.live)):
                par_ok = isinstance(e, (ast.Compare, ast.JoinedStr, ast.Lambda))
                if not par_ok:
                    raise Decline(f'`{pf.nsrc(e)[:80]}` uses the followed object `{x.id}` in a way that is not analysed')

    def _merge(self, items: List[Tuple[Optional[ast.AST], ast.AST]], st: _St, cv: Dict[int, tuple], node: ast.AST) -> tuple:
        """A new mapping built from spreads (key None) and explicit items, in order."""
        # dict level: a copy of a followed kwargs dict
        spreads = [v for k, v in items if k is None]
        if any(isinstance(v, ast.Name) and v.id in st.dicts for v in spreads):
            mp: Dict[str, int] = {}
            for k, v in items:
                if k is None:
                    if isinstance(v, ast.Name) and v.id in st.dicts:
                        for l, g in st.loc.items():
                            if isinstance(l, tuple) and l[0] == v.id:
                                mp[l[1]] = g
                    else:
                        vv = self.val(v, st, cv)
                        if vv[0] == 'dictval':
                            mp.update(vv[1])
                        elif vv[0] == 'entry':
                            raise Decline(f'`{pf.nsrc(node)}` spreads the {self.key} mapping into the keyword dict')
                else:
                    ks = self._const_key(k)
                    if ks is None:
                        raise Decline(f'computed key in `{pf.nsrc(node)}`')
                    vv = self.val(v, st, cv)
                    if vv[0] == 'entry':
                        mp[ks] = vv[1]
                    elif ks in mp:
                        g = self.newg()
                        st.why[g] = self._why(node, f'`{pf.nsrc(node)}` sets {ks!r} anew')
                        mp[ks] = g
            return ('dictval', mp)
        # entry level
        live, dead_why = False, None
        related = False
        made_here = False
        for k, v in items:
            if k is None:
                vv = self.val(v, st, cv)
                if vv[0] == 'dictval':
                    raise Decline(f'`{pf.nsrc(node)}`: nested dict copies not followed')
                if vv[0] == 'entry':
                    related = True
                    if vv[1] in st.live:
                        live = True
                    else:
                        dead_why = st.why.get(vv[1])
                elif isinstance(v, ast.Dict) and self.inner is not None and any(kk is not None and self._const_key(kk) == self.inner for kk in v.keys):
                    if self.origin:
                        live, made_here = True, True
                    elif live:
                        live, dead_why = False, self._why(node, f'`{pf.nsrc(node)}` overwrites {self.inner!r}')
            else:
                ks = self._const_key(k)
                if self.inner is not None and ks == self.inner:
                    if self.origin:
                        live, made_here, related = True, True, True
                    elif live:
                        live, dead_why = False, self._why(node, f'`{pf.nsrc(node)}` overwrites {self.inner!r}')
                elif ks is None and related:
                    raise Decline(f'computed key in `{pf.nsrc(node)}`')
        if not related:
            return ('fresh',)
        g = self.newg()
        if live:
            st.live.add(g)
            if made_here:
                self.origins.append(pf.nsrc(node))
        elif dead_why:
            st.why[g] = dead_why
        return ('entry', g)

    # -- tests -------------------------------------------------------------------------------
    def truth(self, t: ast.AST, st: _St) -> Optional[bool]:
        if isinstance(t, ast.UnaryOp) and isinstance(t.op, ast.Not):
            v = self.truth(t.operand, st)
            return None if v is None else not v
        if isinstance(t, ast.BoolOp):
            vs = [self.truth(x, st) for x in t.values]
            if isinstance(t.op, ast.And):
                return False if any(v is False for v in vs) else (True if all(v is True for v in vs) else None)
            return True if any(v is True for v in vs) else (False if all(v is False for v in vs) else None)
        if isinstance(t, ast.Compare) and len(t.ops) == 1:
            op, a, b = t.ops[0], t.left, t.comparators[0]
            if isinstance(op, (ast.In, ast.NotIn)) and isinstance(b, ast.Name) and b.id in st.dicts:
                k = self._const_key(a)
                if k is not None:
                    present = st.has_key(b.id, k)
                    if present is None:
                        return None
                    return present if isinstance(op, ast.In) else not present
            if isinstance(op, (ast.Is, ast.IsNot, ast.Eq, ast.NotEq)) and isinstance(b, ast.Constant) and b.value is None:
                g = self._peek_entry(a, st)
                if g is not None and g in st.live:
                    return isinstance(op, (ast.IsNot, ast.NotEq))
                if isinstance(a, ast.Name) and a.id in st.consts:
                    return (st.consts[a.id] is None) == isinstance(op, (ast.Is, ast.Eq))
            return None
        if isinstance(t, ast.Name) and t.id in st.consts:
            return bool(st.consts[t.id])
        g = self._peek_entry(t, st)
        if g is not None and g in st.live:
            return True  # the datum (a non-empty mapping / a non-empty string)
        return None

    def _peek_entry(self, e: ast.AST, st: _St) -> Optional[int]:
        """Group of an expression that reads (without side effect) a followed slot."""
        if isinstance(e, ast.Name) and e.id in st.loc:
            return st.loc[e.id]
        if isinstance(e, ast.Subscript) and isinstance(e.value, ast.Name) and e.value.id in st.dicts:
            k = self._const_key(e.slice)
            return st.loc.get((e.value.id, k)) if k is not None else None
        if isinstance(e, ast.Call) and isinstance(e.func, ast.Attribute) and e.func.attr == 'get' and isinstance(e.func.value, ast.Name) and e.func.value.id in st.dicts and e.args:
            k = self._const_key(e.args[0])
            return st.loc.get((e.func.value.id, k)) if k is not None else None
        return None

    # -- calls -------------------------------------------------------------------------------
    def _data_op(self, c: ast.Call, st: _St, cv: Dict[int, tuple], fc: _Fctx) -> bool:
        """Method calls on a followed dict / mapping.  True when handled here."""
        f = c.func
        if not isinstance(f, ast.Attribute):
            return False
        recv = f.value
        # dict level
        if isinstance(recv, ast.Name) and recv.id in st.dicts:
            d = recv.id
            k = self._const_key(c.args[0]) if c.args else None
            if f.attr in ('get', 'pop', 'setdefault') and c.args and k is None:
                raise Decline(f'`{pf.nsrc(c)}`: computed key on a followed dict')
            def default_value() -> tuple:
                # the key is known to be absent: the call yields its default
                if st.has_key(d, k) is False:  # type: ignore[arg-type]
                    if len(c.args) == 1 and f.attr == 'get':
                        return ('const', None)
                    if len(c.args) == 2 and isinstance(c.args[1], ast.Constant):
                        return ('const', c.args[1].value)
                return ('fresh',)
            if f.attr == 'get':
                g = st.loc.get((d, k))
                cv[id(c)] = ('entry', g) if g is not None else default_value()
            elif f.attr == 'pop':
                dv = default_value()
                g = st.loc.pop((d, k), None)  # type: ignore[arg-type]
                if g is not None:
                    st.gone[(d, k)] = self._why(c, f'`{pf.nsrc(c)}` takes {k!r} out of {d}')  # type: ignore[index]
                st.del_key(d, k)  # type: ignore[arg-type]
                cv[id(c)] = ('entry', g) if g is not None else dv
            elif f.attr == 'setdefault':
                if (d, k) not in st.loc and len(c.args) == 2:
                    v = self.val(c.args[1], st, cv)
                    if v[0] == 'entry':
                        st.loc[(d, k)] = v[1]  # type: ignore[index]
                        st.gone.pop((d, k), None)  # type: ignore[arg-type]
                st.add_key(d, k)  # type: ignore[arg-type]
                g = st.loc.get((d, k))  # type: ignore[arg-type]
                cv[id(c)] = ('entry', g) if g is not None else ('fresh',)
            elif f.attr == 'update':
                for a in c.args:
                    v = self.val(a, st, cv)
                    if isinstance(a, ast.Dict):
                        for kk, vv in zip(a.keys, a.values):
                            ks = self._const_key(kk) if kk is not None else None
                            if ks is None:
                                raise Decline(f'`{pf.nsrc(c)}` not followed')
                            self._store_slot(d, ks, vv, st, cv, c)
                    elif v[0] == 'dictval':
                        for ks, g in v[1].items():
                            st.loc[(d, ks)] = g
                        st.keys[d] = None
                    elif v[0] == 'entry':
                        raise Decline(f'`{pf.nsrc(c)}` merges the {self.key} mapping into the keyword dict')
                    else:
                        st.keys[d] = None  # keys of an unknown mapping
                for kw in c.keywords:
                    if kw.arg is None:
                        raise Decline(f'`{pf.nsrc(c)}` not followed')
                    self._store_slot(d, kw.arg, kw.value, st, cv, c)
                cv[id(c)] = ('fresh',)
            elif f.attr == 'clear':
                for l in [l for l in st.loc if isinstance(l, tuple) and l[0] == d]:
                    st.gone[l] = self._why(c, f'`{pf.nsrc(c)}` empties {d}')
                    del st.loc[l]
                if d in st.keys:
                    st.keys[d] = frozenset()
                cv[id(c)] = ('fresh',)
            elif f.attr in ('keys', 'values', 'items', 'copy', '__contains__'):
                if f.attr == 'copy':
                    cv[id(c)] = self._merge([(None, recv)], st, cv, c)
                else:
                    cv[id(c)] = ('fresh',)
            else:
                raise Decline(f'`{pf.nsrc(c)}` on a followed dict is not analysed')
            return True
        # mapping level
        g = None
        if isinstance(recv, ast.Name) and recv.id in st.loc:
            g = st.loc[recv.id]
        elif isinstance(recv, (ast.Subscript, ast.Call)):
            g = self._peek_entry(recv, st)
            if g is None and id(recv) in cv and cv[id(recv)][0] == 'entry':
                g = cv[id(recv)][1]
        if g is None:
            return False
        if self.inner is None:
            # the datum is a plain value (e.g. a Range string): methods on it do not change it
            cv[id(c)] = ('fresh',)
            return True
        k = self._const_key(c.args[0]) if c.args else None
        if f.attr in ('get', 'keys', 'values', 'items', '__contains__', 'getall', 'getone'):
            cv[id(c)] = ('fresh',)
        elif f.attr == 'copy' and not c.args:
            cv[id(c)] = self._merge([(None, recv)], st, cv, c)
        elif f.attr in ('pop', 'popone', 'popall'):
            if k is None:
                raise Decline(f'`{pf.nsrc(c)}`: computed key')
            if k.lower() == self.inner.lower():
                st.kill(g, self._why(c, f'`{pf.nsrc(c)}` removes {self.inner!r}'))
            cv[id(c)] = ('fresh',)
        elif f.attr == 'clear':
            st.kill(g, self._why(c, f'`{pf.nsrc(c)}` empties the mapping'))
            cv[id(c)] = ('fresh',)
        elif f.attr == 'setdefault':
            if self.origin and k == self.inner and g not in st.live:
                st.live.add(g)
                self.origins.append(pf.nsrc(c))
            cv[id(c)] = ('fresh',)
        elif f.attr in ('update', 'extend'):
            for a in c.args:
                if isinstance(a, ast.Dict):
                    for kk in a.keys:
                        ks = self._const_key(kk) if kk is not None else None
                        if kk is None or ks is None:
                            raise Decline(f'`{pf.nsrc(c)}` not followed')
                        if ks.lower() == self.inner.lower():
                            self._inner_written(g, st, c)
                else:
                    v = self.val(a, st, cv)
                    if v[0] not in _FRESH:
                        raise Decline(f'`{pf.nsrc(c)}` merges followed mappings: not analysed')
            for kw in c.keywords:
                if kw.arg is None:
                    continue
                if kw.arg.lower() == self.inner.lower():
                    self._inner_written(g, st, c)
            cv[id(c)] = ('fresh',)
        elif f.attr in ('add',) and k is not None:
            if k.lower() == self.inner.lower():
                self._inner_written(g, st, c)
            cv[id(c)] = ('fresh',)
        else:
            raise Decline(f'`{pf.nsrc(c)}` on the {self.key} mapping is not analysed')
        return True

    def _inner_written(self, g: int, st: _St, node: ast.AST) -> None:
        if self.origin:
            if g not in st.live:
                st.live.add(g)
                st.why.pop(g, None)
                self.origins.append(pf.nsrc(node))
            else:
                st.kill(g, self._why(node, f'`{pf.nsrc(node)}` overwrites {self.inner!r}'))
        else:
            st.kill(g, self._why(node, f'`{pf.nsrc(node)}` overwrites {self.inner!r}'))

    def _store_slot(self, d: str, k: str, value: ast.AST, st: _St, cv: Dict[int, tuple], node: ast.AST) -> None:
        v = self.val(value, st, cv)
        if v[0] == 'dictval':
            raise Decline(f'`{pf.nsrc(node)}` nests a keyword dict')
        st.add_key(d, k)
        old = st.loc.get((d, k))
        if v[0] == 'entry':
            st.loc[(d, k)] = v[1]
            st.gone.pop((d, k), None)
        elif old is not None or k == self.key:
            g = self.newg()
            if old is not None and old in st.live:
                st.why[g] = self._why(node, f'`{pf.nsrc(node)}` replaces {d}[{k!r}]' + (f', the mapping that carried {self.inner!r},' if self.inner else '') + ' instead of adding to it')
            elif old is not None and old in st.why:
                st.why[g] = st.why[old]
            st.loc[(d, k)] = g
            st.gone.pop((d, k), None)
            if isinstance(value, ast.Name) and value.id not in st.dicts:
                st.loc[value.id] = g  # the same (so far uninteresting) object under a local name

    def resolve(self, fc: _Fctx, f: ast.AST, st: _St) -> list:
        """FuncRef / External / ('nested', def) targets of a callee expression ([] = nothing known: treated as outside)."""
        uni, ref = self.uni, fc.ref
        if isinstance(f, ast.Name):
            if f.id in fc.funcs:
                return fc.funcs[f.id]
            if f.id in fc.nested:
                return [('nested', fc.nested[f.id])]
            own = [x for x in uni.funcs.get(f.id, []) if x[0] == ref.rel]
            if own:
                return [FuncRef(r, None, fn) for r, fn in own]
            if uni.origin_external(ref.rel, f.id):
                return [External(f.id)]
            if f.id in uni.imports(ref.rel):
                return [FuncRef(r, None, fn) for r, fn in uni.funcs.get(uni.imports(ref.rel)[f.id].split('.')[-1], [])] or [External(f.id)]
            return [External(f.id)]
        if isinstance(f, ast.Attribute):
            recv = f.value
            if isinstance(recv, ast.Name) and fc.recv is not None and recv.id == fc.recv and ref.cls is not None:
                t = uni.method_targets(ref.rel, ref.cls, f.attr)
                return t or [External(pf.nsrc(f))]
            if isinstance(recv, ast.Call) and pf.dotted(recv.func) == 'super' and ref.cls is not None:
                out: list = []
                for r, c in uni.mro(ref.rel, ref.cls)[1:]:
                    if f.attr in _methods(c):
                        out.append(FuncRef(r, c, _methods(c)[f.attr]))
                        break
                return out or [External(pf.nsrc(f))]
            if _is_self_attr(recv) and fc.recv == 'self' and ref.cls is not None:
                types = uni.attr_types(ref.rel, ref.cls, recv.attr)  # type: ignore[attr-defined]
                out = []
                unknown = not types
                for r, tn in types:
                    rt = uni.resolve_type(r, tn)
                    if isinstance(rt, External):
                        out.append(External(pf.nsrc(f)))
                    elif isinstance(rt, list):
                        for r2, c2 in rt:
                            out += uni.method_targets(r2, c2, f.attr) or [External(pf.nsrc(f))]
                if out:
                    ded: list = []
                    for x in out:
                        if isinstance(x, External):
                            if not any(isinstance(y, External) for y in ded):
                                ded.append(x)
                        elif not any(isinstance(y, FuncRef) and y.fn is x.fn for y in ded):
                            ded.append(x)
                    return ded
                if not unknown and all(uni.resolve_type(r, tn) is None for r, tn in types):
                    unknown = True
                if not unknown:
                    return [External(pf.nsrc(f))]
            d = pf.dotted(f)
            if d and uni.origin_external(ref.rel, d.split('.')[0]):
                return [External(d)]
            # by name over the analysed packages
            out = []
            for name, lst in uni.classes.items():
                for r, c in lst:
                    ms = _methods(c)
                    if f.attr in ms and not _is_abstract(ms[f.attr]):
                        out.append(FuncRef(r, c, ms[f.attr]))
            return out or [External(pf.nsrc(f))]
        return [External(pf.nsrc(f))]

    def _calls_of(self, node: ast.AST) -> List[ast.Call]:
        """Calls in evaluation order (arguments before the call), into lambdas, not into nested defs."""
        out: List[ast.Call] = []

        def rec(n: ast.AST) -> None:
            if isinstance(n, (ast.FunctionDef, ast.AsyncFunctionDef, ast.ClassDef)):
                return
            for c in ast.iter_child_nodes(n):
                rec(c)
            if isinstance(n, ast.Call):
                out.append(n)
        rec(node)
        return out

    def _eval_calls(self, node: ast.AST, states: List[_St], fc: _Fctx, cvs: Optional[List[Dict[int, tuple]]] = None) -> List[Tuple[_St, Dict[int, tuple]]]:
        cur: List[Tuple[_St, Dict[int, tuple]]] = [(s, {}) for s in states]
        for c in self._calls_of(node):
            nxt: List[Tuple[_St, Dict[int, tuple]]] = []
            value_call = (pf.dotted(c.func) or '') in _COPY_CTORS + ('cast', 'typing.cast')  # evaluated by val(), which sees the arguments
            for st, cv in cur:
                if value_call or self._data_op(c, st, cv, fc):
                    nxt.append((st, cv))
                else:
                    for s2 in self._do_call(c, st, cv, fc):
                        nxt.append((s2, dict(cv)))
            cur = nxt
            if len(cur) > self.MAX_STATES:
                raise Decline('too many paths')
        return cur

    def _do_call(self, c: ast.Call, st: _St, cv: Dict[int, tuple], fc: _Fctx, preset: Optional[Dict[str, int]] = None) -> List[_St]:
        named: Dict[str, int] = dict(preset or {})
        stars: List[str] = []
        pos: Dict[int, tuple] = {}
        star_pos = False
        for i, a in enumerate(c.args):
            if isinstance(a, ast.Starred):
                star_pos = True
                v = self.val(a.value, st, cv) if not (isinstance(a.value, ast.Name) and a.value.id in st.dicts) else ('fresh',)
                if v[0] not in _FRESH:
                    raise Decline(f'`{pf.nsrc(c)}`: followed object passed with *')
                continue
            if isinstance(a, ast.Name) and a.id in st.dicts:
                if star_pos:
                    raise Decline(f'`{pf.nsrc(c)}`: positional argument after *')
                pos[i] = ('dict', a.id)
                continue
            v = self.val(a, st, cv)
            if v[0] == 'entry':
                if star_pos:
                    raise Decline(f'`{pf.nsrc(c)}`: positional argument after *')
                pos[i] = v
            elif v[0] == 'dictval':
                raise Decline(f'`{pf.nsrc(c)}`: anonymous copy of the keyword dict passed positionally')
        anon: Dict[str, int] = {}
        for kw in c.keywords:
            if kw.arg is None:
                if isinstance(kw.value, ast.Name) and kw.value.id in st.dicts:
                    stars.append(kw.value.id)
                else:
                    v = self.val(kw.value, st, cv)
                    if v[0] == 'dictval':
                        anon.update(v[1])
                    elif v[0] == 'entry':
                        raise Decline(f'`{pf.nsrc(c)}` spreads the {self.key} mapping as keywords')
            elif kw.arg not in named:
                if isinstance(kw.value, ast.Name) and kw.value.id in st.dicts:
                    raise Decline(f'`{pf.nsrc(c)}` passes the keyword dict as one keyword')
                v = self.val(kw.value, st, cv)
                if v[0] == 'entry':
                    named[kw.arg] = v[1]
                elif v[0] == 'dictval':
                    raise Decline(f'`{pf.nsrc(c)}`: anonymous copy passed as keyword')
        if not named and not stars and not pos and not anon:
            cv[id(c)] = ('fresh',)
            if isinstance(c.func, ast.Name) and c.func.id in fc.nested:
                return self._run_nested(fc.nested[c.func.id], st, fc)  # a closure sees the followed names
            if len(st.skipped) < 40 and any(g in st.live for g in st.loc.values()):
                st.skipped.append(c)
            return [st]
        # what is passed by keyword (after ** expansion)
        by_kw: Dict[str, int] = dict(anon)
        missing = None
        for d in stars:
            for l, g in st.loc.items():
                if isinstance(l, tuple) and l[0] == d:
                    by_kw.setdefault(l[1], g)
            if (d, self.key) in st.gone and self.key not in named and isinstance(st.gone[(d, self.key)], tuple):
                missing = st.gone[(d, self.key)]
        by_kw.update(named)
        targets = self.resolve(fc, c.func, st)
        head = (pf.dotted(c.func) or '').split('.')[0]
        cv[id(c)] = ('fresh',)
        outs: List[_St] = []
        for t in targets:
            if isinstance(t, External):
                if pos and not by_kw:
                    if (pf.dotted(c.func) or '') in _BENIGN_CALLS or head in _LOGGERS:
                        outs.append(st)
                        continue
                    if any(v[0] == 'dict' for v in pos.values()):
                        raise Decline(f'`{pf.nsrc(c)}`: the keyword dict is handed to code outside the analysed packages')
                # a primitive: what it receives is what is sent
                s2 = st.copy()
                gs = [g for k, g in by_kw.items() if k == self.key] + [g for k, g in named.items() if k != self.key]
                if gs:
                    for g in gs:
                        if g in s2.live:
                            s2.forwarded = True
                            if t.text not in self.primitives:
                                self.primitives.append(t.text)
                        elif g in s2.why:
                            self._report_dead(g, s2, fc, c)
                            s2.forwarded = True
                        elif not self.origin:
                            # a mapping that never held the datum travels under its name: the one handed in was left behind
                            self._problem('dropped', fc, c, f'`{pf.nsrc(c)[:100]}` is issued with a `{self.key}` that is not (and is not built from) the one handed in: '
                                          f'{self._what()} is left behind on this path (e.g. the second round of a retry loop)')
                            s2.forwarded = True
                elif missing is not None:
                    text, qual, file, line = missing
                    if not any(p.where == qual and p.line == line for p in self.problems):
                        self.problems.append(Problem('dropped', qual, file, line, f'{text}; `{pf.nsrc(c)[:100]}` ({fc.ref.fn.name}) is then issued without {self._what()}'))
                    s2.forwarded = True
                outs.append(s2)
                continue
            if isinstance(t, tuple) and t[0] == 'nested':
                outs += self._run_nested(t[1], st, fc)
                continue
            outs += self._enter(t, c, st, fc, pos, by_kw, stars)
        return _dedupe(outs)

    def _run_nested(self, fn: pf.FuncDef, st: _St, fc: _Fctx) -> List[_St]:
        if any(a.arg in st.loc or a.arg in st.dicts for a in fn.args.args + fn.args.kwonlyargs):
            raise Decline(f'closure `{fn.name}` shadows a followed name')
        saved = fc.exits
        fc.exits = []
        out = self._block(fn.body, [st.copy()], fc)
        out += fc.exits
        fc.exits = saved
        return _dedupe(out)

    def _enter(self, t: FuncRef, c: ast.Call, st: _St, fc: _Fctx, pos: Dict[int, tuple], by_kw: Dict[str, int], stars: List[str]) -> List[_St]:
        fn = t.fn
        bad_deco = [d for d in pf.decorator_names(fn) if d.split('.')[-1] not in ('staticmethod', 'classmethod', 'abstractmethod', 'override', 'overload')]
        if bad_deco:
            raise Decline(f'{t.qual} is decorated with {bad_deco}: not followed')
        formals = [a.arg for a in fn.args.posonlyargs + fn.args.args]
        is_method_call = t.cls is not None and 'staticmethod' not in pf.decorator_names(fn) and isinstance(c.func, ast.Attribute)
        bound_via_param = isinstance(c.func, ast.Name) and c.func.id in fc.funcs and t.cls is not None and 'staticmethod' not in pf.decorator_names(fn)
        if is_method_call or bound_via_param:
            formals = formals[1:]
        kwonly = [a.arg for a in fn.args.kwonlyargs]
        kwname = fn.args.kwarg.arg if fn.args.kwarg else None
        s2 = _St()
        s2.live, s2.why = set(st.live), dict(st.why)
        byref: Dict[str, str] = {}
        funcs: Dict[str, list] = {}
        # positional
        npos_plain = 0
        for i, a in enumerate(c.args):
            if isinstance(a, ast.Starred):
                break
            npos_plain = i + 1
            if i >= len(formals):
                if i in pos:
                    raise Decline(f'`{pf.nsrc(c)}`: followed object lands in *{fn.args.vararg.arg if fn.args.vararg else "?"} of {t.qual}')
                continue
            p = formals[i]
            if i in pos:
                if pos[i][0] == 'dict':
                    d = pos[i][1]
                    s2.dicts.add(p)
                    byref[p] = d
                    for l, g in st.loc.items():
                        if isinstance(l, tuple) and l[0] == d:
                            s2.loc[(p, l[1])] = g
                    for l, w in st.gone.items():
                        if isinstance(l, tuple) and l[0] == d:
                            s2.gone[(p, l[1])] = w
                else:
                    s2.loc[p] = pos[i][1]
            else:
                fr = self._func_value(a, fc, st)
                if fr:
                    funcs[p] = fr
        for kw in c.keywords:
            if kw.arg is not None and kw.arg not in by_kw:
                fr = self._func_value(kw.value, fc, st)
                if fr and (kw.arg in formals or kw.arg in kwonly):
                    funcs[kw.arg] = fr
        via_kw = False
        for k, g in by_kw.items():
            if k in formals[npos_plain:] or k in kwonly:
                s2.loc[k] = g
                via_kw = True
            elif k in formals[:npos_plain]:
                raise Decline(f'`{pf.nsrc(c)}`: {k} given twice to {t.qual}')
            elif kwname is not None:
                s2.dicts.add(kwname)
                s2.loc[(kwname, k)] = g
                via_kw = True
            else:
                raise Decline(f'`{pf.nsrc(c)}`: {t.qual} does not accept the keyword {k!r}')
        if kwname is not None:
            s2.dicts.add(kwname)
            for d in stars:
                for l, w in st.gone.items():
                    if isinstance(l, tuple) and l[0] == d and (kwname, l[1]) not in s2.loc:
                        s2.gone[(kwname, l[1])] = w
            # the exact key set of the callee's ** dict, when every contribution is known
            ks: Optional[Set[str]] = set()
            for kw in c.keywords:
                if kw.arg is not None:
                    ks.add(kw.arg)  # type: ignore[union-attr]
                elif isinstance(kw.value, ast.Name) and st.keys.get(kw.value.id) is not None:
                    ks |= set(st.keys[kw.value.id]) | {l[1] for l in st.loc if isinstance(l, tuple) and l[0] == kw.value.id}  # type: ignore[arg-type,operator]
                else:
                    ks = None
                    break
            if ks is not None and not by_kw.keys() <= ks:
                ks |= set(by_kw)
            s2.keys[kwname] = frozenset(k for k in ks if k not in formals and k not in kwonly) if ks is not None else None
        for p, d in byref.items():
            s2.keys[p] = st.keys.get(d)
        carried = any(g in s2.live for g in s2.loc.values())
        exits = self._function(t, s2, funcs, expect_forward=via_kw and carried)
        outs: List[_St] = []
        for e in exits:
            s3 = st.copy()
            s3.live, s3.why = set(e.live), dict(e.why)
            s3.forwarded = st.forwarded or e.forwarded
            for p, d in byref.items():
                for l in [l for l in s3.loc if isinstance(l, tuple) and l[0] == d]:
                    del s3.loc[l]
                for l, g in e.loc.items():
                    if isinstance(l, tuple) and l[0] == p:
                        s3.loc[(d, l[1])] = g
                        s3.gone.pop((d, l[1]), None)
                for l, w in e.gone.items():
                    if isinstance(l, tuple) and l[0] == p:
                        s3.gone[(d, l[1])] = w
                s3.keys[d] = e.keys.get(p)
            outs.append(s3)
        return outs or []

    def _func_value(self, a: ast.AST, fc: _Fctx, st: _St) -> list:
        if isinstance(a, ast.Name):
            if a.id in fc.funcs:
                return fc.funcs[a.id]
            if a.id in fc.nested:
                return []
            own = [x for x in self.uni.funcs.get(a.id, []) if x[0] == fc.ref.rel]
            return [FuncRef(r, None, fn) for r, fn in own]
        if isinstance(a, ast.Attribute) and (pf.dotted(a) or '').split('.')[0] == (fc.recv or '\0'):
            ts = self.resolve(fc, a, st)
            return ts
        return []

    # -- functions ---------------------------------------------------------------------------
    def _function(self, t: FuncRef, s0: _St, funcs: Dict[str, list], expect_forward: bool) -> List[_St]:
        key = (id(t.fn), tuple(sorted((str(l), g in s0.live) for l, g in s0.loc.items())))
        if key in self._stack:
            return []  # recursion: the exits of the outer activation cover it (least fixpoint)
        self._n += 1
        if self._n > self.MAX_FUNCS:
            raise Decline('call chain too large')
        if t.qual not in self.chain:
            self.chain.append(t.qual)
        fc = _Fctx(t, funcs)
        self._stack.append(key)
        prev = self._cur
        self._cur = fc
        try:
            out = self._block(t.fn.body, [s0], fc)
        except Decline as e:
            raise Decline(f'{t.qual}: {e}') if '::' not in str(e) else e
        finally:
            self._stack.pop()
            self._cur = prev
        exits = _dedupe(out + fc.exits)
        if expect_forward and exits:
            fw = [e for e in exits if e.forwarded]
            if not fw:
                self._problem('dropped', fc, t.fn, f'{(t.cls.name + ".") if t.cls else ""}{t.fn.name} receives {self._what()} but no call on any path passes it on: it never reaches the request')
                for e in exits:
                    e.forwarded = True  # the blame is assigned here, not again in every caller
            elif len(fw) != len(exits):
                # a path that calls, without the datum, a function that receives it on another path issues the request without it
                found = False
                for e in exits:
                    if e.forwarded:
                        continue
                    for c in e.skipped:
                        quals = [x.qual for x in self.resolve(fc, c.func, e) if isinstance(x, FuncRef)]
                        hit = [q for q in quals if q in self.chain and q != t.qual]
                        if hit:
                            found = True
                            self._problem('dropped', fc, c, f'`{pf.nsrc(c)[:120]}` does not pass {self._what()} on although {hit[0].split("::")[-1]} receives it on the other path of '
                                          f'{t.fn.name}: on this path the request is issued without it')
                if not found and not self.problems:
                    raise Decline(f'{t.qual}: some paths return without issuing a request: not analysed')
        return exits

    def _assign_name(self, name: str, v: tuple, st: _St) -> None:
        for l in [l for l in st.loc if isinstance(l, tuple) and l[0] == name]:
            del st.loc[l]
        st.dicts.discard(name)
        st.loc.pop(name, None)
        st.consts.pop(name, None)
        st.keys.pop(name, None)
        if v[0] == 'entry':
            st.loc[name] = v[1]
        elif v[0] == 'const':
            st.consts[name] = v[1]
        elif v[0] == 'dictval':
            st.dicts.add(name)
            for k, g in v[1].items():
                st.loc[(name, k)] = g

    def _simple(self, stmt: ast.stmt, states: List[_St], fc: _Fctx) -> List[_St]:
        out: List[_St] = []
        for st, cv in self._eval_calls(stmt, states, fc):
            if isinstance(stmt, (ast.Assign, ast.AnnAssign)) and getattr(stmt, 'value', None) is not None:
                targets = stmt.targets if isinstance(stmt, ast.Assign) else [stmt.target]
                for tg in targets:
                    self._store(tg, stmt.value, st, cv, stmt, fc)
            elif isinstance(stmt, ast.AugAssign):
                if isinstance(stmt.target, ast.Name) and stmt.target.id in st.dicts and isinstance(stmt.op, ast.BitOr):
                    v = self.val(stmt.value, st, cv)
                    if isinstance(stmt.value, ast.Dict):
                        for kk, vv in zip(stmt.value.keys, stmt.value.values):
                            ks = self._const_key(kk) if kk is not None else None
                            if ks is None:
                                raise Decline(f'`{pf.nsrc(stmt)}` not followed')
                            self._store_slot(stmt.target.id, ks, vv, st, cv, stmt)
                    elif v[0] not in _FRESH:
                        raise Decline(f'`{pf.nsrc(stmt)}` not followed')
                elif isinstance(stmt.target, ast.Name) and stmt.target.id in st.loc and st.loc[stmt.target.id] in st.live:
                    if self.inner is not None and isinstance(stmt.op, ast.BitOr) and isinstance(stmt.value, ast.Dict):
                        for kk in stmt.value.keys:
                            ks = self._const_key(kk) if kk is not None else None
                            if ks is None:
                                raise Decline(f'`{pf.nsrc(stmt)}` not followed')
                            if ks.lower() == self.inner.lower():
                                self._inner_written(st.loc[stmt.target.id], st, stmt)
                    else:
                        raise Decline(f'`{pf.nsrc(stmt)}` changes the followed value')
                else:
                    self.val(stmt.value, st, cv)
            elif isinstance(stmt, ast.Delete):
                for tg in stmt.targets:
                    if isinstance(tg, ast.Subscript) and isinstance(tg.value, ast.Name) and tg.value.id in st.dicts:
                        k = self._const_key(tg.slice)
                        if k is None:
                            raise Decline(f'`{pf.nsrc(stmt)}`: computed key')
                        if st.loc.pop((tg.value.id, k), None) is not None:
                            st.gone[(tg.value.id, k)] = self._why(stmt, f'`{pf.nsrc(stmt)}` takes {k!r} out of {tg.value.id}')
                        st.del_key(tg.value.id, k)
                    elif isinstance(tg, ast.Subscript):
                        g = self._peek_entry(tg.value, st)
                        if g is not None and self.inner is not None:
                            k = self._const_key(tg.slice)
                            if k is None:
                                raise Decline(f'`{pf.nsrc(stmt)}`: computed key')
                            if k.lower() == self.inner.lower():
                                st.kill(g, self._why(stmt, f'`{pf.nsrc(stmt)}` removes {self.inner!r}'))
                    elif isinstance(tg, ast.Name):
                        self._assign_name(tg.id, ('fresh',), st)
            elif isinstance(stmt, ast.Expr):
                self.val(stmt.value, st, cv)
            elif isinstance(stmt, ast.Assert):
                pass
            out.append(st)
        return out

    def _store(self, tg: ast.AST, value: ast.AST, st: _St, cv: Dict[int, tuple], stmt: ast.stmt, fc: _Fctx) -> None:
        if isinstance(tg, ast.Name):
            v = self.val(value, st, cv)
            self._assign_name(tg.id, v, st)
            return
        if isinstance(tg, (ast.Tuple, ast.List)):
            v = self.val(value, st, cv)
            if v[0] not in _FRESH:
                raise Decline(f'`{pf.nsrc(stmt)}`: followed value unpacked')
            for x in tg.elts:
                if isinstance(x, ast.Name):
                    self._assign_name(x.id, ('fresh',), st)
                elif isinstance(x, ast.Starred) and isinstance(x.value, ast.Name):
                    self._assign_name(x.value.id, ('fresh',), st)
            return
        if isinstance(tg, ast.Subscript) and isinstance(tg.value, ast.Name) and tg.value.id in st.dicts:
            k = self._const_key(tg.slice)
            if k is None:
                if (pf.nsrc(tg.slice), tg.value.id) in fc.guards:
                    return
                raise Decline(f'`{pf.nsrc(stmt)}`: computed key on a followed dict')
            self._store_slot(tg.value.id, k, value, st, cv, stmt)
            return
        if isinstance(tg, ast.Subscript):
            g = self._peek_entry(tg.value, st)
            if g is None and id(tg.value) in cv and cv[id(tg.value)][0] == 'entry':
                g = cv[id(tg.value)][1]  # e.g. kwargs.setdefault('headers', {})['k'] = v
            if g is None and isinstance(tg.value, ast.Name) and self.origin and self.inner is not None and self._const_key(tg.slice) == self.inner:
                # `<fresh mapping>[inner] = ...`: the datum comes into being here
                g = self.newg()
                st.loc[tg.value.id] = g
            if g is not None and self.inner is not None:
                k = self._const_key(tg.slice)
                if k is None:
                    if (pf.nsrc(tg.slice), pf.nsrc(tg.value)) in fc.guards:
                        return
                    if g in st.live:
                        raise Decline(f'`{pf.nsrc(stmt)}`: computed key written into the {self.key} mapping')
                    return
                if k.lower() == self.inner.lower():
                    self._inner_written(g, st, stmt)
            v = self.val(value, st, cv)
            if v[0] not in _FRESH:
                raise Decline(f'`{pf.nsrc(stmt)}` stores the followed object inside another container')
            return
        if isinstance(tg, ast.Attribute):
            v = self.val(value, st, cv)
            if v[0] not in _FRESH:
                raise Decline(f'`{pf.nsrc(stmt)}` stores the followed object on an attribute')
            return
        raise Decline(f'`{pf.nsrc(stmt)}` not analysed')

    def _split(self, test: ast.AST, states: List[_St], fc: _Fctx) -> Tuple[List[_St], List[_St]]:
        t_states, f_states = [], []
        for st, cv in self._eval_calls(test, states, fc):
            v = self.truth(test, st)
            if v is not False:
                t_states.append(st if v is True else st.copy())
            if v is not True:
                f_states.append(st if v is False else st.copy())
        return t_states, f_states

    def _guard_of(self, test: ast.AST, branch: bool) -> Optional[Tuple[str, str]]:
        """`k not in X` known on this branch."""
        if isinstance(test, ast.Compare) and len(test.ops) == 1:
            if (isinstance(test.ops[0], ast.NotIn) and branch) or (isinstance(test.ops[0], ast.In) and not branch):
                return (pf.nsrc(test.left), pf.nsrc(test.comparators[0]))
        return None

    def _block(self, stmts: Sequence[ast.stmt], states: List[_St], fc: _Fctx) -> List[_St]:
        for stmt in stmts:
            states = _dedupe(states)
            if not states:
                return []
            if len(states) > self.MAX_STATES:
                raise Decline('too many paths')
            if isinstance(stmt, ast.If):
                ts, fs = self._split(stmt.test, states, fc)
                gt, gf = self._guard_of(stmt.test, True), self._guard_of(stmt.test, False)
                if gt:
                    fc.guards.append(gt)
                a = self._block(stmt.body, ts, fc) if ts else []
                if gt:
                    fc.guards.pop()
                if gf:
                    fc.guards.append(gf)
                b = (self._block(stmt.orelse, fs, fc) if stmt.orelse else fs) if fs else []
                if gf:
                    fc.guards.pop()
                states = a + b
            elif isinstance(stmt, (ast.While, ast.For, ast.AsyncFor)):
                states = self._loop(stmt, states, fc)
            elif isinstance(stmt, (ast.With, ast.AsyncWith)):
                cur = states
                for it in stmt.items:
                    cur = [s for s, _ in self._eval_calls(it.context_expr, cur, fc)]
                    if it.optional_vars is not None:
                        for s in cur:
                            for x in ast.walk(it.optional_vars):
                                if isinstance(x, ast.Name):
                                    self._assign_name(x.id, ('fresh',), s)
                states = self._block(stmt.body, cur, fc)
            elif isinstance(stmt, ast.Try) or (hasattr(ast, 'TryStar') and isinstance(stmt, getattr(ast, 'TryStar'))):
                entry = [s.copy() for s in states]
                body = self._block(stmt.body, states, fc)
                normal = self._block(stmt.orelse, body, fc) if stmt.orelse else body
                hstart = _dedupe(entry + [s.copy() for s in body])
                outs = list(normal)
                for h in stmt.handlers:
                    hs = [s.copy() for s in hstart]
                    if h.name:
                        for s in hs:
                            self._assign_name(h.name, ('fresh',), s)
                    outs += self._block(h.body, hs, fc)
                if stmt.finalbody:
                    outs = self._block(stmt.finalbody, outs, fc)
                states = outs
            elif isinstance(stmt, ast.Return):
                if stmt.value is not None:
                    res = self._eval_calls(stmt.value, states, fc)
                    for s, cv in res:
                        v = self.val(stmt.value, s, cv)
                        if v[0] not in _FRESH and (v[0] == 'dictval' or v[1] in s.live):
                            raise Decline(f'{fc.ref.qual}: `{pf.nsrc(stmt)[:80]}` returns the followed object')
                    fc.exits += [s for s, _ in res]
                else:
                    fc.exits += states
                return []
            elif isinstance(stmt, ast.Raise):
                if stmt.exc is not None:
                    self._eval_calls(stmt.exc, states, fc)
                return []
            elif isinstance(stmt, ast.Break):
                if fc.breaks:
                    fc.breaks[-1] += states
                return []
            elif isinstance(stmt, ast.Continue):
                if fc.conts:
                    fc.conts[-1] += states
                return []
            elif isinstance(stmt, (ast.FunctionDef, ast.AsyncFunctionDef)):
                fc.nested[stmt.name] = stmt
            elif isinstance(stmt, (ast.ClassDef, ast.Pass, ast.Import, ast.ImportFrom, ast.Global, ast.Nonlocal)):
                pass
            elif hasattr(ast, 'Match') and isinstance(stmt, ast.Match):
                raise Decline(f'{fc.ref.qual}: match statement')
            else:
                states = self._simple(stmt, states, fc)
        return _dedupe(states)

    def _loop(self, stmt: ast.stmt, states: List[_St], fc: _Fctx) -> List[_St]:
        is_while = isinstance(stmt, ast.While)
        const_true = is_while and isinstance(stmt.test, ast.Constant) and bool(stmt.test.value)  # type: ignore[attr-defined]
        exits: List[_St] = []
        seen = set()
        cur = states
        for _ in range(4):
            cur = [s for s in _dedupe(cur) if s.sig() not in seen]
            if not cur:
                break
            for s in cur:
                seen.add(s.sig())
            if is_while:
                ts, fs = self._split(stmt.test, cur, fc)  # type: ignore[attr-defined]
                if not const_true:
                    exits += fs
            else:
                ts = [s for s, _ in self._eval_calls(stmt.iter, cur, fc)]  # type: ignore[attr-defined]
                exits += [s.copy() for s in ts]
                for s in ts:
                    for x in ast.walk(stmt.target):  # type: ignore[attr-defined]
                        if isinstance(x, ast.Name):
                            self._assign_name(x.id, ('fresh',), s)
            fc.breaks.append([])
            fc.conts.append([])
            body = self._block(stmt.body, ts, fc)  # type: ignore[attr-defined]
            exits += fc.breaks.pop()
            cur = body + fc.conts.pop()
        else:
            if not is_while:
                exits += cur
            elif not const_true:
                exits += cur
        if getattr(stmt, 'orelse', None):
            exits = self._block(stmt.orelse, exits, fc)  # type: ignore[attr-defined]
        return _dedupe(exits)

    # -- entry points ------------------------------------------------------------------------
    def start_at_call(self, rel: str, cls: Optional[ast.ClassDef], fn: pf.FuncDef, call: ast.Call, kwname: str) -> None:
        """The datum is the value of keyword `kwname` of `call` inside fn."""
        fc = _Fctx(FuncRef(rel, cls, fn), {})
        self._cur = fc
        st = _St()
        g = self.newg()
        st.live.add(g)
        self.chain.append(fc.ref.qual)
        outs = self._do_call(call, st, {}, fc, preset={kwname: g})
        if not any(s.forwarded for s in outs) and not self.problems:
            raise Decline(f'{fc.ref.qual}: the call `{pf.nsrc(call)[:80]}` was not followed to a request')

    def start_in_function(self, t: FuncRef, kw_keys: Sequence[str]) -> None:
        """origin mode: analyse t from its entry; its **kwargs is known to hold exactly `kw_keys`."""
        st = _St()
        kwname = t.fn.args.kwarg.arg if t.fn.args.kwarg else None
        if kwname is None:
            raise Decline(f'{t.qual} has no ** parameter')
        st.dicts.add(kwname)
        st.keys[kwname] = frozenset(kw_keys)
        if self.key not in kw_keys:
            st.gone[(kwname, self.key)] = 'not passed by the caller'
        exits = self._function(t, st, {}, expect_forward=False)
        if not self.origins:
            raise Decline(f'{t.qual}: no statement sets {self._what()}')
        if exits and not any(e.forwarded for e in exits) and not self.problems:
            self.problems.append(Problem('dropped', t.qual, self.uni.mods[t.rel].path, t.fn.lineno,
                                         f'{t.fn.name} sets {self._what()} but no call on any path passes it on'))


# =================================================================================================
# Part C: the Range a back end sends, when it is not spelled out at the request call of `_open_from`
# =================================================================================================
#
# `RangeExec` executes `_open_from` abstractly, once for "length given" and once for "length is None", following calls into
# functions of the same module (methods of the class / of attribute types defined there, nested functions, lambdas) with the
# arguments bound to the parameters.  Values are symbolic: string templates (literal / expression parts), dicts built and updated
# along the path (shared by reference, copied by dict(x) / **x), expressions over the root symbols `start` / `length`, None, closures.
# Tests that the None-ness of a value decides are decided; every other test splits the path and is recorded as a path condition.
# Every call that leaves the module with a `headers=` / `Range=` keyword or a tracked `**dict` - and every call the back end's request
# predicate names - is an EVENT: (Range template or absent, path condition).  A closure handed to an object that outlives the call
# (a re-open callback) is executed afterwards with fresh symbols for its parameters: its events are RE-REQUESTS.
# Nothing is run; loops around requests and unresolvable calls that receive tracked values are declined.

from . import c23norm, strparts  # noqa: E402


class RxE:
    """An expression over the root symbols (substituted syntax tree)."""
    __slots__ = ('e',)

    def __init__(self, e: ast.AST):
        self.e = e

    def __deepcopy__(self, memo):
        return self


class RxS:
    """A string template."""
    __slots__ = ('parts',)

    def __init__(self, parts: List[Tuple[str, str]]):
        merged: List[Tuple[str, str]] = []
        for p in parts:
            if p[0] == 'lit' and merged and merged[-1][0] == 'lit':
                merged[-1] = ('lit', merged[-1][1] + p[1])
            elif not (p[0] == 'lit' and p[1] == ''):
                merged.append(p)
        self.parts = merged

    def __deepcopy__(self, memo):
        return self


class RxD:
    """A dict object (shared by reference)."""

    def __init__(self, items: Optional[Dict[str, object]] = None, rest: bool = False):
        self.items: Dict[str, object] = dict(items or {})
        self.rest = rest  # may hold further, unknown keys


class RxC:
    """A closure: nested def / lambda with the frame it was created in."""

    def __init__(self, node: ast.AST, env: Dict[str, object], ref: 'FuncRef'):
        self.node, self.env, self.ref = node, env, ref

    def __deepcopy__(self, memo):
        c = RxC(self.node, copy.deepcopy(self.env, memo), self.ref)
        return c


class _RxNone:
    def __deepcopy__(self, memo):
        return self

    def __repr__(self):
        return 'None'


class _RxUnk:
    def __deepcopy__(self, memo):
        return self

    def __repr__(self):
        return '?'


RX_NONE, RX_UNK = _RxNone(), _RxUnk()


class RangeEvent:
    def __init__(self, where: str, file: str, call: ast.Call, value: object, cond: List[Tuple[str, bool]], given: bool, deferred: List[str]):
        self.where, self.file, self.call, self.value, self.cond, self.given, self.deferred = where, file, call, value, list(cond), given, list(deferred)


class _World:
    """One path: every frame of the call stack (so that a path split copies all of them consistently), the path condition, the
    closures that escaped into longer-lived objects."""

    def __init__(self):
        self.cond: List[Tuple[str, bool]] = []
        self.escaped: List[RxC] = []
        self.frames: List[Dict[str, object]] = []


class RangeExec:
    MAX_PATHS = 256

    def __init__(self, uni: 'Universe', rel: str, cls: ast.ClassDef, fn: pf.FuncDef, start: str, length: str, terminal):
        self.uni, self.rel, self.cls, self.fn, self.start, self.length, self.terminal = uni, rel, cls, fn, start, length, terminal
        self.events: List[RangeEvent] = []
        self.given = True
        self.deferred: List[str] = []
        self.n_paths = 0
        self.depth = 0

    # ---- entry
    def run(self) -> List[RangeEvent]:
        for given in (True, False):
            self.given = given
            env: Dict[str, object] = {a.arg: RxE(ast.Name(id=a.arg, ctx=ast.Load())) for a in self.fn.args.args + self.fn.args.kwonlyargs}
            if not given:
                env[self.length] = RX_NONE
            w = _World()
            w.frames.append(env)
            ref = FuncRef(self.rel, self.cls, self.fn)
            outs = self.block(self.fn.body, [(w, env)], ref)
            # closures that escaped into longer-lived objects: called later, with arguments we know nothing about
            for w2, _env, _out in outs:
                for i in range(len(w2.escaped)):
                    self.run_escaped(i, w2)
        return self.events

    def run_escaped(self, i: int, w: _World) -> None:
        w2 = copy.deepcopy(w)
        c = w2.escaped[i]
        w2.escaped = []
        node = c.node
        params = [a.arg for a in node.args.args]
        if node.args.vararg or node.args.kwarg or node.args.kwonlyargs:
            raise Decline(f'{c.ref.qual}: callback with star / keyword-only parameters')
        env = dict(c.env)
        fresh = []
        for p_ in params:
            sym = p_ if p_ not in (self.start, self.length) else p_ + '_cb'
            env[p_] = RxE(ast.Name(id=sym, ctx=ast.Load()))
            fresh.append(sym)
        saved = self.deferred
        self.deferred = saved + fresh
        try:
            w2.frames.append(env)
            if isinstance(node, ast.Lambda):
                self.expr_stmt_value(node.body, w2, env, c.ref)
            else:
                self.block(node.body, [(w2, env)], c.ref)
        finally:
            self.deferred = saved

    # ---- statements: worlds are (world, env) pairs; result: list of (world, env, outcome) with outcome None | ('return', value) | ('raise',)
    def block(self, stmts: Sequence[ast.stmt], states: List[Tuple[_World, Dict[str, object]]], ref: 'FuncRef') -> List[Tuple[_World, Dict[str, object], Optional[tuple]]]:
        done: List[Tuple[_World, Dict[str, object], Optional[tuple]]] = []
        cur = list(states)
        for st in stmts:
            nxt: List[Tuple[_World, Dict[str, object]]] = []
            for w, env in cur:
                for w2, env2, out in self.stmt(st, w, env, ref):
                    if out is None:
                        nxt.append((w2, env2))
                    else:
                        done.append((w2, env2, out))
            cur = nxt
            self.n_paths = max(self.n_paths, len(cur) + len(done))
            if len(cur) + len(done) > self.MAX_PATHS:
                raise Decline(f'{ref.qual}: too many paths')
        return done + [(w, env, None) for w, env in cur]

    def fork(self, w: _World, env: Dict[str, object]) -> Tuple[_World, Dict[str, object]]:
        assert w.frames and w.frames[-1] is env
        w2 = copy.deepcopy(w)
        return w2, w2.frames[-1]

    def stmt(self, st: ast.stmt, w: _World, env: Dict[str, object], ref: 'FuncRef') -> List[Tuple[_World, Dict[str, object], Optional[tuple]]]:
        if isinstance(st, (ast.Pass, ast.Import, ast.ImportFrom, ast.Global, ast.Nonlocal)) or isinstance(st, ast.Expr) and isinstance(st.value, ast.Constant):
            return [(w, env, None)]
        if isinstance(st, (ast.FunctionDef, ast.AsyncFunctionDef)):
            env[st.name] = RxC(st, env, ref)
            return [(w, env, None)]
        if isinstance(st, ast.Expr):
            return [(w2, e2, None) for w2, e2, _v in self.expr_stmt_value(st.value, w, env, ref)]
        if isinstance(st, (ast.Assign, ast.AnnAssign)):
            if st.value is None:
                return [(w, env, None)]
            tgts = st.targets if isinstance(st, ast.Assign) else [st.target]
            out = []
            for w2, e2, v in self.expr_stmt_value(st.value, w, env, ref):
                for t in tgts:
                    self.store(t, v, e2, ref, st)
                out.append((w2, e2, None))
            return out
        if isinstance(st, ast.AugAssign):
            if isinstance(st.target, ast.Name) and isinstance(st.op, ast.Add):
                cur = env.get(st.target.id)
                add = self.value(st.value, env, ref, w)
                if isinstance(cur, RxS):
                    env[st.target.id] = RxS(cur.parts + self.as_parts(add, st.value, env))
                    return [(w, env, None)]
            self.kill(st.target, env)
            return [(w, env, None)]
        if isinstance(st, ast.Return):
            if st.value is None:
                return [(w, env, ('return', RX_NONE))]
            return [(w2, e2, ('return', v)) for w2, e2, v in self.expr_stmt_value(st.value, w, env, ref)]
        if isinstance(st, ast.Raise):
            return [(w, env, ('raise',))]
        if isinstance(st, ast.Assert):
            t = self.truth(st.test, env, ref, w)
            if t is False:
                return [(w, env, ('raise',))]
            return [(w, env, None)]
        if isinstance(st, ast.If):
            res = []
            for w2, env2, b in self.branches(st.test, w, env, ref):
                res += self.block(st.body if b else st.orelse, [(w2, env2)], ref)
            return res
        if isinstance(st, (ast.With, ast.AsyncWith)):
            for it in st.items:
                if it.optional_vars is not None:
                    self.kill(it.optional_vars, env)
            return self.block(st.body, [(w, env)], ref)
        if isinstance(st, ast.Try):
            outs = self.block(st.body, [(w, env)], ref)
            res = []
            for w2, e2, out in outs:
                if out is None and st.orelse:
                    res += self.block(st.orelse, [(w2, e2)], ref)
                else:
                    res.append((w2, e2, out))
            if st.finalbody:
                fin = []
                for w2, e2, out in res:
                    for w3, e3, out3 in self.block(st.finalbody, [(w2, e2)], ref):
                        fin.append((w3, e3, out3 if out3 is not None else out))
                res = fin
            return res
        if isinstance(st, (ast.For, ast.AsyncFor, ast.While)):
            if any(isinstance(x, (ast.Call, ast.Await)) and self.interesting_call(x, env) for x in ast.walk(st)):
                raise Decline(f'{ref.qual}: a request-related call inside a loop (line {st.lineno})')
            for x in ast.walk(st):
                if isinstance(x, (ast.Name,)) and isinstance(x.ctx, ast.Store):
                    env[x.id] = RX_UNK
                if isinstance(x, ast.Subscript) and isinstance(x.ctx, ast.Store) and isinstance(x.value, ast.Name) and isinstance(env.get(x.value.id), RxD):
                    raise Decline(f'{ref.qual}: a tracked dict is updated inside a loop (line {st.lineno})')
            return [(w, env, None)]
        if isinstance(st, ast.Delete):
            for t in st.targets:
                if isinstance(t, ast.Subscript) and isinstance(t.value, ast.Name) and isinstance(env.get(t.value.id), RxD):
                    k = pf.const_str(t.slice)
                    if k is None:
                        raise Decline(f'{ref.qual}: `{pf.nsrc(st)}` not recognised')
                    env[t.value.id].items.pop(k, None)  # type: ignore[union-attr]
                else:
                    self.kill(t, env)
            return [(w, env, None)]
        raise Decline(f'{ref.qual}: statement `{pf.nsrc(st)[:60]}` not recognised')

    def branches(self, t: ast.AST, w: _World, env: Dict[str, object], ref: 'FuncRef') -> List[Tuple[_World, Dict[str, object], bool]]:
        """The outcomes of a test: decided, or one world per atom valuation that matters (short-circuit order), each atom recorded in
        the path condition."""
        v = self.truth(t, env, ref, w)
        if v is not None:
            return [(w, env, v)]
        if isinstance(t, ast.UnaryOp) and isinstance(t.op, ast.Not):
            return [(w2, e2, not b) for w2, e2, b in self.branches(t.operand, w, env, ref)]
        if isinstance(t, ast.BoolOp):
            stop = isinstance(t.op, ast.Or)  # the value that ends the evaluation
            done: List[Tuple[_World, Dict[str, object], bool]] = []
            cur = [(w, env)]
            for x in t.values:
                nxt = []
                for w1, e1 in cur:
                    for w2, e2, b in self.branches(x, w1, e1, ref):
                        if b == stop:
                            done.append((w2, e2, stop))
                        else:
                            nxt.append((w2, e2))
                cur = nxt
            return done + [(w2, e2, not stop) for w2, e2 in cur]
        w2, env2 = self.fork(w, env)
        txt = self.cond_text(t, env)
        w.cond.append((txt, True))
        w2.cond.append((txt, False))
        return [(w, env, True), (w2, env2, False)]

    def kill(self, t: ast.AST, env: Dict[str, object]) -> None:
        for x in ast.walk(t):
            if isinstance(x, ast.Name):
                env[x.id] = RX_UNK

    def store(self, t: ast.AST, v: object, env: Dict[str, object], ref: 'FuncRef', st: ast.AST) -> None:
        if isinstance(t, ast.Name):
            env[t.id] = v
            return
        if isinstance(t, ast.Subscript) and isinstance(t.value, ast.Name) and isinstance(env.get(t.value.id), RxD):
            k = pf.const_str(t.slice)
            d = env[t.value.id]
            if k is None:
                d.rest = True  # type: ignore[union-attr]
                if 'Range' in d.items or 'headers' in d.items:  # type: ignore[union-attr]
                    raise Decline(f'{ref.qual}: `{pf.nsrc(st)[:60]}` stores under a computed key into a dict that carries the Range')
                return
            d.items[k] = v  # type: ignore[union-attr]
            return
        if isinstance(t, ast.Subscript):
            base = self.value(t.value, env, ref, None)
            k = pf.const_str(t.slice)
            if isinstance(base, RxD) and k is not None:
                base.items[k] = v
                return
        if isinstance(t, (ast.Tuple, ast.List)):
            self.kill(t, env)
            return
        # attribute stores: a closure stored on an object outlives the call
        if isinstance(t, ast.Attribute) and isinstance(v, RxC):
            raise Decline(f'{ref.qual}: closure stored on an attribute')

    # ---- values
    def subst(self, e: ast.AST, env: Dict[str, object]) -> ast.AST:
        ex = self

        class S(ast.NodeTransformer):
            def visit_Name(self, node: ast.Name):
                v = env.get(node.id)
                if isinstance(v, RxE):
                    return copy.deepcopy(v.e)
                if v is RX_NONE:
                    return ast.Constant(value=None)
                if v is RX_UNK or isinstance(v, (RxS, RxD, RxC)):
                    return ast.Name(id=f'{node.id}?', ctx=ast.Load())
                return node

            def visit_Lambda(self, node):
                return node
        return S().visit(copy.deepcopy(e))

    def cond_text(self, e: ast.AST, env: Dict[str, object]) -> str:
        return pf.nsrc(self.subst(e, env))

    def as_parts(self, v: object, e: ast.AST, env: Dict[str, object]) -> List[Tuple[str, str]]:
        if isinstance(v, RxS):
            return list(v.parts)
        if isinstance(v, RxE):
            x = v.e
            if isinstance(x, ast.Call) and isinstance(x.func, ast.Name) and x.func.id == 'str' and len(x.args) == 1:
                x = x.args[0]
            return [('expr', pf.nsrc(x))]
        return [('expr', f'<{pf.nsrc(e)[:30]}>?')]

    def value(self, e: ast.AST, env: Dict[str, object], ref: 'FuncRef', w: Optional[_World]) -> object:
        """Side-effect free evaluation (calls other than dict / str helpers give an unknown value)."""
        if isinstance(e, ast.Await):
            return self.value(e.value, env, ref, w)
        if (isinstance(e, ast.Call) and isinstance(e.func, ast.Attribute) and e.func.attr in ('format', 'join') and isinstance(e.func.value, ast.Constant)) \
                or (isinstance(e, ast.BinOp) and isinstance(e.op, ast.Mod) and isinstance(e.left, ast.Constant) and isinstance(e.left.value, str)):
            # '<lit>'.format(..) / '<lit>' % (..) / ''.join([..]): one spelling of a string template (engines/c23norm)
            e2 = c23norm.strnorm(e)
            if e2 is not e and not (isinstance(e2, ast.Call) and isinstance(e2.func, ast.Attribute) and e2.func.attr in ('format', 'join')) \
                    and not (isinstance(e2, ast.BinOp) and isinstance(e2.op, ast.Mod)):
                return self.value(e2, env, ref, w)
        if isinstance(e, ast.Constant):
            if e.value is None:
                return RX_NONE
            if isinstance(e.value, str):
                return RxS([('lit', e.value)])
            return RxE(e)
        if isinstance(e, ast.Name):
            if e.id in env:
                return env[e.id]
            return RxE(e)
        if isinstance(e, ast.JoinedStr) or (isinstance(e, ast.BinOp) and isinstance(e.op, ast.Add)):
            if isinstance(e, ast.BinOp):
                a, b = self.value(e.left, env, ref, w), self.value(e.right, env, ref, w)
                if isinstance(a, RxS) or isinstance(b, RxS):
                    return RxS(self.as_parts(a, e.left, env) + self.as_parts(b, e.right, env))
                return RxE(self.subst(e, env))
            parts: List[Tuple[str, str]] = []
            for v in e.values:
                if isinstance(v, ast.FormattedValue):
                    if v.conversion != -1 or v.format_spec is not None:
                        return RX_UNK
                    parts += self.as_parts(self.value(v.value, env, ref, w), v.value, env)
                elif isinstance(v, ast.Constant):
                    parts.append(('lit', str(v.value)))
            return RxS(parts)
        if isinstance(e, ast.Dict):
            d = RxD()
            for k, v in zip(e.keys, e.values):
                if k is None:
                    src = self.value(v, env, ref, w)
                    if isinstance(src, RxD):
                        d.items.update(src.items)
                        d.rest = d.rest or src.rest
                    else:
                        d.rest = True
                else:
                    ks = pf.const_str(k)
                    if ks is None:
                        d.rest = True
                    else:
                        d.items[ks] = self.value(v, env, ref, w)
            return d
        if isinstance(e, ast.Lambda):
            return RxC(e, env, ref)
        if isinstance(e, ast.Subscript):
            base = self.value(e.value, env, ref, w)
            k = pf.const_str(e.slice)
            if isinstance(base, RxD) and k is not None:
                if k in base.items:
                    return base.items[k]
                return RX_UNK
            return RX_UNK
        if isinstance(e, ast.BoolOp) and isinstance(e.op, ast.Or) and len(e.values) == 2:
            a = self.value(e.values[0], env, ref, w)
            if a is RX_NONE or (isinstance(a, RxD) and not a.items and not a.rest):
                return self.value(e.values[1], env, ref, w)
            if isinstance(a, RxD) and a.items:
                return a
            return RX_UNK
        if isinstance(e, ast.IfExp):
            t = self.truth(e.test, env, ref, w)
            if t is None:
                return RX_UNK
            return self.value(e.body if t else e.orelse, env, ref, w)
        if isinstance(e, ast.Call):
            f = e.func
            name = pf.dotted(f) or ''
            if name == 'dict' and len(e.args) <= 1:
                # dict() / dict(d) / dict(k=v, ...) / dict(d, k=v) / dict(**d)
                d0 = RxD()
                if e.args:
                    src = self.value(e.args[0], env, ref, w)
                    d0 = RxD(src.items, src.rest) if isinstance(src, RxD) else RxD(rest=True)
                for k in e.keywords:
                    if k.arg is None:
                        src = self.value(k.value, env, ref, w)
                        if isinstance(src, RxD):
                            d0.items.update(src.items)
                            d0.rest = d0.rest or src.rest
                        else:
                            d0.rest = True
                    else:
                        d0.items[k.arg] = self.value(k.value, env, ref, w)
                return d0
            if name == 'str' and len(e.args) == 1 and not e.keywords:
                v = self.value(e.args[0], env, ref, w)
                return RxS(self.as_parts(v, e.args[0], env)) if isinstance(v, (RxE, RxS)) else RX_UNK
            if isinstance(f, ast.Attribute):
                recv = self.value(f.value, env, ref, w)
                if isinstance(recv, RxD):
                    k = pf.const_str(e.args[0]) if e.args else None
                    if f.attr == 'copy' and not e.args:
                        return RxD(recv.items, recv.rest)
                    if f.attr == 'get' and k is not None:
                        if k in recv.items:
                            return recv.items[k]
                        return RX_UNK if recv.rest else (self.value(e.args[1], env, ref, w) if len(e.args) > 1 else RX_NONE)
                    if f.attr == 'pop' and k is not None:
                        if k in recv.items:
                            return recv.items.pop(k)
                        return RX_UNK if recv.rest else (self.value(e.args[1], env, ref, w) if len(e.args) > 1 else RX_UNK)
                    if f.attr == 'setdefault' and k is not None and len(e.args) == 2:
                        if k not in recv.items:
                            if recv.rest:
                                return RX_UNK
                            recv.items[k] = self.value(e.args[1], env, ref, w)
                        return recv.items[k]
                    if f.attr == 'update':
                        for a in e.args:
                            src = self.value(a, env, ref, w)
                            if isinstance(src, RxD):
                                recv.items.update(src.items)
                                recv.rest = recv.rest or src.rest
                            else:
                                recv.rest = True
                        for kw in e.keywords:
                            if kw.arg:
                                recv.items[kw.arg] = self.value(kw.value, env, ref, w)
                        return RX_NONE
            return RX_UNK
        if isinstance(e, (ast.Attribute, ast.BinOp, ast.UnaryOp, ast.Compare)):
            return RxE(self.subst(e, env))
        return RX_UNK

    def truth(self, t: ast.AST, env: Dict[str, object], ref: 'FuncRef', w: Optional[_World]) -> Optional[bool]:
        if isinstance(t, ast.UnaryOp) and isinstance(t.op, ast.Not):
            v = self.truth(t.operand, env, ref, w)
            return None if v is None else not v
        if isinstance(t, ast.BoolOp):
            vs = [self.truth(x, env, ref, w) for x in t.values]
            if isinstance(t.op, ast.And):
                return False if any(v is False for v in vs) else (True if all(v is True for v in vs) else None)
            return True if any(v is True for v in vs) else (False if all(v is False for v in vs) else None)
        if isinstance(t, ast.Compare) and len(t.ops) == 1:
            op, r = t.ops[0], t.comparators[0]
            if isinstance(r, ast.Constant) and r.value is None and isinstance(op, (ast.Is, ast.IsNot, ast.Eq, ast.NotEq)):
                v = self.value(t.left, env, ref, w)
                if v is RX_NONE:
                    return isinstance(op, (ast.Is, ast.Eq))
                if isinstance(v, (RxS, RxD, RxC)) or (isinstance(v, RxE) and isinstance(v.e, ast.Name) and v.e.id == self.length and self.given) \
                        or (isinstance(v, RxE) and isinstance(v.e, ast.Constant)):
                    return isinstance(op, (ast.IsNot, ast.NotEq))
                return None
            if isinstance(op, (ast.In, ast.NotIn)):
                k = pf.const_str(t.left)
                d = self.value(r, env, ref, w)
                if k is not None and isinstance(d, RxD):
                    if k in d.items:
                        return isinstance(op, ast.In)
                    if not d.rest:
                        return isinstance(op, ast.NotIn)
            return None
        v = self.value(t, env, ref, w) if isinstance(t, (ast.Name, ast.Subscript, ast.Call, ast.Constant)) else None
        if v is RX_NONE:
            return False
        if isinstance(v, RxE) and isinstance(v.e, ast.Constant) and isinstance(v.e.value, (bool, int)):
            return bool(v.e.value)
        if isinstance(v, RxD):
            return True if v.items else (None if v.rest else False)
        if isinstance(v, RxC):
            return True
        if isinstance(v, RxE) and isinstance(v.e, ast.Name) and v.e.id == self.length and self.given:
            return None  # a given length may still be 0 as far as this test is concerned
        return None

    # ---- calls
    def interesting_call(self, x: ast.AST, env: Dict[str, object]) -> bool:
        if isinstance(x, ast.Await):
            x = x.value
        if not isinstance(x, ast.Call):
            return False
        if self.terminal(x):
            return True
        for k in x.keywords:
            if k.arg in ('headers', 'Range'):
                return True
            if k.arg is None and isinstance(k.value, ast.Name) and isinstance(env.get(k.value.id), RxD):
                return True
        names = {n.id for a in list(x.args) + [k.value for k in x.keywords] for n in ast.walk(a) if isinstance(n, ast.Name)}
        return any(isinstance(env.get(n), (RxD, RxC)) for n in names)

    def expr_stmt_value(self, e: ast.AST, w: _World, env: Dict[str, object], ref: 'FuncRef') -> List[Tuple[_World, Dict[str, object], object]]:
        """Value of the expression of a statement; a call at its top (possibly awaited) is followed / recorded."""
        x = e.value if isinstance(e, ast.Await) else e
        if isinstance(x, ast.Call):
            return self.call(x, w, env, ref)
        # calls buried deeper in the expression are not followed: they must not be request-related
        for sub in ast.walk(x):
            if isinstance(sub, ast.Call) and sub is not x and (self.terminal(sub) or any(k.arg in ('headers', 'Range') for k in sub.keywords)):
                raise Decline(f'{ref.qual}: request-related call nested inside `{pf.nsrc(e)[:60]}`')
        return [(w, env, self.value(x, env, ref, w))]

    def targets(self, f: ast.AST, env: Dict[str, object], ref: 'FuncRef') -> Optional[List[object]]:
        """Functions of THIS module the callee expression may denote ([] = none known, None = leaves the module / unknown)."""
        if isinstance(f, ast.Name):
            v = env.get(f.id)
            if isinstance(v, RxC):
                return [v]
            if f.id in env:
                return None
            m = self.uni.mods[self.rel]
            if m.has_func(f.id):
                return [FuncRef(self.rel, None, m.func(f.id))]
            return None
        if isinstance(f, ast.Attribute) and isinstance(f.value, ast.Name) and f.value.id == 'self' and ref.cls is not None:
            ts = self.uni.method_targets(ref.rel, ref.cls, f.attr)
            return [t for t in ts] if ts else None
        if isinstance(f, ast.Attribute) and isinstance(f.value, ast.Attribute) and pf.nsrc(f.value.value) == 'self' and ref.cls is not None:
            out: List[object] = []
            for r, tname in self.uni.attr_types(ref.rel, ref.cls, f.value.attr):
                rt = self.uni.resolve_type(r, tname)
                if isinstance(rt, list):
                    for r2, c2 in rt:
                        out += self.uni.method_targets(r2, c2, f.attr)
                else:
                    return None
            uniq: List[object] = []
            for t in out:
                if not any(isinstance(u, FuncRef) and u.fn is t.fn for u in uniq):  # type: ignore[union-attr]
                    uniq.append(t)
            return uniq or None
        return None

    def call(self, c: ast.Call, w: _World, env: Dict[str, object], ref: 'FuncRef') -> List[Tuple[_World, Dict[str, object], object]]:
        f = c.func
        args, kws = list(c.args), list(c.keywords)
        # blocking_to_async(pool, F, *a, **kw)  ==  F(*a, **kw) for our purposes
        if (pf.dotted(f) or '').split('.')[-1] == 'blocking_to_async' and len(args) >= 2:
            f, args = args[1], args[2:]
        # pure helpers first
        pure = self.value(c, env, ref, w) if f is c.func else RX_UNK
        if pure is not RX_UNK or (isinstance(f, ast.Attribute) and isinstance(self.value(f.value, env, ref, w), RxD)) or (pf.dotted(f) in ('dict', 'str')):
            return [(w, env, pure)]
        ts = self.targets(f, env, ref)
        same = [t for t in (ts or []) if isinstance(t, RxC) or (isinstance(t, FuncRef) and t.rel == self.rel)]
        if ts and len(same) == len(ts):
            if len(same) != 1:
                raise Decline(f'{ref.qual}: `{pf.nsrc(c)[:60]}` has {len(same)} possible targets in this module')
            return self.enter(same[0], c, args, kws, w, env, ref)
        # the call leaves the module (or is unknown): an event when it carries / could carry the Range
        carried = self.carried(c, args, kws, env, ref, w)
        if carried is not None or self.terminal(c):
            val = carried[1] if carried is not None else None
            self.events.append(RangeEvent(ref.qual, self.uni.mods[ref.rel].path, c, val, w.cond, self.given, self.deferred))
        else:
            names = {n.id for a in args + [k.value for k in kws] for n in ast.walk(a) if isinstance(n, ast.Name)}
            if any(isinstance(env.get(n), RxD) and ('Range' in env[n].items or 'headers' in env[n].items) for n in names):  # type: ignore[union-attr]
                raise Decline(f'{ref.qual}: `{pf.nsrc(c)[:60]}` receives the dict that carries the Range and is not a function of this module')
        # closures handed over escape
        for a in args + [k.value for k in kws]:
            v = self.value(a, env, ref, w)
            if isinstance(v, RxC):
                w.escaped.append(v)
        return [(w, env, RX_UNK)]

    def carried(self, c: ast.Call, args: List[ast.AST], kws: List[ast.keyword], env: Dict[str, object], ref: 'FuncRef', w: _World) -> Optional[Tuple[str, object]]:
        """('headers' | 'Range', the Range value or None when the carrier is there without a Range)."""
        merged: Dict[str, object] = {}
        rest = False
        seen = False
        for k in kws:
            if k.arg is None:
                d = self.value(k.value, env, ref, w)
                if isinstance(d, RxD):
                    merged.update(d.items)
                    rest = rest or d.rest
                    seen = True
                else:
                    rest = True
            else:
                merged[k.arg] = self.value(k.value, env, ref, w)
        if 'Range' in merged:
            return 'Range', merged['Range']
        if 'headers' in merged:
            h = merged['headers']
            if isinstance(h, RxD):
                if 'Range' in h.items:
                    return 'headers', h.items['Range']
                if h.rest:
                    raise Decline(f'{ref.qual}: headers of `{pf.nsrc(c)[:60]}` have unknown entries')
                return 'headers', None
            if h is RX_NONE:
                return 'headers', None
            raise Decline(f'{ref.qual}: headers of `{pf.nsrc(c)[:60]}` are not a dict the analysis tracked')
        if seen and not rest:
            return 'kwargs', None
        return None

    def enter(self, t: object, c: ast.Call, args: List[ast.AST], kws: List[ast.keyword], w: _World, env: Dict[str, object], ref: 'FuncRef'
              ) -> List[Tuple[_World, Dict[str, object], object]]:
        if self.depth >= 6:
            raise Decline(f'{ref.qual}: call chain too deep at `{pf.nsrc(c)[:60]}`')
        if isinstance(t, RxC):
            node, cenv, cref = t.node, dict(t.env), t.ref
            skip_self = False
        else:
            node, cenv, cref = t.fn, {}, t  # type: ignore[union-attr]
            skip_self = t.cls is not None and not any(d.split('.')[-1] == 'staticmethod' for d in pf.decorator_names(t.fn))  # type: ignore[union-attr]
        a = node.args
        if a.posonlyargs or any(isinstance(x, ast.Starred) for x in args):
            raise Decline(f'{cref.qual}: star / positional-only arguments at `{pf.nsrc(c)[:60]}`')
        params = [x.arg for x in a.args][1 if skip_self else 0:]
        kwonly = [x.arg for x in a.kwonlyargs]
        if skip_self:
            cenv[a.args[0].arg] = RxE(ast.Name(id='self', ctx=ast.Load()))
        bound: Dict[str, object] = {}
        if len(args) > len(params):
            if a.vararg is None:
                raise Decline(f'{cref.qual}: too many arguments at `{pf.nsrc(c)[:60]}`')
        for p_, x in zip(params, args):
            bound[p_] = self.value(x, env, ref, w)
        extra = RxD()
        for k in kws:
            if k.arg is None:
                d = self.value(k.value, env, ref, w)
                if not isinstance(d, RxD):
                    raise Decline(f'{ref.qual}: `**{pf.nsrc(k.value)}` at `{pf.nsrc(c)[:60]}` is not a dict the analysis tracked')
                for kk, vv in d.items.items():
                    if kk in params + kwonly:
                        bound[kk] = vv
                    else:
                        extra.items[kk] = vv
                extra.rest = extra.rest or d.rest
            elif k.arg in params + kwonly:
                bound[k.arg] = self.value(k.value, env, ref, w)
            else:
                extra.items[k.arg] = self.value(k.value, env, ref, w)
        if a.kwarg is not None:
            bound[a.kwarg.arg] = extra
        elif extra.items:
            raise Decline(f'{cref.qual}: unexpected keywords {sorted(extra.items)} at `{pf.nsrc(c)[:60]}`')
        if a.vararg is not None:
            bound[a.vararg.arg] = RX_UNK
        defaults = dict(zip([x.arg for x in a.args][len(a.args) - len(a.defaults):], a.defaults))
        defaults.update({p_: d for p_, d in zip(kwonly, a.kw_defaults) if d is not None})
        for p_ in params + kwonly:
            if p_ not in bound:
                if p_ not in defaults:
                    raise Decline(f'{cref.qual}: parameter {p_} unbound at `{pf.nsrc(c)[:60]}`')
                bound[p_] = self.value(defaults[p_], {}, cref, w)
        cenv.update(bound)
        self.depth += 1
        w.frames.append(cenv)
        try:
            if isinstance(node, ast.Lambda):
                outs = [(w2, e2, ('return', v)) for w2, e2, v in self.expr_stmt_value(node.body, w, cenv, cref)]
            else:
                outs = self.block(node.body, [(w, cenv)], cref)
        finally:
            self.depth -= 1
        res: List[Tuple[_World, Dict[str, object], object]] = []
        for w2, _e2, out in outs:
            w2.frames.pop()
            if out is not None and out[0] == 'raise':
                continue  # the exceptional exits of a callee are not followed
            v = out[1] if out is not None else RX_NONE
            res.append((w2, w2.frames[-1], v))  # the caller's frame as copied with this world
        return res
