"""Refactor-insensitive views of Python syntax for the C22 / C23 / C25 rule modules (nothing is executed).

    normalised_module(rel)  a copy of pf.load(rel) in which `X = X + E` / `X = X - E` are augmented assignments (`X += E`): the two
                            spellings are the same statement for the immutable values (ints, bytes, str, Fraction) the rules reason about
    strnorm(e)              `'<lit>'.format(a, b)`, `'<lit>' % (a, b)`, `''.join([a, b])` rewritten to f-strings / `+` chains so that
                            engines/strparts sees one spelling of a string template
    truth_of_name(t, name)  polarity of a test that is the truthiness of one name (`x`, `not x`, `bool(x)`, `x is True`, `x == True` ...)
    emptiness(t, name)      polarity of a test that asks "is the sized value `name` empty" (`not x`, `len(x) == 0`, `x == b''`, `len(x) < 1` ...)
"""
from __future__ import annotations

import ast
import copy
import re
import string
from typing import Dict, List, Optional

from . import pyfacts as pf

_norm_cache: Dict[str, pf.Module] = {}


class _AugNorm(ast.NodeTransformer):
    def visit_Assign(self, node: ast.Assign):
        self.generic_visit(node)
        if len(node.targets) == 1 and isinstance(node.targets[0], (ast.Name, ast.Attribute)) and isinstance(node.value, ast.BinOp) \
                and isinstance(node.value.op, (ast.Add, ast.Sub)) and ast.dump(_load_ctx(node.targets[0])) == ast.dump(node.value.left):
            new = ast.AugAssign(target=node.targets[0], op=node.value.op, value=node.value.right)
            return ast.copy_location(new, node)
        return node


def _load_ctx(t: ast.AST) -> ast.AST:
    t2 = copy.deepcopy(t)
    t2.ctx = ast.Load()  # type: ignore[attr-defined]
    return t2


def normalised_module(rel: str) -> pf.Module:
    m = pf.load(rel)
    if m.path not in _norm_cache:
        tree = _AugNorm().visit(copy.deepcopy(m.tree))
        ast.fix_missing_locations(tree)
        _norm_cache[m.path] = pf.Module(m.rel, m.path, m.src, tree)
    return _norm_cache[m.path]


# --------------------------------------------------------------------------------------------------
# string templates
# --------------------------------------------------------------------------------------------------

_PCT = re.compile(r'%(?:(%)|([sdi]))')


def _joined(pieces: List[object]) -> ast.AST:
    vals: List[ast.AST] = []
    for p in pieces:
        if isinstance(p, str):
            if p:
                vals.append(ast.Constant(value=p))
        else:
            vals.append(ast.FormattedValue(value=p, conversion=-1, format_spec=None))
    if all(isinstance(v, ast.Constant) for v in vals):
        return ast.Constant(value=''.join(v.value for v in vals))  # type: ignore[attr-defined]
    return ast.JoinedStr(values=vals)


def _format_call(e: ast.Call) -> Optional[ast.AST]:
    f = e.func
    if not (isinstance(f, ast.Attribute) and f.attr == 'format' and isinstance(f.value, ast.Constant) and isinstance(f.value.value, str)):
        return None
    if any(isinstance(a, ast.Starred) for a in e.args) or any(k.arg is None for k in e.keywords):
        return None
    kw = {k.arg: k.value for k in e.keywords}
    pieces: List[object] = []
    auto = 0
    numbered = automatic = False
    try:
        fields = list(string.Formatter().parse(f.value.value))
    except ValueError:
        return None
    for lit, name, spec, conv in fields:
        pieces.append(lit)
        if name is None:
            continue
        if spec or conv:
            return None
        if name == '':
            automatic = True
            if auto >= len(e.args):
                return None
            pieces.append(e.args[auto])
            auto += 1
        elif name.isdigit():
            numbered = True
            if int(name) >= len(e.args):
                return None
            pieces.append(e.args[int(name)])
        elif name.isidentifier() and name in kw:
            pieces.append(kw[name])
        else:
            return None
    if numbered and automatic:
        return None
    return _joined(pieces)


def _percent(e: ast.BinOp) -> Optional[ast.AST]:
    if not (isinstance(e.op, ast.Mod) and isinstance(e.left, ast.Constant) and isinstance(e.left.value, str)):
        return None
    args = list(e.right.elts) if isinstance(e.right, ast.Tuple) else [e.right]
    if any(isinstance(a, ast.Starred) for a in args) or isinstance(e.right, (ast.Dict, ast.Starred)):
        return None
    text = e.left.value
    if '%' in _PCT.sub('', text):
        return None  # a conversion this rewriting does not know
    pieces: List[object] = []
    pos = 0
    i = 0
    for mt in _PCT.finditer(text):
        pieces.append(text[pos:mt.start()])
        pos = mt.end()
        if mt.group(1):
            pieces.append('%')
        else:
            if i >= len(args):
                return None
            pieces.append(args[i])
            i += 1
    pieces.append(text[pos:])
    if i != len(args):
        return None
    return _joined(pieces)


def _join_call(e: ast.Call) -> Optional[ast.AST]:
    f = e.func
    if not (isinstance(f, ast.Attribute) and f.attr == 'join' and isinstance(f.value, ast.Constant) and f.value.value == '' and len(e.args) == 1 and not e.keywords
            and isinstance(e.args[0], (ast.List, ast.Tuple)) and e.args[0].elts and not any(isinstance(x, ast.Starred) for x in e.args[0].elts)):
        return None
    cur: ast.AST = e.args[0].elts[0]
    if not isinstance(cur, (ast.Constant, ast.JoinedStr)):
        cur = ast.BinOp(left=ast.Constant(value=''), op=ast.Add(), right=cur)
    for x in e.args[0].elts[1:]:
        cur = ast.BinOp(left=cur, op=ast.Add(), right=x)
    return cur


class _StrNorm(ast.NodeTransformer):
    def visit_Call(self, node: ast.Call):
        self.generic_visit(node)
        r = _format_call(node) or _join_call(node)
        return r if r is not None else node

    def visit_BinOp(self, node: ast.BinOp):
        self.generic_visit(node)
        r = _percent(node)
        return r if r is not None else node

    def visit_Lambda(self, node):
        return node


def strnorm(e: ast.AST) -> ast.AST:
    """A copy of `e` with the string-formatting idioms rewritten (the same object when there is nothing to rewrite)."""
    if not any(isinstance(x, ast.Call) and isinstance(x.func, ast.Attribute) and x.func.attr in ('format', 'join') or isinstance(x, ast.BinOp) and isinstance(x.op, ast.Mod)
               for x in ast.walk(e)):
        return e
    out = _StrNorm().visit(copy.deepcopy(e))
    ast.fix_missing_locations(out)
    return out


# --------------------------------------------------------------------------------------------------
# tests
# --------------------------------------------------------------------------------------------------

def truth_of_name(t: ast.AST, name: str) -> Optional[bool]:
    """True when the test holds exactly when `name` is truthy, False when it holds exactly when `name` is falsy, else None.
    (`x is True` / `x == True` are read as truthiness: the rules use this for boolean flags only.)"""
    if isinstance(t, ast.UnaryOp) and isinstance(t.op, ast.Not):
        v = truth_of_name(t.operand, name)
        return None if v is None else not v
    if isinstance(t, ast.Name) and t.id == name:
        return True
    if isinstance(t, ast.Call) and pf.dotted(t.func) == 'bool' and len(t.args) == 1 and not t.keywords:
        return truth_of_name(t.args[0], name)
    if isinstance(t, ast.Compare) and len(t.ops) == 1:
        l, r, op = t.left, t.comparators[0], t.ops[0]
        if isinstance(l, ast.Constant) and not isinstance(r, ast.Constant):
            l, r = r, l
        if isinstance(r, ast.Constant) and isinstance(r.value, bool) and isinstance(op, (ast.Is, ast.Eq, ast.IsNot, ast.NotEq)):
            v = truth_of_name(l, name)
            if v is None:
                return None
            pos = isinstance(op, (ast.Is, ast.Eq)) == r.value
            return v if pos else not v
    return None


def emptiness(t: ast.AST, name: str) -> Optional[bool]:
    """True when the test holds exactly when the sized value `name` is empty, False when exactly when it is non-empty, else None."""
    if isinstance(t, ast.UnaryOp) and isinstance(t.op, ast.Not):
        v = emptiness(t.operand, name)
        return None if v is None else not v
    if isinstance(t, ast.Name) and t.id == name:
        return False
    if isinstance(t, ast.Call) and pf.dotted(t.func) in ('len', 'bool') and len(t.args) == 1 and not t.keywords and isinstance(t.args[0], ast.Name) and t.args[0].id == name:
        return False
    if isinstance(t, ast.Compare) and len(t.ops) == 1:
        l, r, op = t.left, t.comparators[0], t.ops[0]
        flip = {ast.Lt: ast.Gt, ast.Gt: ast.Lt, ast.LtE: ast.GtE, ast.GtE: ast.LtE}
        if isinstance(l, ast.Constant) and not isinstance(r, ast.Constant):
            l, r = r, l
            op = flip.get(type(op), type(op))()
        if isinstance(l, ast.Name) and l.id == name and isinstance(r, ast.Constant) and isinstance(r.value, (bytes, str)) and len(r.value) == 0:
            if isinstance(op, ast.Eq):
                return True
            if isinstance(op, ast.NotEq):
                return False
        is_len = isinstance(l, ast.Call) and pf.dotted(l.func) == 'len' and len(l.args) == 1 and isinstance(l.args[0], ast.Name) and l.args[0].id == name
        if is_len and isinstance(r, ast.Constant) and isinstance(r.value, int) and not isinstance(r.value, bool):
            k = r.value
            table = {(ast.Eq, 0): True, (ast.NotEq, 0): False, (ast.LtE, 0): True, (ast.Lt, 1): True, (ast.Gt, 0): False, (ast.GtE, 1): False}
            return table.get((type(op), k))
    return None
