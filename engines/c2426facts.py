"""Dataflow helpers shared by rules/c24.py and rules/c26.py (nothing here imports or runs repository code).

  * def_nodes / reaching / origins: flow-sensitive reaching definitions of a local on the statement CFG and the set of expressions a
    value can originate from (followed through copies `a = b`, conditional expressions and except-handler names)
  * norm_test / implied: `x not in C` is read as `not (x in C)` so that edge implications see one membership atom
  * specialise: constant propagation of constructor options (`self.opt = opt` in __init__, never written elsewhere) into the methods
    of a class, with pruning of the branches whose test becomes constant
"""
from __future__ import annotations

import ast
import copy
from typing import Dict, List, Optional, Set, Tuple

from . import asyncfacts as af
from . import pyfacts as pf

# --------------------------------------------------------------------------------------
# reaching definitions
# --------------------------------------------------------------------------------------


def def_nodes(cfg: pf.CFG, name: str) -> List[pf.Node]:
    """CFG nodes that (re)bind the local `name`: assignments, augmented assignments, `except ... as name`, loop / with targets."""
    out = []
    for n in cfg.nodes:
        a = n.ast
        if a is None:
            continue
        tg: List[ast.AST] = []
        if n.kind == 'stmt':
            if isinstance(a, ast.Assign):
                tg = list(a.targets)
            elif isinstance(a, (ast.AnnAssign, ast.AugAssign)):
                if not (isinstance(a, ast.AnnAssign) and a.value is None):
                    tg = [a.target]
            elif isinstance(a, ast.Delete):
                tg = list(a.targets)
        elif n.kind == 'except':
            if getattr(a, 'name', None) == name:
                out.append(n)
            continue
        elif n.kind == 'loop' and isinstance(a, (ast.For, ast.AsyncFor)):
            tg = [a.target]
        elif n.kind == 'with' and isinstance(a, (ast.With, ast.AsyncWith)):
            tg = [i.optional_vars for i in a.items if i.optional_vars is not None]
        if any(isinstance(x, ast.Name) and x.id == name and isinstance(x.ctx, (ast.Store, ast.Del)) for t in tg for x in ast.walk(t)):
            out.append(n)
        elif n.kind in ('stmt', 'return', 'test') and any(isinstance(x, ast.NamedExpr) and isinstance(x.target, ast.Name) and x.target.id == name for x in pf.walk_shallow(a)):
            out.append(n)
    return out


def reaching(cfg: pf.CFG, use: pf.Node, name: str) -> Tuple[List[pf.Node], bool]:
    """(definitions of `name` that reach `use`, whether the state at function entry also reaches it)"""
    dn = def_nodes(cfg, name)
    out = [D for D in dn if cfg.path_avoiding(D, lambda n: n is use, lambda n: any(n is x for x in dn)) is not None]
    from_entry = use is cfg.entry or cfg.path_avoiding(cfg.entry, lambda n: n is use, lambda n: any(n is x for x in dn)) is not None
    return out, from_entry


class Origin:
    """One expression a value can come from.  kind: await | subscript | call | const | param | free | except | other"""
    __slots__ = ('kind', 'expr', 'node')

    def __init__(self, kind: str, expr: Optional[ast.AST], node: pf.Node):
        self.kind = kind
        self.expr = expr
        self.node = node  # the CFG node at which the expression is evaluated

    def text(self) -> str:
        if self.kind == 'except':
            return f'except ... as {getattr(self.expr, "name", "?")}'
        return pf.nsrc(self.expr) if self.expr is not None else self.kind


def origins(fn: pf.FuncDef, cfg: pf.CFG, use: pf.Node, e: ast.AST, seen: Optional[Set[Tuple[int, str]]] = None) -> List[Origin]:
    """May-analysis: every expression whose value can be the value of `e` evaluated at `use` (copies and conditional expressions are
    followed through reaching definitions; paths are not correlated)."""
    if seen is None:
        seen = set()
    if isinstance(e, ast.IfExp):
        return origins(fn, cfg, use, e.body, seen) + origins(fn, cfg, use, e.orelse, seen)
    if isinstance(e, ast.NamedExpr):
        return origins(fn, cfg, use, e.value, seen)
    if isinstance(e, ast.Name):
        params = {a.arg for a in fn.args.posonlyargs + fn.args.args + fn.args.kwonlyargs}
        defs, from_entry = reaching(cfg, use, e.id)
        out: List[Origin] = []
        if from_entry or not defs:
            if e.id in params:
                out.append(Origin('param', e, use))
            elif not def_nodes(cfg, e.id):
                out.append(Origin('free', e, use))
            # a local read before any assignment on some path: UnboundLocalError there, no value flows
        for D in defs:
            key = (D.id, e.id)
            if key in seen:
                continue
            seen.add(key)
            a = D.ast
            if D.kind == 'except':
                out.append(Origin('except', a, D))
            elif isinstance(a, ast.Assign) and all(isinstance(t, (ast.Name, ast.Attribute, ast.Subscript)) for t in a.targets):
                out += origins(fn, cfg, D, a.value, seen)
            elif isinstance(a, ast.AnnAssign) and isinstance(a.target, ast.Name) and a.value is not None:
                out += origins(fn, cfg, D, a.value, seen)
            else:
                out.append(Origin('other', a, D))
        return out
    if isinstance(e, ast.Await):
        return [Origin('await', e, use)]
    if isinstance(e, ast.Subscript):
        return [Origin('subscript', e, use)]
    if isinstance(e, ast.Call):
        return [Origin('call', e, use)]
    if isinstance(e, ast.Constant):
        return [Origin('const', e, use)]
    return [Origin('other', e, use)]


# --------------------------------------------------------------------------------------
# membership tests
# --------------------------------------------------------------------------------------


class _NotIn(ast.NodeTransformer):
    def visit_Compare(self, node: ast.Compare):
        self.generic_visit(node)
        if len(node.ops) == 1 and isinstance(node.ops[0], ast.NotIn):
            return ast.UnaryOp(op=ast.Not(), operand=ast.Compare(left=node.left, ops=[ast.In()], comparators=node.comparators))
        return node


def norm_test(test: ast.AST) -> ast.AST:
    t = _NotIn().visit(copy.deepcopy(test))
    ast.fix_missing_locations(t)
    return t


def implied(test: ast.AST, label: str, atom_text: str, value: bool = True) -> bool:
    """af.implied_on_edge with `x not in C` normalised to `not (x in C)`."""
    return af.implied_on_edge(norm_test(test), label, atom_text, value)


# --------------------------------------------------------------------------------------
# constant propagation of constructor options
# --------------------------------------------------------------------------------------


def fold(test: ast.AST) -> Optional[bool]:
    """Truth value of a test all of whose operands are literal constants; None if it is not decided by constants alone."""
    if isinstance(test, ast.Constant):
        return bool(test.value)
    if isinstance(test, ast.UnaryOp) and isinstance(test.op, ast.Not):
        v = fold(test.operand)
        return None if v is None else not v
    if isinstance(test, ast.BoolOp):
        vals = [fold(v) for v in test.values]
        if isinstance(test.op, ast.And):
            if any(v is False for v in vals):
                return False
            return True if all(v is True for v in vals) else None
        if any(v is True for v in vals):
            return True
        return False if all(v is False for v in vals) else None
    if isinstance(test, ast.Compare) and len(test.ops) == 1 and isinstance(test.left, ast.Constant) and isinstance(test.comparators[0], ast.Constant):
        a, b, op = test.left.value, test.comparators[0].value, test.ops[0]
        if isinstance(op, ast.Is):
            return a is b if (a is None or b is None or isinstance(a, bool) or isinstance(b, bool)) else None
        if isinstance(op, ast.IsNot):
            return a is not b if (a is None or b is None or isinstance(a, bool) or isinstance(b, bool)) else None
        if isinstance(op, ast.Eq):
            return a == b
        if isinstance(op, ast.NotEq):
            return a != b
        num = (int, float)
        if isinstance(a, num) and isinstance(b, num) and not isinstance(a, bool) and not isinstance(b, bool):
            if isinstance(op, ast.Lt):
                return a < b
            if isinstance(op, ast.LtE):
                return a <= b
            if isinstance(op, ast.Gt):
                return a > b
            if isinstance(op, ast.GtE):
                return a >= b
    return None


class _Subst(ast.NodeTransformer):
    def __init__(self, consts: Dict[str, ast.Constant]):
        self.consts = consts

    def visit_Attribute(self, node: ast.Attribute):
        if isinstance(node.ctx, ast.Load) and isinstance(node.value, ast.Name) and node.value.id == 'self' and node.attr in self.consts:
            return ast.copy_location(copy.deepcopy(self.consts[node.attr]), node)
        return self.generic_visit(node)


def _simplify(test: ast.expr) -> ast.expr:
    """drop the conjuncts / disjuncts that are decided by constants"""
    if isinstance(test, ast.BoolOp):
        vals = [_simplify(v) for v in test.values]
        neutral = isinstance(test.op, ast.And)
        keep = [v for v in vals if fold(v) is not neutral]
        if len(keep) == 1:
            return keep[0]
        if keep and len(keep) < len(vals):
            return ast.copy_location(ast.BoolOp(op=test.op, values=keep), test)
    return test


def _prune(stmts: List[ast.stmt]) -> List[ast.stmt]:
    out: List[ast.stmt] = []
    for st in stmts:
        if isinstance(st, (ast.FunctionDef, ast.AsyncFunctionDef, ast.ClassDef)):
            st.body = _prune(st.body) or [ast.copy_location(ast.Pass(), st)]
            out.append(st)
            continue
        for fld in ('body', 'orelse', 'finalbody'):
            b = getattr(st, fld, None)
            if isinstance(b, list) and b and isinstance(b[0], ast.stmt):
                setattr(st, fld, _prune(b))
        if isinstance(st, ast.Try):
            for h in st.handlers:
                h.body = _prune(h.body) or [ast.copy_location(ast.Pass(), h)]
        if isinstance(st, ast.If):
            v = fold(st.test)
            if v is True:
                out.extend(st.body)
                continue
            if v is False:
                out.extend(st.orelse)
                continue
            st.test = _simplify(st.test)
            if not st.body:
                st.body = [ast.copy_location(ast.Pass(), st)]
        elif isinstance(st, ast.While):
            if fold(st.test) is False:
                out.extend(st.orelse)
                continue
        if getattr(st, 'body', None) == [] and not isinstance(st, ast.If):
            st.body = [ast.copy_location(ast.Pass(), st)]  # type: ignore[attr-defined]
        out.append(st)
    return out


def prune_constant_branches(fn: ast.AST) -> ast.AST:
    """In place: conditional expressions and `if` / `while` statements whose test is decided by literal constants are replaced by the arm taken."""
    _IfExp().visit(fn)
    fn.body = _prune(fn.body) or [ast.copy_location(ast.Pass(), fn)]  # type: ignore[attr-defined]
    ast.fix_missing_locations(fn)
    return fn


class _IfExp(ast.NodeTransformer):
    def visit_IfExp(self, node: ast.IfExp):
        self.generic_visit(node)
        v = fold(node.test)
        if v is True:
            return node.body
        if v is False:
            return node.orelse
        return node


def option_attrs(cls: ast.ClassDef, base_params: List[str]) -> Dict[str, Tuple[str, Optional[ast.expr]]]:
    """constructor parameter beyond `base_params` -> (attribute it is stored in verbatim and never written again, default expression).
    Parameters that are not stored that way are absent (they stay symbolic)."""
    inits = [st for st in cls.body if isinstance(st, ast.FunctionDef) and st.name == '__init__']
    if len(inits) != 1:
        return {}
    init = inits[0]
    a = init.args
    params = [x.arg for x in a.args][1:]
    defaults: Dict[str, ast.expr] = dict(zip(params[len(params) - len(a.defaults):], a.defaults))
    for p, d in zip([x.arg for x in a.kwonlyargs], a.kw_defaults):
        if d is not None:
            defaults[p] = d
    extra = [p for p in params if p not in base_params] + [x.arg for x in a.kwonlyargs]
    out: Dict[str, Tuple[str, Optional[ast.expr]]] = {}
    for p in extra:
        stores = [st for st in init.body if isinstance(st, ast.Assign) and len(st.targets) == 1 and isinstance(st.targets[0], ast.Attribute)
                  and isinstance(st.targets[0].value, ast.Name) and st.targets[0].value.id == 'self' and isinstance(st.value, ast.Name) and st.value.id == p]
        if len(stores) != 1:
            continue
        attr = stores[0].targets[0].attr  # type: ignore[attr-defined]
        writes = [n for n in ast.walk(cls) if isinstance(n, ast.Attribute) and n.attr == attr and isinstance(n.ctx, (ast.Store, ast.Del))
                  and isinstance(n.value, ast.Name) and n.value.id == 'self']
        rebinds = [n for n in pf.walk_shallow(init) if isinstance(n, ast.Name) and n.id == p and isinstance(n.ctx, ast.Store)]
        if len(writes) == 1 and not rebinds:
            out[p] = (attr, defaults.get(p))
    return out


def specialise(m: pf.Module, cls_name: str, consts: Dict[str, ast.Constant]) -> pf.Module:
    """Copy of module m in which, inside every method of the class except __init__, loads of `self.<attr>` are replaced by the given
    constants and the branches decided by them are pruned."""
    if not consts:
        return m
    tree = copy.deepcopy(m.tree)
    m2 = pf.Module(m.rel, m.path, m.src, tree)
    cls = m2.cls(cls_name)
    for f in cls.body:
        if isinstance(f, (ast.FunctionDef, ast.AsyncFunctionDef)) and f.name != '__init__':
            _Subst(consts).visit(f)
            _IfExp().visit(f)
            f.body = _prune(f.body) or [ast.copy_location(ast.Pass(), f)]
            ast.fix_missing_locations(f)
    return m2
