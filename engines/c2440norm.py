"""Behaviour-preserving source-to-source normalisation of one class before the path rules look at it (serves rules/c24.py, rules/c40.py).

The rules of C24 / C40 are stated on the CFG of a few small methods.  A maintainer can re-spell those methods in many equivalent ways
(extract a helper, bind a sub-expression to a local, turn a loop condition into guard clauses, write `x = x + n` for `x += n`, alias a
container attribute to a local ...).  Instead of teaching every rule every spelling, the class is first rewritten into ONE spelling by
transformations each of which preserves the behaviour (asyncio semantics: one coroutine runs at a time, it is suspended only at `await`):

  hoist      a call of a same-class synchronous helper inside an `if` test / inside a larger expression is bound to a fresh temporary in
             front of the statement (only where nothing impure is evaluated before it and no short-circuit / conditional operator lies
             between the statement and the call), so that engines/inline.py (statement-level inlining) sees through it
  thread     `if c: ..; t = V1 else: ..; t = V2` directly followed by `if t: A else: B`, t used nowhere else  ==>  the second `if` is moved
             into the leaves (constant V decides the arm).  Undoes what inlining `if self.h(): ...` leaves behind
  augassign  `T = T + e` / `T = T - e` / `T = e + T`  ==>  `T += e` / `T -= e`   (T a name or an attribute / subscript of names; numeric counters)
  propagate  a local with ONE definition `v = E`, E a pure read (names, constants, attributes, subscripts, arithmetic, comparisons,
             len / cast / min / max ..., `.is_set()`), is replaced by E at ALL of its uses and the definition dropped - only if the definition
             dominates every use and, on every path from the definition to a use, no local read by E is re-bound and (when E reads
             mutable state: container contents, counters) nothing is called, awaited or stored.  `self.A` for an attribute A that is only
             assigned in __init__ counts as immutable (so `items = self._items` is an alias that disappears).  Clock reads and any
             other call are never moved.  `X[i]` for a local X bound once to a tuple display is replaced by the i-th element under the
             same conditions
  tests      in `if` / `while` tests: `not not a` ==> a, `not (a < b)` ==> `a >= b` (numbers: weights and time stamps, no NaN),
             De Morgan under `not`
  loops      `while C: if g: break; REST`  ==>  `while C and not g: REST`  (leading guard clauses, `while True` included) and
             `while C: if g: BODY else: break`  ==>  `while C and g: BODY`
  parallel   `a, b = x, y`  ==>  `a = x; b = y`  (pure right-hand sides that do not read a or b)
  ifexp      an expression statement `A if c else B`  ==>  `if c: A else: B`
  guards     `if c: ...; return / raise` followed by REST  ==>  `if c: ... else: REST`
  delhead    (on request) `del X[0]` ==> `X.popleft()` for a container the caller knows to be a deque

Nothing is executed; a construct that does not fit a transformation exactly is left as it is (the rule that needs to see through it then
declines, as before).
"""
from __future__ import annotations

import ast
import copy
from typing import Dict, List, Optional, Sequence, Set, Tuple

from . import c2426facts as cf
from . import inline
from . import pyfacts as pf

FuncDef = pf.FuncDef

PURE_FUNCS = {'len', 'cast', 'typing.cast', 'min', 'max', 'abs', 'int', 'float', 'bool', 'round'}
PURE_METHODS = {'is_set', 'done', 'cancelled', 'locked'}
TMP = '_nrm_t'


# --------------------------------------------------------------------------------------
# purity
# --------------------------------------------------------------------------------------


class Reads:
    def __init__(self) -> None:
        self.names: Set[str] = set()
        self.state = False


def purity(e: ast.AST, selfname: Optional[str], immutable: Set[str]) -> Optional[Reads]:
    """What a pure read expression depends on, or None when e is not (recognisably) a pure read."""
    r = Reads()

    def go(x: ast.AST) -> bool:
        if isinstance(x, ast.Constant):
            return True
        if isinstance(x, ast.Name):
            if not isinstance(x.ctx, ast.Load):
                return False
            r.names.add(x.id)
            return True
        if isinstance(x, ast.Attribute):
            if not isinstance(x.ctx, ast.Load):
                return False
            if isinstance(x.value, ast.Name) and selfname is not None and x.value.id == selfname and x.attr in immutable:
                return True
            r.state = True
            return go(x.value)
        if isinstance(x, ast.Subscript):
            if not isinstance(x.ctx, ast.Load) or isinstance(x.slice, ast.Slice):
                return False
            r.state = True
            return go(x.value) and go(x.slice)
        if isinstance(x, ast.BinOp):
            return go(x.left) and go(x.right)
        if isinstance(x, ast.UnaryOp):
            return go(x.operand)
        if isinstance(x, ast.BoolOp):
            return all(go(v) for v in x.values)
        if isinstance(x, ast.Compare):
            return go(x.left) and all(go(c) for c in x.comparators)
        if isinstance(x, ast.IfExp):
            return go(x.test) and go(x.body) and go(x.orelse)
        if isinstance(x, ast.Tuple):
            return isinstance(x.ctx, ast.Load) and all(go(v) for v in x.elts)
        if isinstance(x, ast.Call):
            if x.keywords or any(isinstance(a, ast.Starred) for a in x.args):
                return False
            d = pf.dotted(x.func)
            if d in PURE_FUNCS:
                args = list(x.args)
                if d in ('cast', 'typing.cast'):
                    if len(args) != 2:
                        return False
                    args = args[1:]           # the first argument is a type expression
                if d == 'len':
                    r.state = True
                return all(go(a) for a in args)
            if isinstance(x.func, ast.Attribute) and x.func.attr in PURE_METHODS and not x.args:
                r.state = True
                return go(x.func.value)
            return False
        return False
    return r if go(e) else None


def immutable_attrs(cls: ast.ClassDef) -> Set[str]:
    """Attributes `self.A` that are assigned in __init__ and nowhere else in the class (the reference never changes)."""
    stores: Dict[str, List[str]] = {}
    for f in cls.body:
        if not isinstance(f, (ast.FunctionDef, ast.AsyncFunctionDef)) or not f.args.args:
            continue
        s = f.args.args[0].arg
        for n in ast.walk(f):
            if isinstance(n, ast.Attribute) and isinstance(n.ctx, (ast.Store, ast.Del)) and isinstance(n.value, ast.Name) and n.value.id == s:
                stores.setdefault(n.attr, []).append(f.name)
            if isinstance(n, ast.Call) and pf.dotted(n.func) in ('setattr', 'delattr'):
                return set()
    return {a for a, fs in stores.items() if all(x == '__init__' for x in fs)}


# --------------------------------------------------------------------------------------
# small tree utilities
# --------------------------------------------------------------------------------------


def _blocks(node: ast.AST):
    """Every statement list inside node (not inside nested defs)."""
    for n in pf.walk_shallow(node):
        for fld in ('body', 'orelse', 'finalbody'):
            b = getattr(n, fld, None)
            if isinstance(b, list) and b and isinstance(b[0], ast.stmt):
                yield n, fld, b
        if isinstance(n, ast.Try):
            for h in n.handlers:
                yield h, 'body', h.body


def _parents(root: ast.AST) -> Dict[ast.AST, ast.AST]:
    out: Dict[ast.AST, ast.AST] = {}
    for p in ast.walk(root):
        for c in ast.iter_child_nodes(p):
            out[c] = p
    return out


def _selfname(fn: FuncDef, in_class: bool) -> Optional[str]:
    if in_class and fn.args.args and not any(d in ('staticmethod', 'classmethod') for d in pf.decorator_names(fn)):
        return fn.args.args[0].arg
    return None


def _params(fn: FuncDef) -> Set[str]:
    a = fn.args
    out = {x.arg for x in a.posonlyargs + a.args + a.kwonlyargs}
    if a.vararg:
        out.add(a.vararg.arg)
    if a.kwarg:
        out.add(a.kwarg.arg)
    return out


# --------------------------------------------------------------------------------------
# augassign, delhead
# --------------------------------------------------------------------------------------


def _simple_target(t: ast.AST) -> bool:
    if isinstance(t, ast.Name):
        return True
    if isinstance(t, ast.Attribute):
        return _simple_target(t.value)
    if isinstance(t, ast.Subscript):
        return _simple_target(t.value) and isinstance(t.slice, (ast.Name, ast.Constant))
    return False


class _Aug(ast.NodeTransformer):
    def visit_FunctionDef(self, node):
        return node

    visit_AsyncFunctionDef = visit_Lambda = visit_ClassDef = visit_FunctionDef

    def visit_Assign(self, node: ast.Assign):
        if len(node.targets) == 1 and _simple_target(node.targets[0]) and isinstance(node.value, ast.BinOp) and isinstance(node.value.op, (ast.Add, ast.Sub)):
            t, v = node.targets[0], node.value
            if pf.nsrc(v.left) == pf.nsrc(t):
                return ast.copy_location(ast.AugAssign(target=t, op=v.op, value=v.right), node)
            if isinstance(v.op, ast.Add) and pf.nsrc(v.right) == pf.nsrc(t) and purity(v.left, None, set()) is not None:
                return ast.copy_location(ast.AugAssign(target=t, op=v.op, value=v.left), node)   # numeric counters: + commutes
        return node


def augassign(fn: FuncDef) -> None:
    for _, fld, b in list(_blocks(fn)):
        b[:] = [_Aug().visit(st) if isinstance(st, ast.Assign) else st for st in b]


def delhead(fn: FuncDef, containers: Sequence[str]) -> None:
    for _, fld, b in list(_blocks(fn)):
        for i, st in enumerate(b):
            if isinstance(st, ast.Delete) and len(st.targets) == 1 and isinstance(st.targets[0], ast.Subscript):
                t = st.targets[0]
                if pf.nsrc(t.value) in containers and isinstance(t.slice, ast.Constant) and t.slice.value == 0 and not isinstance(t.slice.value, bool):
                    val = copy.deepcopy(t.value)
                    for x in ast.walk(val):
                        if hasattr(x, 'ctx'):
                            x.ctx = ast.Load()  # type: ignore[attr-defined]
                    call = ast.Call(func=ast.Attribute(value=val, attr='popleft', ctx=ast.Load()), args=[], keywords=[])
                    b[i] = ast.copy_location(ast.Expr(value=call), st)
                    ast.fix_missing_locations(b[i])


# --------------------------------------------------------------------------------------
# tests
# --------------------------------------------------------------------------------------

_NEG = {ast.Lt: ast.GtE, ast.LtE: ast.Gt, ast.Gt: ast.LtE, ast.GtE: ast.Lt, ast.Eq: ast.NotEq, ast.NotEq: ast.Eq,
        ast.Is: ast.IsNot, ast.IsNot: ast.Is, ast.In: ast.NotIn, ast.NotIn: ast.In}


def _neg(t: ast.expr) -> ast.expr:
    """An expression with the truth value of `not t` (test context: only truthiness matters)."""
    if isinstance(t, ast.UnaryOp) and isinstance(t.op, ast.Not):
        return simp_test(t.operand)
    if isinstance(t, ast.Compare) and len(t.ops) == 1 and type(t.ops[0]) in _NEG:
        return ast.copy_location(ast.Compare(left=t.left, ops=[_NEG[type(t.ops[0])]()], comparators=t.comparators), t)
    if isinstance(t, ast.BoolOp):
        op = ast.Or() if isinstance(t.op, ast.And) else ast.And()
        return ast.copy_location(ast.BoolOp(op=op, values=[_neg(v) for v in t.values]), t)
    if isinstance(t, ast.Constant) and isinstance(t.value, bool):
        return ast.copy_location(ast.Constant(value=not t.value), t)
    return ast.copy_location(ast.UnaryOp(op=ast.Not(), operand=simp_test(t)), t)


def simp_test(t: ast.expr) -> ast.expr:
    if isinstance(t, ast.UnaryOp) and isinstance(t.op, ast.Not):
        return _neg(t.operand)
    if isinstance(t, ast.BoolOp):
        vals: List[ast.expr] = []
        for v in t.values:
            v2 = simp_test(v)
            if isinstance(v2, ast.BoolOp) and type(v2.op) is type(t.op):
                vals.extend(v2.values)
            else:
                vals.append(v2)
        return ast.copy_location(ast.BoolOp(op=t.op, values=vals), t)
    if isinstance(t, ast.Call) and pf.dotted(t.func) == 'bool' and len(t.args) == 1 and not t.keywords:
        return simp_test(t.args[0])
    return t


def tests(fn: FuncDef) -> None:
    for n in pf.walk_shallow(fn):
        if isinstance(n, (ast.If, ast.While)):
            n.test = simp_test(n.test)
            ast.fix_missing_locations(n)


# --------------------------------------------------------------------------------------
# loops
# --------------------------------------------------------------------------------------


def _is_break_guard(st: ast.stmt) -> bool:
    return isinstance(st, ast.If) and not st.orelse and len(st.body) == 1 and isinstance(st.body[0], ast.Break)


def _and(a: ast.expr, b: ast.expr) -> ast.expr:
    if isinstance(a, ast.Constant) and a.value is True:
        return b
    vals = (a.values if isinstance(a, ast.BoolOp) and isinstance(a.op, ast.And) else [a]) + (b.values if isinstance(b, ast.BoolOp) and isinstance(b.op, ast.And) else [b])
    return ast.copy_location(ast.BoolOp(op=ast.And(), values=list(vals)), a)


def loops(fn: FuncDef, fold_else_break: bool = True) -> bool:
    changed = False
    for n in list(pf.walk_shallow(fn)):
        if not isinstance(n, ast.While) or n.orelse:
            continue
        if isinstance(n.test, ast.Constant) and n.test.value not in (True, 1):
            continue
        while len(n.body) >= 2 and _is_break_guard(n.body[0]):
            g = n.body.pop(0)
            n.test = _and(n.test, _neg(g.test))  # type: ignore[attr-defined]
            changed = True
        if fold_else_break and len(n.body) == 1 and isinstance(n.body[0], ast.If) and len(n.body[0].orelse) == 1 and isinstance(n.body[0].orelse[0], ast.Break) \
                and not any(isinstance(x, ast.Break) for x in _loop_level(n.body[0].body)):
            i = n.body[0]
            n.test = _and(n.test, simp_test(i.test))
            n.body = i.body
            changed = True
        ast.fix_missing_locations(n)
    return changed


def _loop_level(stmts: Sequence[ast.stmt]):
    """Statements of a loop body that belong to this loop (not to nested loops / defs)."""
    for st in stmts:
        yield st
        if isinstance(st, (ast.For, ast.AsyncFor, ast.While, ast.FunctionDef, ast.AsyncFunctionDef, ast.ClassDef)):
            continue
        for fld in ('body', 'orelse', 'finalbody'):
            b = getattr(st, fld, None)
            if isinstance(b, list) and b and isinstance(b[0], ast.stmt):
                yield from _loop_level(b)
        if isinstance(st, ast.Try):
            for h in st.handlers:
                yield from _loop_level(h.body)


# --------------------------------------------------------------------------------------
# propagate
# --------------------------------------------------------------------------------------


def _between(cfg: pf.CFG, D: pf.Node, U: pf.Node) -> List[pf.Node]:
    """Nodes that can execute after D and before (an evaluation of) U without D being executed again in between; U itself is included
    when it lies on a cycle that avoids D."""
    fwd: Set[int] = set()
    stack = [x for x, _ in D.succ]
    while stack:
        n = stack.pop()
        if n.id in fwd or n is D:
            continue
        fwd.add(n.id)
        stack.extend(x for x, _ in n.succ)
    bwd: Set[int] = set()
    stack = [x for x, _ in U.pred]
    while stack:
        n = stack.pop()
        if n.id in bwd or n is D:
            continue
        bwd.add(n.id)
        stack.extend(x for x, _ in n.pred)
    return [n for n in cfg.nodes if n.id in fwd and n.id in bwd]


def _impure_call(c: ast.Call) -> bool:
    d = pf.dotted(c.func)
    if d in PURE_FUNCS:
        return False
    if isinstance(c.func, ast.Attribute) and c.func.attr in PURE_METHODS and not c.args and not c.keywords:
        return False
    return True


def _mutates(n: pf.Node) -> bool:
    """May this node change state a pure read depends on (a call, a suspension, a store into an attribute / container)?"""
    if pf.node_has_await(n):
        return True
    if any(_impure_call(c) for c in pf.node_calls(n)):
        return True
    a = n.ast
    tg: List[ast.AST] = []
    if n.kind == 'stmt':
        if isinstance(a, ast.Assign):
            tg = list(a.targets)
        elif isinstance(a, (ast.AugAssign, ast.AnnAssign)):
            tg = [a.target]
        elif isinstance(a, ast.Delete):
            tg = list(a.targets)
        elif isinstance(a, (ast.FunctionDef, ast.AsyncFunctionDef, ast.ClassDef, ast.Import, ast.ImportFrom, ast.Global, ast.Nonlocal)):
            return True
    elif n.kind == 'loop' and isinstance(a, (ast.For, ast.AsyncFor)):
        return True   # iteration protocol: calls
    elif n.kind == 'with':
        return True
    return any(isinstance(x, (ast.Attribute, ast.Subscript)) and isinstance(x.ctx, (ast.Store, ast.Del)) for t in tg for x in ast.walk(t))


def _defines(n: pf.Node, names: Set[str], cfg: pf.CFG, cache: Dict[str, List[pf.Node]]) -> bool:
    for nm in names:
        if nm not in cache:
            cache[nm] = cf.def_nodes(cfg, nm)
        if any(n is d for d in cache[nm]):
            return True
    return False


def _use_ok(cfg: pf.CFG, D: pf.Node, U: pf.Node, use: ast.AST, reads: Reads, par: Dict[ast.AST, ast.AST], cache: Dict[str, List[pf.Node]]) -> bool:
    if U is D or not cfg.dominated_by(U, lambda n: n is D):
        return False
    for X in _between(cfg, D, U):
        if _defines(X, reads.names, cfg, cache):
            return False
        if reads.state and X is not U and _mutates(X):
            return False
    if reads.state:
        # inside the using statement: whatever is evaluated before the use must be pure (ancestors of the use are evaluated after it)
        anc: Set[int] = set()
        cur: Optional[ast.AST] = use
        while cur is not None:
            anc.add(id(cur))
            cur = par.get(cur)
        for e in pf.node_exprs(U):
            for x in pf.walk_shallow(e):
                if id(x) in anc:
                    continue
                if isinstance(x, (ast.Await, ast.Yield, ast.YieldFrom, ast.NamedExpr)) or (isinstance(x, ast.Call) and _impure_call(x)):
                    return False
        # the using statement may itself lie on a cycle that avoids D: then its own effects precede its next evaluation
        if any(X is U for X in _between(cfg, D, U)) and _mutates(U):
            return False
    return True


def _load_uses(fn: FuncDef, name: str) -> Tuple[List[ast.Name], bool]:
    """(Load occurrences of the local outside nested scopes, whether it also occurs inside a nested scope / comprehension)."""
    shallow = [n for n in pf.walk_shallow(fn) if isinstance(n, ast.Name) and n.id == name and isinstance(n.ctx, ast.Load)]
    deep = [n for n in ast.walk(fn) if isinstance(n, ast.Name) and n.id == name and isinstance(n.ctx, ast.Load)]
    compr = any(isinstance(c, (ast.ListComp, ast.SetComp, ast.DictComp, ast.GeneratorExp)) and any(isinstance(x, ast.Name) and x.id == name for x in ast.walk(c))
                for c in pf.walk_shallow(fn))
    return shallow, len(deep) != len(shallow) or compr


def _replace(root: ast.AST, old: ast.AST, new: ast.AST, par: Dict[ast.AST, ast.AST]) -> bool:
    p = par.get(old)
    if p is None:
        return False
    for fld, val in ast.iter_fields(p):
        if val is old:
            setattr(p, fld, new)
            return True
        if isinstance(val, list):
            for i, x in enumerate(val):
                if x is old:
                    val[i] = new
                    return True
    return False


def _remove_stmt(fn: FuncDef, st: ast.stmt) -> None:
    for owner, fld, b in list(_blocks(fn)):
        for i, x in enumerate(b):
            if x is st:
                del b[i]
                if not b:
                    b.append(ast.copy_location(ast.Pass(), st))
                return


def propagate(fn: FuncDef, selfname: Optional[str], immutable: Set[str], limit: int = 60) -> int:
    """Copy propagation of single-definition pure locals (all uses or none) and of projections of tuple displays.  Returns the number of
    locals eliminated."""
    done = 0
    params = _params(fn)
    for _ in range(limit):
        cfg = pf.CFG(fn)
        par = _parents(fn)
        cache: Dict[str, List[pf.Node]] = {}
        reach = cfg.reachable_from(cfg.entry)
        progressed = False
        cands = []
        for n in cfg.nodes:
            a = n.ast
            if n.kind != 'stmt' or n.id not in reach:
                continue
            if isinstance(a, ast.Assign) and len(a.targets) == 1 and isinstance(a.targets[0], ast.Name):
                cands.append((n, a.targets[0].id, a.value))
            elif isinstance(a, ast.AnnAssign) and isinstance(a.target, ast.Name) and a.value is not None:
                cands.append((n, a.target.id, a.value))
        for D, name, val in cands:
            if name in params or name.startswith('__') or len(cf.def_nodes(cfg, name)) != 1:
                continue
            if any(isinstance(x, (ast.Global, ast.Nonlocal)) and name in x.names for x in ast.walk(fn)):
                continue
            uses, nested = _load_uses(fn, name)
            if nested:
                continue
            # projections of a tuple display: X[i]
            if isinstance(val, ast.Tuple) and all(not isinstance(e, ast.Starred) for e in val.elts):
                for u in uses:
                    p = par.get(u)
                    if isinstance(p, ast.Subscript) and p.value is u and isinstance(p.ctx, ast.Load) and isinstance(p.slice, ast.Constant) \
                            and isinstance(p.slice.value, int) and not isinstance(p.slice.value, bool) and -len(val.elts) <= p.slice.value < len(val.elts):
                        elt = val.elts[p.slice.value]
                        whole = purity(val, selfname, immutable)   # the display is evaluated as a whole at D
                        r = purity(elt, selfname, immutable)
                        if whole is None or r is None:
                            continue
                        Us = cfg.node_of(u)
                        if len(Us) == 1 and _use_ok(cfg, D, Us[0], p, r, par, cache):
                            new = copy.deepcopy(elt)
                            if _replace(fn, p, new, par):
                                progressed = True
                                break
                if progressed:
                    break
            r = purity(val, selfname, immutable)
            if r is None or name in r.names or not uses or isinstance(val, ast.Tuple):
                continue   # (a tuple display builds an object: it stays where it is; only its projections are folded)
            ok = True
            for u in uses:
                Us = cfg.node_of(u)
                if len(Us) != 1 or not _use_ok(cfg, D, Us[0], u, r, par, cache):
                    ok = False
                    break
            if not ok:
                continue
            for u in uses:
                new = copy.deepcopy(val)
                _replace(fn, u, new, par)
            _remove_stmt(fn, D.ast)  # type: ignore[arg-type]
            done += 1
            progressed = True
            break
        if not progressed:
            break
    ast.fix_missing_locations(fn)
    return done


# --------------------------------------------------------------------------------------
# hoist / thread (helpers called inside a test or a larger expression)
# --------------------------------------------------------------------------------------


class _Subst(ast.NodeTransformer):
    def __init__(self, mapping: Dict[str, ast.expr]):
        self.mapping = mapping

    def visit_Name(self, node: ast.Name):
        if isinstance(node.ctx, ast.Load) and node.id in self.mapping:
            return ast.copy_location(copy.deepcopy(self.mapping[node.id]), node)
        return node


def _simple_arg(a: ast.AST) -> bool:
    if isinstance(a, (ast.Name, ast.Constant)):
        return True
    return isinstance(a, ast.Attribute) and _simple_arg(a.value)


def expr_helpers(fn: FuncDef, helpers: Dict[str, FuncDef], modfuncs: Dict[str, FuncDef], recv: str) -> List[Tuple[str, int]]:
    """Calls of a helper whose whole body is `return E`, E a pure read over its parameters, with simple arguments (names, constants,
    attribute chains) are replaced by E with the arguments substituted - anywhere in an expression: E is evaluated at the very place the
    call was.  Returns (helper, line) per replacement."""
    done: List[Tuple[str, int]] = []
    local_names = {n.id for n in pf.walk_shallow(fn) if isinstance(n, ast.Name) and isinstance(n.ctx, (ast.Store, ast.Del))} | _params(fn)
    for _ in range(20):
        par = _parents(fn)
        hit = False
        for c in [x for x in pf.walk_shallow(fn) if isinstance(x, ast.Call)]:
            h: Optional[FuncDef] = None
            method = False
            if isinstance(c.func, ast.Attribute) and isinstance(c.func.value, ast.Name) and c.func.value.id == recv and c.func.attr in helpers:
                h, method = helpers[c.func.attr], True
            elif isinstance(c.func, ast.Name) and c.func.id in modfuncs and c.func.id not in local_names:
                h = modfuncs[c.func.id]
            if h is None or h is fn or not isinstance(h, ast.FunctionDef) or h.decorator_list:
                continue
            a = h.args
            if a.vararg or a.kwarg or a.posonlyargs or a.kwonlyargs or a.defaults or c.keywords or any(isinstance(x, ast.Starred) for x in c.args):
                continue
            ps = [x.arg for x in a.args]
            hself = None
            if method:
                if not ps:
                    continue
                hself, ps = ps[0], ps[1:]
            body = [s for s in h.body if not (isinstance(s, ast.Expr) and isinstance(s.value, ast.Constant) and isinstance(s.value.value, str))]
            if len(body) != 1 or not isinstance(body[0], ast.Return) or body[0].value is None or len(c.args) != len(ps):
                continue
            if not all(_simple_arg(x) for x in c.args):
                continue
            E = body[0].value
            r = purity(E, hself, set())
            own = set(ps) | ({hself} if hself else set())
            # a free name of E is resolved in the module scope by the helper: it must not be captured by a local of the caller
            if r is None or any(nm in local_names for nm in r.names - own):
                continue
            mapping: Dict[str, ast.expr] = dict(zip(ps, c.args))
            if hself is not None and hself != recv:
                mapping[hself] = ast.Name(id=recv, ctx=ast.Load())
            new = _Subst(mapping).visit(copy.deepcopy(E))
            if _replace(fn, c, ast.copy_location(new, c), par):
                ast.fix_missing_locations(fn)
                done.append((h.name, getattr(c, 'lineno', 0)))
                hit = True
                break
        if not hit:
            break
    return done


class _Hoister:
    def __init__(self, helpers: Dict[str, FuncDef], recv: str):
        self.helpers = helpers
        self.recv = recv
        self.n = 0
        self.temps: Set[str] = set()

    def _is_helper_call(self, x: ast.AST) -> bool:
        return isinstance(x, ast.Call) and isinstance(x.func, ast.Attribute) and isinstance(x.func.value, ast.Name) and x.func.value.id == self.recv \
            and x.func.attr in self.helpers and isinstance(self.helpers[x.func.attr], ast.FunctionDef)

    def _hoistable(self, root: ast.AST, call: ast.Call, par: Dict[ast.AST, ast.AST]) -> bool:
        anc: Set[int] = set()
        cur: Optional[ast.AST] = call
        while cur is not None and cur is not root:
            cur = par.get(cur)
            if cur is None:
                return False
            if isinstance(cur, (ast.BoolOp, ast.IfExp, ast.Lambda, ast.ListComp, ast.SetComp, ast.DictComp, ast.GeneratorExp, ast.NamedExpr)):
                return False
            anc.add(id(cur))
        inside = {id(x) for x in ast.walk(call)}
        for x in ast.walk(root):
            if id(x) in anc or id(x) in inside:
                continue
            if isinstance(x, (ast.Call, ast.Await, ast.Yield, ast.YieldFrom, ast.NamedExpr, ast.Lambda)):
                return False
        # the call's own arguments must not contain further calls
        return not any(isinstance(x, (ast.Call, ast.Await)) for a in list(call.args) + [k.value for k in call.keywords] for x in ast.walk(a))

    def block(self, stmts: List[ast.stmt]) -> List[ast.stmt]:
        out: List[ast.stmt] = []
        for st in stmts:
            for fld in ('body', 'orelse', 'finalbody'):
                b = getattr(st, fld, None)
                if isinstance(b, list) and b and isinstance(b[0], ast.stmt) and not isinstance(st, (ast.FunctionDef, ast.AsyncFunctionDef, ast.ClassDef)):
                    setattr(st, fld, self.block(b))
            if isinstance(st, ast.Try):
                for h in st.handlers:
                    h.body = self.block(h.body)
            root: Optional[ast.AST] = None
            if isinstance(st, ast.If):
                root = st.test
            elif isinstance(st, (ast.Expr, ast.Return)) and st.value is not None:
                root = st.value
            elif isinstance(st, (ast.Assign, ast.AnnAssign, ast.AugAssign)) and getattr(st, 'value', None) is not None:
                tg = st.targets if isinstance(st, ast.Assign) else [st.target]
                if all(isinstance(t, ast.Name) for t in tg):
                    root = st.value
            if root is not None:
                # statement-level forms are the inliner's business
                top = root.value if isinstance(root, ast.Await) else root
                par = _parents(st)
                for c in [x for x in ast.walk(root) if self._is_helper_call(x)]:
                    if c is top and not isinstance(st, ast.If):
                        continue
                    if not self._hoistable(root, c, par):  # type: ignore[arg-type]
                        continue
                    self.n += 1
                    t = f'{TMP}{self.n}'
                    self.temps.add(t)
                    asg = ast.copy_location(ast.Assign(targets=[ast.Name(id=t, ctx=ast.Store())], value=c, lineno=st.lineno), st)
                    nm = ast.copy_location(ast.Name(id=t, ctx=ast.Load()), c)
                    if root is c:
                        if isinstance(st, ast.If):
                            st.test = nm
                        else:
                            st.value = nm  # type: ignore[attr-defined]
                    else:
                        _replace(st, c, nm, par)
                    ast.fix_missing_locations(asg)
                    out.append(asg)
                    break   # one per statement (a second call would be evaluated after the first: still in order, but keep it simple)
            out.append(st)
        return out


def _thread_into(stmts: List[ast.stmt], t: str, second: ast.If, neg: bool) -> bool:
    """Replace the trailing `t = V` of every leaf of the statement list by the arm of `second` that V selects."""
    if not stmts:
        return False
    last = stmts[-1]
    if isinstance(last, ast.Assign) and len(last.targets) == 1 and isinstance(last.targets[0], ast.Name) and last.targets[0].id == t:
        v = last.value
        if isinstance(v, ast.Constant):
            truth = bool(v.value) != neg
            arm = copy.deepcopy(second.body if truth else second.orelse)
            stmts[-1:] = arm
        else:
            test = _neg(v) if neg else v
            stmts[-1:] = [ast.copy_location(ast.If(test=test, body=copy.deepcopy(second.body), orelse=copy.deepcopy(second.orelse)), second)]
        return True
    if isinstance(last, ast.If) and last.orelse:
        a = copy.deepcopy(last.body)
        b = copy.deepcopy(last.orelse)
        if _thread_into(a, t, second, neg) and _thread_into(b, t, second, neg):
            last.body, last.orelse = a or [ast.copy_location(ast.Pass(), last)], b
            return True
    return False


def _leaf_only_defs(stmts: List[ast.stmt], t: str) -> int:
    """Number of `t = V` leaf assignments when the statement list ends, on every branch, with one; -1 otherwise."""
    if not stmts:
        return -1
    last = stmts[-1]
    if isinstance(last, ast.Assign) and len(last.targets) == 1 and isinstance(last.targets[0], ast.Name) and last.targets[0].id == t:
        return 1
    if isinstance(last, ast.If) and last.orelse:
        a, b = _leaf_only_defs(last.body, t), _leaf_only_defs(last.orelse, t)
        return a + b if a > 0 and b > 0 else -1
    return -1


def thread(fn: FuncDef) -> bool:
    changed = False
    again = True
    while again:
        again = False
        for owner, fld, b in list(_blocks(fn)):
            for i in range(1, len(b)):
                second = b[i]
                if not isinstance(second, ast.If):
                    continue
                test = second.test
                neg = False
                if isinstance(test, ast.UnaryOp) and isinstance(test.op, ast.Not):
                    test, neg = test.operand, True
                if not isinstance(test, ast.Name):
                    continue
                t = test.id
                k = _leaf_only_defs(b[:i], t)
                if k <= 0 or t in _params(fn):
                    continue
                loads = [n for n in ast.walk(fn) if isinstance(n, ast.Name) and n.id == t and isinstance(n.ctx, ast.Load)]
                stores = [n for n in ast.walk(fn) if isinstance(n, ast.Name) and n.id == t and isinstance(n.ctx, (ast.Store, ast.Del))]
                inside = [n for n in ast.walk(b[i - 1]) if isinstance(n, ast.Name) and n.id == t and isinstance(n.ctx, ast.Store)]
                if len(loads) != 1 or len(stores) != len(inside):
                    continue   # t is read elsewhere, or bound outside the statement whose leaves define it
                # the tail of b[:i] that carries the leaves is its last statement (an If tree or the plain assignment)
                head = b[:i]
                if _thread_into(head, t, second, neg):
                    b[:i + 1] = head
                    ast.fix_missing_locations(fn)
                    changed = again = True
                    break
            if again:
                break
    return changed


def _terminates(stmts: Sequence[ast.stmt]) -> bool:
    if not stmts:
        return False
    last = stmts[-1]
    if isinstance(last, (ast.Return, ast.Raise)):
        return True
    return isinstance(last, ast.If) and bool(last.orelse) and _terminates(last.body) and _terminates(last.orelse)


def guard_to_else(fn: FuncDef) -> bool:
    """`if c: ...; return / raise` followed by REST  ==>  `if c: ...; return / raise  else: REST` (guard clause as if / else)."""
    changed = False
    again = True
    while again:
        again = False
        for owner, fld, b in list(_blocks(fn)):
            for i, st in enumerate(b[:-1]):
                if isinstance(st, ast.If) and not st.orelse and _terminates(st.body):
                    st.orelse = b[i + 1:]
                    del b[i + 1:]
                    changed = again = True
                    break
            if again:
                break
    if changed:
        ast.fix_missing_locations(fn)
    return changed


def ifexp_stmt(fn: FuncDef) -> bool:
    """An expression statement `A if c else B`  ==>  `if c: A else: B`."""
    changed = False
    for owner, fld, b in list(_blocks(fn)):
        for i, st in enumerate(b):
            if isinstance(st, ast.Expr) and isinstance(st.value, ast.IfExp):
                e = st.value
                b[i] = ast.copy_location(ast.If(test=e.test, body=[ast.copy_location(ast.Expr(value=e.body), st)], orelse=[ast.copy_location(ast.Expr(value=e.orelse), st)]), st)
                changed = True
    if changed:
        ast.fix_missing_locations(fn)
    return changed


def split_parallel(fn: FuncDef) -> bool:
    """`a, b = x, y`  ==>  `a = x; b = y`  when no target is read by any right-hand side (all of them are evaluated first) and every
    right-hand side is a pure read."""
    changed = False
    for owner, fld, b in list(_blocks(fn)):
        i = 0
        while i < len(b):
            st = b[i]
            if isinstance(st, ast.Assign) and len(st.targets) == 1 and isinstance(st.targets[0], ast.Tuple) and isinstance(st.value, ast.Tuple) \
                    and len(st.targets[0].elts) == len(st.value.elts) and all(isinstance(t, ast.Name) for t in st.targets[0].elts) \
                    and not any(isinstance(v, ast.Starred) for v in st.value.elts):
                tnames = {t.id for t in st.targets[0].elts}  # type: ignore[attr-defined]
                rs = [purity(v, None, set()) for v in st.value.elts]
                if len(tnames) == len(st.targets[0].elts) and all(r is not None and not (r.names & tnames) for r in rs):
                    new = [ast.copy_location(ast.Assign(targets=[ast.Name(id=t.id, ctx=ast.Store())], value=v, lineno=st.lineno), st)  # type: ignore[attr-defined]
                           for t, v in zip(st.targets[0].elts, st.value.elts)]
                    b[i:i + 1] = new
                    i += len(new)
                    changed = True
                    continue
            i += 1
    if changed:
        ast.fix_missing_locations(fn)
    return changed


def loop_returns_to_breaks(h: FuncDef) -> bool:
    """A helper that ends with ONE loop and leaves it by `return` (no value): `return` directly inside that loop is `break` (nothing follows
    the loop).  Makes the helper inlinable by engines/inline.py, which wants returns in tail position."""
    body = [st for st in h.body if not (isinstance(st, ast.Expr) and isinstance(st.value, ast.Constant) and isinstance(st.value.value, str))]
    while body and isinstance(body[-1], ast.Return) and (body[-1].value is None or (isinstance(body[-1].value, ast.Constant) and body[-1].value.value is None)):
        body = body[:-1]
    if not body or not isinstance(body[-1], (ast.While, ast.For, ast.AsyncFor)) or body[-1].orelse:
        return False
    L = body[-1]
    rets = [x for st in h.body for x in pf.walk_shallow(st) if isinstance(x, ast.Return)]
    inside = [x for x in _loop_level(L.body) if isinstance(x, ast.Return)]
    trailing = [st for st in h.body if isinstance(st, ast.Return) and st not in inside]
    if not inside or len(inside) + len(trailing) != len(rets):
        return False
    if any(not (r.value is None or (isinstance(r.value, ast.Constant) and r.value.value is None)) for r in rets):
        return False
    if any(st is not L and any(isinstance(x, ast.Return) for x in pf.walk_shallow(st)) for st in body):
        return False
    for owner, fld, b in list(_blocks(L)):
        for i, st in enumerate(b):
            if any(st is r for r in inside):
                b[i] = ast.copy_location(ast.Break(), st)
    h.body = [st for st in h.body if not any(st is t for t in trailing)] or [ast.copy_location(ast.Pass(), h)]
    ast.fix_missing_locations(h)
    return True


def _flag_test(t: ast.expr) -> Optional[str]:
    if isinstance(t, ast.UnaryOp) and isinstance(t.op, ast.Not):
        t = t.operand
    return t.id if isinstance(t, ast.Name) else None


def _stores(stmts: Sequence[ast.stmt], name: str) -> bool:
    return any(isinstance(x, ast.Name) and x.id == name and isinstance(x.ctx, (ast.Store, ast.Del)) for st in stmts for x in ast.walk(st))


def merge_ifs(fn: FuncDef) -> bool:
    """`if v: A else: A2` directly followed by `if v: B else: B2` (v a local that A / A2 do not re-bind)  ==>  `if v: A; B else: A2; B2`."""
    changed = False
    again = True
    while again:
        again = False
        for owner, fld, b in list(_blocks(fn)):
            for i in range(len(b) - 1):
                x, y = b[i], b[i + 1]
                if not (isinstance(x, ast.If) and isinstance(y, ast.If)):
                    continue
                v = _flag_test(x.test)
                if v is None or v != _flag_test(y.test) or _stores(x.body + x.orelse, v):
                    continue
                same = isinstance(x.test, ast.Name) == isinstance(y.test, ast.Name)
                yb, yo = (y.body, y.orelse) if same else (y.orelse, y.body)
                x.body = x.body + yb
                x.orelse = x.orelse + yo
                if not x.body:
                    x.body = [ast.copy_location(ast.Pass(), x)]
                del b[i + 1]
                changed = again = True
                break
            if again:
                break
    if changed:
        ast.fix_missing_locations(fn)
    return changed


def sink_init(fn: FuncDef) -> bool:
    """`v = K; if c: S else: S2; if v: ...` (K a constant, c does not read v)  ==>  `if c: v = K; S else: v = K; S2; if v: ...`: prepares `thread`."""
    changed = False
    for owner, fld, b in list(_blocks(fn)):
        for i in range(len(b) - 2):
            a, x, y = b[i], b[i + 1], b[i + 2]
            if not (isinstance(a, ast.Assign) and len(a.targets) == 1 and isinstance(a.targets[0], ast.Name) and isinstance(a.value, ast.Constant)):
                continue
            v = a.targets[0].id
            if not (isinstance(x, ast.If) and isinstance(y, ast.If) and _flag_test(y.test) == v):
                continue
            if any(isinstance(n, ast.Name) and n.id == v for n in ast.walk(x.test)):
                continue
            x.body = [copy.deepcopy(a)] + x.body
            x.orelse = [copy.deepcopy(a)] + x.orelse
            # every leaf must end by binding v for `thread`: a leaf that does not re-bind v ends with the initial value
            _close_leaves(x, v, a)
            del b[i]
            changed = True
            break
    if changed:
        ast.fix_missing_locations(fn)
    return changed


def _close_leaves(x: ast.If, v: str, init: ast.Assign) -> None:
    for blk in (x.body, x.orelse):
        last = blk[-1] if blk else None
        if isinstance(last, ast.If) and last.orelse and not _stores([last], v):
            continue
        if isinstance(last, ast.Assign) and len(last.targets) == 1 and isinstance(last.targets[0], ast.Name) and last.targets[0].id == v:
            continue
        if isinstance(last, (ast.Return, ast.Raise, ast.Break, ast.Continue)):
            continue
        if not _stores(blk[1:], v):
            # v still holds the initial constant at the end of this branch: say so (a second, redundant binding)
            blk.append(copy.deepcopy(init))


# --------------------------------------------------------------------------------------
# the pipeline
# --------------------------------------------------------------------------------------


class Info:
    def __init__(self) -> None:
        self.inlined: List[Tuple[str, int]] = []
        self.skipped: List[Tuple[str, int, str]] = []
        self.propagated = 0
        self.absorbed: Set[str] = set()


def normalise_fn(fn: FuncDef, selfname: Optional[str], immutable: Set[str], deque_attrs: Sequence[str] = ()) -> int:
    """All intra-procedural normalisations on one function (in place)."""
    n = 0
    augassign(fn)
    split_parallel(fn)
    while ifexp_stmt(fn):
        pass
    if deque_attrs:
        delhead(fn, deque_attrs)
    for _ in range(8):
        ch = merge_ifs(fn)
        ch = sink_init(fn) or ch
        ch = thread(fn) or ch
        k = propagate(fn, selfname, immutable)
        n += k
        tests(fn)
        ch = loops(fn, fold_else_break=bool(deque_attrs)) or ch
        if not k and not ch:
            break
    if deque_attrs:
        delhead(fn, deque_attrs)   # again: an alias of the deque may have been resolved meanwhile
    guard_to_else(fn)
    tests(fn)
    ast.fix_missing_locations(fn)
    return n


def _refs(cls: ast.ClassDef, names: Set[str]) -> Dict[str, Set[str]]:
    refs: Dict[str, Set[str]] = {}
    for f in cls.body:
        if isinstance(f, (ast.FunctionDef, ast.AsyncFunctionDef)):
            s = f.args.args[0].arg if f.args.args else 'self'
            for x in ast.walk(f):
                if isinstance(x, ast.Attribute) and isinstance(x.value, ast.Name) and x.value.id == s and x.attr in names:
                    refs.setdefault(x.attr, set()).add(f.name)
    return refs


def prepare(m: pf.Module, cls_name: str, targets: Sequence[str], exclude: Tuple[str, ...] = (), deque_attrs: Sequence[str] = (),
            max_depth: int = 3, drop_absorbed: bool = False, also_classes: Sequence[str] = ()) -> Tuple[pf.Module, Info]:
    """A copy of module m in which the methods `targets` of the class have their same-class helpers inlined (also where the helper is
    called in an `if` test or inside a larger expression) and every method of the class is normalised.  `Info.absorbed`: helpers that were
    expanded at every place that refers to them - they have no behaviour of their own beyond what the targets now show (`drop_absorbed`
    removes their definitions from the copy).  `also_classes`: further classes of the module whose methods are normalised (no inlining)."""
    info = Info()
    tree = copy.deepcopy(m.tree)
    cur = pf.Module(m.rel, m.path, m.src, tree)
    cls = cur.cls(cls_name)
    excl = tuple(exclude) + tuple(targets)
    for tname in targets:
        cls = cur.cls(cls_name)
        fn = next((f for f in cls.body if isinstance(f, (ast.FunctionDef, ast.AsyncFunctionDef)) and f.name == tname), None)
        if fn is None:
            continue
        helpers = {f.name: f for f in cls.body if isinstance(f, (ast.FunctionDef, ast.AsyncFunctionDef)) and f.name not in excl}
        recv = fn.args.args[0].arg if fn.args.args else 'self'
        modfuncs = {f.name: f for f in tree.body if isinstance(f, ast.FunctionDef)}
        for g in helpers.values():
            loop_returns_to_breaks(g)
        for g in [fn] + list(helpers.values()):
            for name, line in expr_helpers(g, helpers, modfuncs, g.args.args[0].arg if g.args.args else recv):
                if g is fn:
                    info.inlined.append((name, line))
            g.body = _Hoister(helpers, g.args.args[0].arg if g.args.args else recv).block(g.body)
            ast.fix_missing_locations(g)
        cur, il = inline.inline_methods(cur, cls_name, tname, max_depth=max_depth, exclude=tuple(x for x in excl if x != tname))
        info.inlined += il.inlined
        info.skipped += il.skipped
    tree = cur.tree
    cls = cur.cls(cls_name)
    imm = immutable_attrs(cls)
    for f in cls.body:
        if isinstance(f, (ast.FunctionDef, ast.AsyncFunctionDef)):
            info.propagated += normalise_fn(f, _selfname(f, True), imm, deque_attrs)
    # absorbed helpers: inlined somewhere, and no reference to them is left outside absorbed helpers
    inl = {n for n, _ in info.inlined}
    refs = _refs(cls, inl)
    out: Set[str] = set()
    changed = True
    while changed:
        changed = False
        for hname in inl - out:
            if all(r in out or r == hname for r in refs.get(hname, set())):
                out.add(hname)
                changed = True
    info.absorbed = out
    if drop_absorbed:
        cls.body = [f for f in cls.body if not (isinstance(f, (ast.FunctionDef, ast.AsyncFunctionDef)) and f.name in out)]
    for other in also_classes:
        oc = next((c for c in ast.walk(tree) if isinstance(c, ast.ClassDef) and c.name == other), None)
        if oc is not None:
            oimm = immutable_attrs(oc)
            for f in oc.body:
                if isinstance(f, (ast.FunctionDef, ast.AsyncFunctionDef)):
                    normalise_fn(f, _selfname(f, True), oimm)
    tree2 = copy.deepcopy(tree)
    ast.fix_missing_locations(tree2)
    return pf.Module(m.rel, m.path, m.src, tree2), info


def normalise_module_class(m: pf.Module, cls_name: str, deque_attrs: Sequence[str] = ()) -> pf.Module:
    """Only the intra-procedural normalisations, on every method of one class."""
    tree = copy.deepcopy(m.tree)
    cur = pf.Module(m.rel, m.path, m.src, tree)
    cls = cur.cls(cls_name)
    imm = immutable_attrs(cls)
    for f in cls.body:
        if isinstance(f, (ast.FunctionDef, ast.AsyncFunctionDef)):
            normalise_fn(f, _selfname(f, True), imm, deque_attrs)
    tree2 = copy.deepcopy(tree)
    ast.fix_missing_locations(tree2)
    return pf.Module(m.rel, m.path, m.src, tree2)


def normalise_function(m: pf.Module, fn: FuncDef) -> FuncDef:
    """A normalised copy of a module-level function or a method (no inlining); the copy is not attached to a module."""
    f2 = copy.deepcopy(fn)
    normalise_fn(f2, None, set())
    return f2
