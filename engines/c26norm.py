"""Normal forms for the tests of TimeLimitedMaxSizeCache.lookup (rules/c26.py).  Nothing here imports or runs repository code.

The C26 rules argue about membership of the lookup key in one of the instance maps (`k in self._futures`, `k in self._expiry_time`,
`k in self._cache`).  Maintainers spell that fact in several equivalent ways; the rules must see one atom:

    k in M                      (canonical)
    k not in M                  ==  not (k in M)
    M.get(k) is not None        ==  k in M              only for maps whose values are never None (tasks, integer expiry times)
    M.get(k) is None            ==  not (k in M)        ditto
    x = M.get(k) ... x is None  the same through a single-definition local (the fact was observed where `x` is defined)
    if M.get(k): / if x:        ==  k in M              only for maps whose values are always truthy (asyncio tasks)
    M.get(k) <op> e             ==  M[k] <op> e         on every execution that does not raise (None does not order / add): the value read

`MapTests` computes, per test node of a CFG, the canonical expression, the nodes at which the facts it reads were observed (the
definitions of the locals it reads the maps through) and the edge implications.  Names are resolved, never compared with frozen strings.
"""
from __future__ import annotations

import ast
import copy
from typing import Dict, List, Optional, Sequence, Set, Tuple

from . import absdom
from . import asyncfacts as af
from . import pyfacts as pf


def _is_none(e: ast.AST) -> bool:
    return isinstance(e, ast.Constant) and e.value is None


def _get_call(e: ast.AST, maps: Sequence[str]) -> Optional[Tuple[str, ast.expr]]:
    """(map, key expression) if e is `M.get(key)` / `M.get(key, None)` for one of the maps"""
    if isinstance(e, ast.Call) and isinstance(e.func, ast.Attribute) and e.func.attr == 'get' and not e.keywords and pf.nsrc(e.func.value) in maps:
        if len(e.args) == 1 or (len(e.args) == 2 and _is_none(e.args[1])):
            return pf.nsrc(e.func.value), e.args[0]
    return None


def _member(key: ast.expr, mp: str, present: bool, at: ast.AST) -> ast.expr:
    atom = ast.Compare(left=copy.deepcopy(key), ops=[ast.In()], comparators=[ast.parse(mp, mode='eval').body])
    out: ast.expr = atom if present else ast.UnaryOp(op=ast.Not(), operand=atom)
    return ast.fix_missing_locations(ast.copy_location(out, at))


class _Canon(ast.NodeTransformer):
    def __init__(self, none_free: Sequence[str], truthy: Sequence[str]):
        self.none_free = tuple(none_free)
        self.truthy = tuple(truthy)

    # boolean structure: operands of and/or/not are in truth-value position
    def _truth(self, e: ast.expr) -> ast.expr:
        g = _get_call(e, self.truthy)
        if g is not None:
            return _member(g[1], g[0], True, e)
        if isinstance(e, ast.Subscript) and pf.nsrc(e.value) in self.truthy and isinstance(e.ctx, ast.Load):
            return e  # `if M[k]:` raises when absent: not a membership test
        return self.visit(e)

    def visit_BoolOp(self, node: ast.BoolOp):
        return ast.copy_location(ast.BoolOp(op=node.op, values=[self._truth(v) for v in node.values]), node)

    def visit_UnaryOp(self, node: ast.UnaryOp):
        if isinstance(node.op, ast.Not):
            return ast.copy_location(ast.UnaryOp(op=ast.Not(), operand=self._truth(node.operand)), node)
        return self.generic_visit(node)

    def visit_Compare(self, node: ast.Compare):
        if len(node.ops) == 1:
            op, l, r = node.ops[0], node.left, node.comparators[0]
            if isinstance(op, ast.NotIn):
                inner = ast.copy_location(ast.Compare(left=self.visit(l), ops=[ast.In()], comparators=[self.visit(r)]), node)
                return ast.copy_location(ast.UnaryOp(op=ast.Not(), operand=inner), node)
            if isinstance(op, (ast.Is, ast.IsNot, ast.Eq, ast.NotEq)):
                for a, b in ((l, r), (r, l)):
                    g = _get_call(a, self.none_free)
                    if g is not None and _is_none(b):
                        return _member(g[1], g[0], isinstance(op, (ast.IsNot, ast.NotEq)), node)
        return self.generic_visit(node)

    def visit_Call(self, node: ast.Call):
        g = _get_call(node, self.none_free)
        if g is not None:
            # the value read: `M.get(k)` used as an operand (ordered, added, awaited ...) is M[k] on every execution that goes on
            sub = ast.Subscript(value=copy.deepcopy(node.func.value), slice=copy.deepcopy(g[1]), ctx=ast.Load())  # type: ignore[attr-defined]
            return ast.fix_missing_locations(ast.copy_location(sub, node))
        return self.generic_visit(node)

    def visit_Lambda(self, node):
        return node


def canon(e: ast.AST, none_free: Sequence[str], truthy: Sequence[str] = ()) -> ast.AST:
    """canonical copy of a test expression (see module docstring)"""
    c = _Canon(none_free, truthy)
    out = c._truth(copy.deepcopy(e))  # type: ignore[arg-type]
    ast.fix_missing_locations(out)
    return out


def _assign_nodes(cfg: pf.CFG, name: str) -> List[pf.Node]:
    out = []
    for n in cfg.nodes:
        a = n.ast
        if n.kind == 'stmt' and isinstance(a, ast.Assign) and any(isinstance(t, ast.Name) and t.id == name for t in a.targets):
            out.append(n)
        elif n.kind == 'stmt' and isinstance(a, ast.AnnAssign) and a.value is not None and isinstance(a.target, ast.Name) and a.target.id == name:
            out.append(n)
    return out


class MapTests:
    """Facts about `key in <map>` established by the tests of one function."""

    def __init__(self, fn: pf.FuncDef, cfg: pf.CFG, key: str, maps: Sequence[str], none_free: Sequence[str], truthy: Sequence[str] = ()):
        self.fn, self.cfg, self.key = fn, cfg, key
        self.maps = tuple(maps)
        self.none_free, self.truthy = tuple(none_free), tuple(truthy)
        self.tests = [t for t in cfg.nodes if t.kind == 'test' and t.ast is not None]
        self._norm: Dict[int, ast.AST] = {}
        self._dec: Dict[int, List[pf.Node]] = {}
        for t in self.tests:
            ex = pf.expand_locals(fn, t.ast)
            self._norm[t.id] = canon(ex, self.none_free, self.truthy)
            self._dec[t.id] = self._decisions(t) if ex is not t.ast else []

    def _decisions(self, t: pf.Node, depth: int = 3) -> List[pf.Node]:
        """definitions of the single-definition locals (transitively) through which the test reads one of the maps"""
        out: List[pf.Node] = []
        seen: Set[str] = set()

        def visit(e: ast.AST, d: int) -> None:
            for nm in sorted(pf.names_in(e)):
                if nm in seen or d <= 0:
                    continue
                dd = pf.single_def(self.fn, nm)
                if dd is None or not isinstance(dd, ast.expr) or isinstance(dd, (ast.Await, ast.Yield, ast.YieldFrom)):
                    continue
                seen.add(nm)
                full = pf.expand_locals(self.fn, dd)
                if any(af.mentions(full, mp) for mp in self.maps) or any(isinstance(x, ast.Call) for x in ast.walk(full)):
                    out.extend(x for x in _assign_nodes(self.cfg, nm) if all(x is not y for y in out))
                visit(dd, d - 1)
        visit(t.ast, depth)
        return out

    # ---- queries ---------------------------------------------------------------------
    def norm(self, t: pf.Node) -> ast.AST:
        return self._norm[t.id]

    def decisions(self, t: pf.Node) -> List[pf.Node]:
        """where the facts the test reads were observed: the definitions of the locals it reads through ([] = in the test itself)"""
        return self._dec[t.id]

    def atom(self, mp: str) -> str:
        return f'{self.key} in {mp}'

    def implies(self, t: pf.Node, lab: str, mp: str, present: bool) -> bool:
        """taking edge `lab` of test t implies (key in mp) == present"""
        return af.implied_on_edge(self._norm[t.id], lab, self.atom(mp), present)

    def mentions(self, t: pf.Node, mp: str) -> bool:
        return af.mentions(self._norm[t.id], mp)

    def foreign_atoms(self, t: pf.Node, mp: str, also_ok: Sequence[str] = ()) -> List[ast.AST]:
        """atoms of the canonical test that mention the map otherwise than as `key in map` (or one of the texts in also_ok)"""
        return [a for a in absdom.bool_atoms(self._norm[t.id]) if af.mentions(a, mp) and absdom.atom_key(a) != self.atom(mp) and absdom.atom_key(a) not in also_ok]

    def edges(self, mp: str, present: bool) -> List[Tuple[pf.Node, str]]:
        return [(t, lab) for t in self.tests for lab in ('T', 'F') if any(l2 == lab for _, l2 in t.succ) and self.implies(t, lab, mp, present)]

    def observed_at(self, t: pf.Node) -> List[pf.Node]:
        """the nodes at which the membership facts of test t were observed"""
        return self._dec[t.id] or [t]


# --------------------------------------------------------------------------------------
# side-effect-free predicate / accessor helpers:  `if self._is_expired(k):`  ==  `if self._expiry_time[k] <= time.monotonic_ns():`
# --------------------------------------------------------------------------------------


def predicate_expr(h: pf.FuncDef) -> Optional[ast.expr]:
    """The expression a helper returns when its body is  (docstring)? (local = expr | assert ...)* return expr  with every local
    defined once: the helper is then an abbreviation of that expression.  None for any other shape."""
    if isinstance(h, ast.AsyncFunctionDef) or h.decorator_list:
        return None
    a = h.args
    if a.vararg or a.kwarg or a.posonlyargs or a.kwonlyargs or a.defaults:
        return None
    body = af.body_no_doc(h)
    if not body or not isinstance(body[-1], ast.Return) or body[-1].value is None:
        return None
    for st in body[:-1]:
        if isinstance(st, ast.Assign) and len(st.targets) == 1 and isinstance(st.targets[0], ast.Name):
            continue
        if isinstance(st, ast.AnnAssign) and isinstance(st.target, ast.Name) and st.value is not None:
            continue
        if isinstance(st, ast.Assert):
            continue
        return None
    e = pf.expand_locals(h, body[-1].value, depth=6)
    stored = {n.id for n in pf.walk_shallow(h) if isinstance(n, ast.Name) and isinstance(n.ctx, ast.Store)}
    if pf.names_in(e) & stored:
        return None
    if any(isinstance(x, (ast.Await, ast.Yield, ast.YieldFrom, ast.NamedExpr, ast.Lambda, ast.ListComp, ast.SetComp, ast.DictComp, ast.GeneratorExp)) for x in ast.walk(e)):
        return None
    return e  # type: ignore[return-value]


class _PredInline(ast.NodeTransformer):
    def __init__(self, helpers: Dict[str, pf.FuncDef], receiver: str, depth: int = 3):
        self.helpers, self.receiver, self.depth = helpers, receiver, depth
        self.done: List[str] = []

    def visit_Lambda(self, node):
        return node

    def visit_FunctionDef(self, node):
        return node

    visit_AsyncFunctionDef = visit_FunctionDef
    visit_ClassDef = visit_FunctionDef

    def visit_Call(self, node: ast.Call):
        self.generic_visit(node)
        f = node.func
        if not (isinstance(f, ast.Attribute) and isinstance(f.value, ast.Name) and f.value.id == self.receiver and f.attr in self.helpers) or self.depth <= 0:
            return node
        h = self.helpers[f.attr]
        e = predicate_expr(h)
        params = [x.arg for x in h.args.args]
        if e is None or not params or node.keywords or len(node.args) != len(params) - 1:
            return node
        if not all(isinstance(x, (ast.Name, ast.Constant)) or pf.dotted(x) is not None for x in node.args):
            return node
        mapping: Dict[str, ast.expr] = {params[0]: ast.Name(id=self.receiver, ctx=ast.Load())}
        mapping.update(dict(zip(params[1:], node.args)))

        class _S(ast.NodeTransformer):
            def visit_Name(self, n: ast.Name):
                if n.id in mapping and isinstance(n.ctx, ast.Load):
                    return ast.copy_location(copy.deepcopy(mapping[n.id]), n)
                return n

            def visit_Lambda(self, n):
                return n
        out = _S().visit(copy.deepcopy(e))
        sub = _PredInline(self.helpers, self.receiver, self.depth - 1)
        out = sub.visit(out)
        self.done.append(f.attr)
        self.done.extend(sub.done)
        return ast.fix_missing_locations(ast.copy_location(out, node))


def inline_predicates(fn: pf.FuncDef, helpers: Dict[str, pf.FuncDef], receiver: str = 'self') -> List[str]:
    """In place: every call `self.h(args)` in fn (outside nested definitions) of a helper that abbreviates one expression is replaced by
    that expression.  Returns the names of the helpers expanded."""
    tr = _PredInline(helpers, receiver)
    fn.body = [tr.visit(st) for st in fn.body]
    ast.fix_missing_locations(fn)
    return tr.done
