"""Facts for C27 (rules/c27.py): who executes statements inside an open Transaction, and predicate helpers on a caught exception.

1. ExecFlow -- which functions of the DB layer issue a statement on a cursor, seen through helpers.
   A statement execution is a call of `<cursor>.execute / executemany / callproc`.  The bound method (or the cursor) may travel:
   a local alias (`execute = cursor.executemany if many else cursor.execute`), a parameter of a helper method of the class or of a
   module-level function (`await self._execute(cursor.execute, sql, args)`, `await _run(cursor, sql)`), a lambda / nested def /
   functools.partial that wraps the call.  The flow is a may-analysis over names (parameters that receive a cursor or an
   execute-callable at some call site, fixed point over the call graph of the module); no code is executed.
   A cursor / execute-callable handed to a callee that is not defined in the module is an *escape* (the rule declines or, when the
   callee is a known retry/back-off primitive, reports it).

2. predicate_inline -- boolean helpers on the caught exception (`def is_lock_error(exc): return isinstance(exc, ...) and
   exc.args[0] in CODES`) are replaced, inside `if` tests of an `except` handler, by their body as one boolean expression over the
   handler's exception name, so that the truth table over the abstract error domain sees the isinstance / error-code atoms instead of
   one opaque call.  Accepted helper bodies: docstring, single-name assignments, expression statements, `if`/`else` whose branches
   end in `return`, `return <expr>` (IfExp rewritten to and/or; falling off the end is `False`).  Anything else is left alone.
"""
from __future__ import annotations

import ast
import copy
from typing import Dict, Iterable, List, Optional, Set, Tuple

from . import pyfacts as pf
from .common import AnalysisError

FuncDef = pf.FuncDef
EXEC_ATTRS = ('execute', 'executemany', 'callproc')
Key = Tuple[str, str]   # ('m', method name) | ('f', module-level function name)


def _defs(fn: ast.AST) -> Iterable[ast.AST]:
    return ast.walk(fn)


class ExecFlow:
    def __init__(self, m: pf.Module, cls_name: str, exclude_funcs: Tuple[str, ...] = ()):
        self.m = m
        cls = m.cls(cls_name)
        self.cls_name = cls_name
        self.units: Dict[Key, FuncDef] = {}
        for f in cls.body:
            if isinstance(f, (ast.FunctionDef, ast.AsyncFunctionDef)):
                self.units[('m', f.name)] = f
        for f in m.tree.body:
            if isinstance(f, (ast.FunctionDef, ast.AsyncFunctionDef)) and f.name not in exclude_funcs:
                self.units[('f', f.name)] = f
        self.cursor_params: Dict[Key, Set[str]] = {k: set() for k in self.units}
        self.exec_params: Dict[Key, Set[str]] = {k: set() for k in self.units}
        self.executing: Set[Key] = set()
        self.escapes: List[Tuple[Key, ast.Call, str]] = []   # (unit, call, 'cursor'|'exec')
        self._solve()

    # -- naming ------------------------------------------------------------------------------
    def label(self, k: Key) -> str:
        return f'{self.cls_name}.{k[1]}' if k[0] == 'm' else k[1]

    # -- per-unit name classes ---------------------------------------------------------------
    def _cursor_names(self, k: Key) -> Set[str]:
        fn = self.units[k]
        out = set(self.cursor_params[k])
        for n in _defs(fn):
            if isinstance(n, (ast.With, ast.AsyncWith)):
                for it in n.items:
                    ce = it.context_expr
                    if isinstance(ce, ast.Call) and isinstance(ce.func, ast.Attribute) and ce.func.attr == 'cursor' and isinstance(it.optional_vars, ast.Name):
                        out.add(it.optional_vars.id)
        changed = True
        while changed:
            changed = False
            for n in _defs(fn):
                if isinstance(n, ast.Assign) and len(n.targets) == 1 and isinstance(n.targets[0], ast.Name) and n.targets[0].id not in out:
                    v = n.value.value if isinstance(n.value, ast.Await) else n.value
                    if self._is_cursor(v, out) or (isinstance(v, ast.Call) and isinstance(v.func, ast.Attribute) and v.func.attr == 'cursor'):
                        out.add(n.targets[0].id)
                        changed = True
        return out

    @staticmethod
    def _is_cursor(e: ast.AST, cursors: Set[str]) -> bool:
        if isinstance(e, ast.Name):
            return e.id in cursors or 'cursor' in e.id
        if isinstance(e, ast.Attribute):
            return 'cursor' in pf.nsrc(e)
        return False

    def _exec_ref(self, e: ast.AST, cursors: Set[str], execs: Set[str]) -> bool:
        """e denotes a callable that executes a statement when called."""
        if isinstance(e, ast.Attribute) and e.attr in EXEC_ATTRS and self._is_cursor(e.value, cursors):
            return True
        if isinstance(e, ast.Name) and e.id in execs:
            return True
        if isinstance(e, ast.IfExp):
            return self._exec_ref(e.body, cursors, execs) or self._exec_ref(e.orelse, cursors, execs)
        if isinstance(e, ast.BoolOp):
            return any(self._exec_ref(v, cursors, execs) for v in e.values)
        if isinstance(e, ast.Lambda):
            return any(self._is_execution(c, cursors, execs) for c in ast.walk(e.body) if isinstance(c, ast.Call))
        if isinstance(e, ast.Call) and (pf.dotted(e.func) or '').split('.')[-1] == 'partial' and e.args:
            return self._exec_ref(e.args[0], cursors, execs)
        if isinstance(e, ast.Call) and isinstance(e.func, ast.Name) and e.func.id == 'getattr' and e.args and self._is_cursor(e.args[0], cursors):
            return True
        return False

    def _callee(self, c: ast.Call, k: Key) -> Optional[Key]:
        f = c.func
        if isinstance(f, ast.Attribute) and isinstance(f.value, ast.Name) and f.value.id in ('self', 'cls', self.cls_name) and ('m', f.attr) in self.units:
            return ('m', f.attr)
        if isinstance(f, ast.Name) and ('f', f.id) in self.units:
            return ('f', f.id)
        return None

    def _is_execution(self, c: ast.Call, cursors: Set[str], execs: Set[str], k: Optional[Key] = None) -> bool:
        if self._exec_ref(c.func, cursors, execs):
            return True
        if k is not None:
            cal = self._callee(c, k)
            if cal is not None and cal in self.executing:
                return True
        return False

    def _exec_names(self, k: Key, cursors: Set[str]) -> Set[str]:
        fn = self.units[k]
        out = set(self.exec_params[k])
        changed = True
        while changed:
            changed = False
            for n in _defs(fn):
                if isinstance(n, ast.Assign) and len(n.targets) == 1 and isinstance(n.targets[0], ast.Name) and n.targets[0].id not in out:
                    if self._exec_ref(n.value, cursors, out):
                        out.add(n.targets[0].id)
                        changed = True
                elif isinstance(n, (ast.FunctionDef, ast.AsyncFunctionDef)) and n is not fn and n.name not in out:
                    if any(isinstance(c, ast.Call) and self._is_execution(c, cursors, out, k) for c in ast.walk(n)):
                        out.add(n.name)
                        changed = True
        return out

    def names(self, k: Key) -> Tuple[Set[str], Set[str]]:
        cur = self._cursor_names(k)
        return cur, self._exec_names(k, cur)

    # -- fixed point ---------------------------------------------------------------------------
    @staticmethod
    def _bind(callee: FuncDef, c: ast.Call, is_method: bool) -> Dict[str, ast.expr]:
        a = callee.args
        params = [x.arg for x in a.posonlyargs + a.args]
        decos = {(pf.dotted(d) or '').split('.')[-1] for d in callee.decorator_list}
        if is_method and 'staticmethod' not in decos and params:
            params = params[1:]
        out: Dict[str, ast.expr] = {}
        for p, v in zip(params, c.args):
            if not isinstance(v, ast.Starred):
                out[p] = v
        names = set(params) | {x.arg for x in a.kwonlyargs}
        for kw in c.keywords:
            if kw.arg is not None and kw.arg in names:
                out[kw.arg] = kw.value
        return out

    def _solve(self) -> None:
        changed = True
        rounds = 0
        while changed:
            changed = False
            rounds += 1
            if rounds > 50:
                raise AnalysisError('c27facts.ExecFlow: no fixed point')
            for k, fn in self.units.items():
                cursors, execs = self.names(k)
                for c in _defs(fn):
                    if not isinstance(c, ast.Call):
                        continue
                    if k not in self.executing and self._is_execution(c, cursors, execs, k):
                        self.executing.add(k)
                        changed = True
                    cal = self._callee(c, k)
                    if cal is None:
                        # an execute-callable handed to code outside the module: assume it is called (the unit still issues the statement)
                        if k not in self.executing and any(self._exec_ref(v.value if isinstance(v, ast.Starred) else v, cursors, execs) for v in list(c.args) + [kw.value for kw in c.keywords]):
                            self.executing.add(k)
                            changed = True
                        continue
                    for p, v in self._bind(self.units[cal], c, cal[0] == 'm').items():
                        if self._exec_ref(v, cursors, execs) and p not in self.exec_params[cal]:
                            self.exec_params[cal].add(p)
                            changed = True
                        elif isinstance(v, (ast.Name, ast.Attribute)) and self._is_cursor(v, cursors) and p not in self.cursor_params[cal]:
                            self.cursor_params[cal].add(p)
                            changed = True
        # escapes: a cursor / execute-callable handed to something not defined here
        for k, fn in self.units.items():
            cursors, execs = self.names(k)
            for c in _defs(fn):
                if not isinstance(c, ast.Call) or self._callee(c, k) is not None:
                    continue
                if (pf.dotted(c.func) or '').split('.')[-1] == 'partial':
                    continue
                for v in list(c.args) + [kw.value for kw in c.keywords]:
                    if isinstance(v, ast.Starred):
                        v = v.value
                    if self._exec_ref(v, cursors, execs):
                        self.escapes.append((k, c, 'exec'))
                    elif isinstance(v, ast.Name) and v.id in cursors:
                        self.escapes.append((k, c, 'cursor'))

    # -- queries ---------------------------------------------------------------------------------
    def executes(self, k: Key, node: ast.AST) -> bool:
        """Does the code under `node` (part of unit k) issue a statement (directly, through an alias/parameter, or through an executing unit)?"""
        cursors, execs = self.names(k)
        for c in ast.walk(node):
            if isinstance(c, ast.Call) and self._is_execution(c, cursors, execs, k):
                return True
            # a bare reference to the bound method inside the block (handed to a helper that calls it)
            if isinstance(c, ast.Attribute) and c.attr in EXEC_ATTRS and self._is_cursor(c.value, cursors):
                return True
        return False

    def outcomes(self, k: Key, stmts: List[ast.stmt], depth: int = 0) -> Set[str]:
        """May-set of the ways control leaves stmts: fall | raise | return | break | continue (over-approximation)."""
        cur: Set[str] = {'fall'}
        for st in stmts:
            if 'fall' not in cur:
                break
            cur.discard('fall')
            cur |= self._stmt_outcomes(k, st, depth)
        return cur

    def _stmt_outcomes(self, k: Key, st: ast.stmt, depth: int) -> Set[str]:
        if isinstance(st, ast.Raise):
            return {'raise'}
        if isinstance(st, ast.Return):
            return {'return'}
        if isinstance(st, ast.Break):
            return {'break'}
        if isinstance(st, ast.Continue):
            return {'continue'}
        if isinstance(st, ast.If):
            return self.outcomes(k, st.body, depth) | self.outcomes(k, st.orelse, depth)
        if isinstance(st, (ast.With, ast.AsyncWith)):
            return self.outcomes(k, st.body, depth)
        if isinstance(st, ast.Try):
            out = self.outcomes(k, st.body, depth)
            if st.handlers:
                for h in st.handlers:
                    out |= self.outcomes(k, h.body, depth)
            if st.orelse and 'fall' in out:
                out = (out - {'fall'}) | self.outcomes(k, st.orelse, depth)
            if st.finalbody:
                fin = self.outcomes(k, st.finalbody, depth)
                out = fin if 'fall' not in fin else (out | (fin - {'fall'}))
            return out
        if isinstance(st, (ast.For, ast.AsyncFor, ast.While)):
            inner = self.outcomes(k, st.body, depth) - {'break', 'continue', 'fall'}
            forever = isinstance(st, ast.While) and isinstance(st.test, ast.Constant) and st.test.value is True and not any(isinstance(x, ast.Break) for x in ast.walk(st))
            return inner | (set() if forever else {'fall'}) | (self.outcomes(k, st.orelse, depth) if st.orelse else set())
        if hasattr(ast, 'Match') and isinstance(st, ast.Match):
            out = {'fall'}
            for c in st.cases:
                out |= self.outcomes(k, c.body, depth)
            return out
        if isinstance(st, ast.Expr) and depth < 3:
            v = st.value.value if isinstance(st.value, ast.Await) else st.value
            if isinstance(v, ast.Call):
                cal = self._callee(v, k)
                if cal is not None and cal != k and not self.units[cal].decorator_list and self.outcomes(cal, self.units[cal].body, depth + 1) == {'raise'}:
                    return {'raise'}
        return {'fall'}

    def always_raises(self, k: Key, stmts: List[ast.stmt], depth: int = 0) -> bool:
        """Every path through stmts ends in `raise` (a statement-level call of a unit whose body always raises counts)."""
        return self.outcomes(k, stmts, depth) == {'raise'}


# --------------------------------------------------------------------------------------------------
# predicate helpers on the caught exception
# --------------------------------------------------------------------------------------------------

MOD_ATTR = '_c27_mod'   # module an inlined atom must be resolved in (imports, module constants)


def _boolify(e: ast.expr) -> ast.expr:
    """IfExp in boolean position -> (t and a) or (not t and b); recurses through and/or/not."""
    if isinstance(e, ast.IfExp):
        t, a, b = _boolify(e.test), _boolify(e.body), _boolify(e.orelse)
        return ast.BoolOp(op=ast.Or(), values=[ast.BoolOp(op=ast.And(), values=[t, a]), ast.BoolOp(op=ast.And(), values=[ast.UnaryOp(op=ast.Not(), operand=copy.deepcopy(t)), b])])
    if isinstance(e, ast.BoolOp):
        return ast.BoolOp(op=e.op, values=[_boolify(v) for v in e.values])
    if isinstance(e, ast.UnaryOp) and isinstance(e.op, ast.Not):
        return ast.UnaryOp(op=ast.Not(), operand=_boolify(e.operand))
    if isinstance(e, ast.Call) and isinstance(e.func, ast.Name) and e.func.id == 'bool' and len(e.args) == 1 and not e.keywords:
        return _boolify(e.args[0])
    return e


class _Subst(ast.NodeTransformer):
    def __init__(self, env: Dict[str, ast.expr]):
        self.env = env

    def visit_Name(self, node: ast.Name):
        if isinstance(node.ctx, ast.Load) and node.id in self.env:
            return copy.deepcopy(self.env[node.id])
        return node

    def visit_Lambda(self, node):
        return node


def _subst(e: ast.expr, env: Dict[str, ast.expr]) -> ast.expr:
    return _Subst(env).visit(copy.deepcopy(e)) if env else copy.deepcopy(e)


def _block_expr(stmts: List[ast.stmt], env: Dict[str, ast.expr], budget: List[int]) -> Optional[ast.expr]:
    """Truthiness of the value returned by executing stmts (None when the shape is not supported)."""
    budget[0] -= 1
    if budget[0] < 0:
        return None
    for i, st in enumerate(stmts):
        if isinstance(st, ast.Expr):
            continue        # docstring / logging: no influence on the returned value
        if isinstance(st, ast.Pass):
            continue
        if isinstance(st, ast.Assign) and len(st.targets) == 1 and isinstance(st.targets[0], ast.Name):
            env = dict(env)
            env[st.targets[0].id] = _subst(st.value, env)
            continue
        if isinstance(st, ast.AnnAssign) and isinstance(st.target, ast.Name) and st.value is not None:
            env = dict(env)
            env[st.target.id] = _subst(st.value, env)
            continue
        if isinstance(st, ast.Return):
            if st.value is None:
                return ast.Constant(value=False)
            return _boolify(_subst(st.value, env))
        if isinstance(st, ast.If):
            rest = stmts[i + 1:]
            t = _boolify(_subst(st.test, env))
            a = _block_expr(list(st.body) + rest, env, budget)
            b = _block_expr(list(st.orelse) + rest, env, budget)
            if a is None or b is None:
                return None
            return ast.BoolOp(op=ast.Or(), values=[ast.BoolOp(op=ast.And(), values=[t, a]),
                                                     ast.BoolOp(op=ast.And(), values=[ast.UnaryOp(op=ast.Not(), operand=copy.deepcopy(t)), b])])
        return None
    return ast.Constant(value=False)    # falls off the end: returns None


def predicate_expr(fn: FuncDef, is_method: bool) -> Optional[Tuple[str, ast.expr]]:
    """(parameter, boolean expression) for a one-argument synchronous predicate, else None."""
    if isinstance(fn, ast.AsyncFunctionDef):
        return None
    decos = {(pf.dotted(d) or '').split('.')[-1] for d in fn.decorator_list}
    if decos - {'staticmethod', 'classmethod'}:
        return None
    a = fn.args
    if a.vararg or a.kwarg or a.kwonlyargs:
        return None
    params = [x.arg for x in a.posonlyargs + a.args]
    if is_method and 'staticmethod' not in decos:
        params = params[1:]
    if len(params) != 1 or a.defaults:
        return None
    if any(isinstance(n, (ast.Yield, ast.YieldFrom, ast.Await)) for n in pf.walk_shallow(fn)):
        return None
    e = _block_expr(list(fn.body), {}, [64])
    if e is None:
        return None
    return params[0], e


def _module_of(dotted_mod: str) -> Optional[pf.Module]:
    parts = [p for p in dotted_mod.split('.') if p]
    if not parts:
        return None
    tail = '/'.join(parts)
    for cand in (f'{parts[0]}/{tail}.py', f'{tail}.py', f'hail/python/{tail}.py', f'{parts[0]}/{tail}/__init__.py', f'hail/python/{tail}/__init__.py'):
        try:
            return pf.load(cand)
        except (AnalysisError, SyntaxError, OSError):
            continue
    return None


def resolve_predicate(m: pf.Module, func: ast.expr) -> Optional[Tuple[pf.Module, FuncDef, bool]]:
    """The definition a call `func(exc)` in module m refers to: (defining module, def, is a method)."""
    if isinstance(func, ast.Name):
        for st in m.tree.body:
            if isinstance(st, (ast.FunctionDef, ast.AsyncFunctionDef)) and st.name == func.id:
                return m, st, False
        org = m.imports().get(func.id)
        if org and not org.startswith('.'):
            mod, _, name = org.rpartition('.')
            mm = _module_of(mod)
            if mm is not None and mm is not m:
                for st in mm.tree.body:
                    if isinstance(st, (ast.FunctionDef, ast.AsyncFunctionDef)) and st.name == name:
                        return mm, st, False
        return None
    if isinstance(func, ast.Attribute) and isinstance(func.value, ast.Name):
        base = func.value.id
        cands = []
        for c in m.classes():
            if base in ('self', 'cls') or base == c.name:
                for f in c.body:
                    if isinstance(f, (ast.FunctionDef, ast.AsyncFunctionDef)) and f.name == func.attr:
                        cands.append(f)
        if len(cands) == 1:
            return m, cands[0], True
        if not cands:
            org = m.imports().get(base)
            if org and not org.startswith('.'):
                mm = _module_of(org)
                if mm is not None and mm is not m:
                    for st in mm.tree.body:
                        if isinstance(st, (ast.FunctionDef, ast.AsyncFunctionDef)) and st.name == func.attr:
                            return mm, st, False
    return None


def inline_predicates(m: pf.Module, test: ast.expr, exc_name: str, keep: Tuple[str, ...] = (), stack: Tuple[str, ...] = (), inlined: Optional[List[str]] = None) -> ast.expr:
    """`test` with every call `p(<exc_name>)` of a resolvable predicate, in boolean position, replaced by p's body over <exc_name>.
    Calls whose callee is named in `keep` (the retry classifier: interpreted directly on the abstract domain) stay."""
    if isinstance(test, ast.BoolOp):
        return ast.BoolOp(op=test.op, values=[inline_predicates(m, v, exc_name, keep, stack, inlined) for v in test.values])
    if isinstance(test, ast.UnaryOp) and isinstance(test.op, ast.Not):
        return ast.UnaryOp(op=ast.Not(), operand=inline_predicates(m, test.operand, exc_name, keep, stack, inlined))
    if isinstance(test, ast.IfExp):
        return inline_predicates(m, _boolify(test), exc_name, keep, stack, inlined)
    if isinstance(test, ast.Call) and len(test.args) == 1 and not test.keywords and isinstance(test.args[0], ast.Name) and test.args[0].id == exc_name and len(stack) < 4:
        name = (pf.dotted(test.func) or '').split('.')[-1]
        if name and name not in keep and name not in stack and name not in ('isinstance', 'bool', 'str', 'repr', 'type'):
            r = resolve_predicate(m, test.func)
            if r is not None:
                mm, fn, is_meth = r
                pe = predicate_expr(fn, is_meth)
                if pe is not None:
                    param, e = pe
                    e = _subst(e, {param: ast.Name(id=exc_name, ctx=ast.Load())})
                    e = inline_predicates(mm, e, exc_name, keep, stack + (name,), inlined)
                    for n in ast.walk(e):
                        if not hasattr(n, MOD_ATTR):
                            setattr(n, MOD_ATTR, mm)
                    ast.fix_missing_locations(ast.copy_location(e, test))
                    if inlined is not None:
                        inlined.append(name)
                    return e
    return test


class _TestInliner(ast.NodeTransformer):
    def __init__(self, m: pf.Module, exc_name: str, keep: Tuple[str, ...]):
        self.m, self.exc_name, self.keep = m, exc_name, keep
        self.inlined: List[str] = []

    def visit_If(self, node: ast.If):
        self.generic_visit(node)
        node.test = inline_predicates(self.m, node.test, self.exc_name, self.keep, (), self.inlined)
        return node

    def visit_FunctionDef(self, node):
        return node

    visit_AsyncFunctionDef = visit_FunctionDef
    visit_Lambda = visit_FunctionDef


def inline_handler_tests(m: pf.Module, body: List[ast.stmt], exc_name: Optional[str], keep: Tuple[str, ...] = ()) -> Tuple[List[ast.stmt], List[str]]:
    """A copy of an `except` handler body whose `if` tests have single-definition locals substituted (`code = exc.args[0]`) and
    predicate helpers on the caught exception inlined.  Returns (new body, names of the helpers inlined)."""
    body = copy.deepcopy(list(body))
    if exc_name is None:
        return body, []
    # locals assigned exactly once in the handler, at its top level, before any compound statement, from an expression over the exception
    stores: Dict[str, int] = {}
    for st in body:
        for n in ast.walk(st):
            if isinstance(n, ast.Name) and isinstance(n.ctx, (ast.Store, ast.Del)):
                stores[n.id] = stores.get(n.id, 0) + 1
            elif isinstance(n, ast.NamedExpr) and isinstance(n.target, ast.Name):
                stores[n.target.id] = stores.get(n.target.id, 0) + 1
    env: Dict[str, ast.expr] = {}
    for st in body:
        if isinstance(st, ast.Assign) and len(st.targets) == 1 and isinstance(st.targets[0], ast.Name) and stores.get(st.targets[0].id) == 1 \
                and st.targets[0].id != exc_name and not any(isinstance(x, (ast.Call, ast.Await)) and not _pure_call(x) for x in ast.walk(st.value)) \
                and not any(isinstance(x, ast.Name) and x.id in stores and x.id not in env for x in ast.walk(st.value)):
            env[st.targets[0].id] = _subst(st.value, env)
        elif isinstance(st, (ast.Expr, ast.AugAssign, ast.Assign)):
            continue
        else:
            break
    if env:
        class _T(ast.NodeTransformer):
            def visit_If(self, node: ast.If):
                self.generic_visit(node)
                node.test = _subst(node.test, env)
                return node

            def visit_FunctionDef(self, node):
                return node
            visit_AsyncFunctionDef = visit_FunctionDef
        body = [_T().visit(st) for st in body]
    ti = _TestInliner(m, exc_name, keep)
    body = [ti.visit(st) for st in body]
    for st in body:
        ast.fix_missing_locations(st)
    return body, ti.inlined


def _pure_call(x: ast.AST) -> bool:
    return isinstance(x, ast.Call) and (pf.dotted(x.func) or '') in ('isinstance', 'getattr', 'len', 'type', 'int', 'bool')


# --------------------------------------------------------------------------------------------------
# helpers called from an `except` handler that decide whether the error propagates
# --------------------------------------------------------------------------------------------------

def _has_raise(fn: FuncDef) -> bool:
    return any(isinstance(n, ast.Raise) for n in pf.walk_shallow(fn))


def inline_handler_helpers(m: pf.Module, h: ast.ExceptHandler) -> Tuple[List[ast.stmt], List[str]]:
    """A copy of the handler body in which statement-level calls of same-module functions / same-class methods that contain a `raise`
    (`self._reraise_unless_lock_error(exc)`, `_log_and_raise(exc)`) are replaced by the helper's body (engines/inline.py).  A call of
    such a helper that cannot be inlined makes the handler undecidable (AnalysisError): whether the error propagates is then decided
    in code the truth table does not see."""
    from . import inline as il
    par = m.parents()
    fn = cls = meth = None
    cur = par.get(h)
    while cur is not None:
        if isinstance(cur, (ast.FunctionDef, ast.AsyncFunctionDef)):
            if fn is None:
                fn = cur
            meth = cur      # outermost enclosing def so far
        if isinstance(cur, ast.ClassDef):
            cls = cur
            break
        cur = par.get(cur)
    body = copy.deepcopy(list(h.body))
    funcs = {f.name: copy.deepcopy(f) for f in m.tree.body if isinstance(f, (ast.FunctionDef, ast.AsyncFunctionDef)) and _has_raise(f) and f is not fn}
    meths = {f.name: copy.deepcopy(f) for f in (cls.body if cls is not None else []) if isinstance(f, (ast.FunctionDef, ast.AsyncFunctionDef)) and _has_raise(f) and f is not fn and f is not meth}
    if not funcs and not meths:
        return body, []
    names = {n.id for n in ast.walk(fn if fn is not None else ast.Module(body=body, type_ignores=[])) if isinstance(n, ast.Name)}
    if fn is not None:
        names |= {a.arg for a in fn.args.posonlyargs + fn.args.args + fn.args.kwonlyargs}
    if h.name:
        names.add(h.name)
    inlined: List[str] = []
    if funcs:
        i1 = il.Inliner(funcs, None)
        body = i1._block(body, set(names), ('<handler>',))
        inlined += [n for n, _ in i1.inlined]
    recv = None
    if meths and meth is not None and cls is not None and meth in cls.body and meth.args.args:
        recv = meth.args.args[0].arg
        i2 = il.Inliner(meths, recv)
        body = i2._block(body, set(names), ('<handler>',))
        inlined += [n for n, _ in i2.inlined]
    for st in body:
        ast.fix_missing_locations(st)
        for c in ast.walk(st):
            if isinstance(c, ast.Call):
                f = c.func
                left = (isinstance(f, ast.Name) and f.id in funcs) or \
                    (recv is not None and isinstance(f, ast.Attribute) and isinstance(f.value, ast.Name) and f.value.id in (recv, cls.name if cls is not None else '') and f.attr in meths)
                if left:
                    raise AnalysisError(f'handler at line {h.lineno} calls `{pf.nsrc(f)}`, a helper that may raise, in a position that cannot be inlined')
    return body, inlined
