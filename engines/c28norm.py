"""Behaviour-preserving normal form used by rules/c28.py in front of the string-predicate translation (engines/strpred.py) and the must-call
rule -- syntax-tree rewriting only, nothing is run.

  strip_failure_only_statements(fn)   removes from every block the simple statements that sit directly in front of a `raise` and cannot
                                      change which strings are ACCEPTED: bindings of locals that are read only by that raise (an error
                                      message built in a local first) and calls of loggers.  Whatever such a statement does - even if it
                                      raised itself - the path ends in an exception, i.e. the input is rejected either way.
  inline_test_locals(fn)              `ok = <test>` directly followed by `if ok:` / `if not ok:` (single definition, single use) -> the test
                                      moves into the `if`
  bind_call(call, callee)             arguments of a call by parameter name of the callee (positional and keyword), None when the call uses
                                      star arguments or does not fit the signature
"""
from __future__ import annotations

import ast
import copy
from typing import Dict, List, Optional, Set

from . import pyfacts as pf

FuncDef = pf.FuncDef
_LOGGERS = ('log.', 'logger.', 'logging.', 'warnings.warn', 'print')


def _blocks(node: ast.AST):
    for fld in ('body', 'orelse', 'finalbody'):
        b = getattr(node, fld, None)
        if isinstance(b, list) and b and isinstance(b[0], ast.stmt):
            yield b
            for st in b:
                if not isinstance(st, (ast.FunctionDef, ast.AsyncFunctionDef, ast.ClassDef)):
                    yield from _blocks(st)
    for h in getattr(node, 'handlers', []) or []:
        yield h.body
        for st in h.body:
            yield from _blocks(st)


def strip_failure_only_statements(fn: FuncDef) -> FuncDef:
    """Copy of fn without the message-building statements in front of its `raise`s (see module docstring); fn itself when nothing applies."""
    g = copy.deepcopy(fn)
    changed = False
    for blk in list(_blocks(g)):
        # the maximal run of simple statements that directly precedes a `raise` closing the block
        if not blk or not isinstance(blk[-1], ast.Raise):
            continue
        raise_st = blk[-1]
        i = len(blk) - 1
        drop: List[int] = []
        while i - 1 >= 0:
            st = blk[i - 1]
            ok = False
            if isinstance(st, (ast.Assign, ast.AnnAssign)) and getattr(st, 'value', None) is not None:
                tgts = st.targets if isinstance(st, ast.Assign) else [st.target]
                names = [t.id for t in tgts if isinstance(t, ast.Name)]
                if len(names) == len(tgts):
                    # every read of the names lies in the statements after this one inside the block (the raise or later dropped statements)
                    later = {id(x) for s2 in blk[i:] for x in ast.walk(s2)}
                    reads = [x for x in pf.walk_shallow(g, into_nested_defs=True) if isinstance(x, ast.Name) and x.id in names and isinstance(x.ctx, ast.Load)]
                    stores = [x for x in pf.walk_shallow(g, into_nested_defs=True) if isinstance(x, ast.Name) and x.id in names and isinstance(x.ctx, (ast.Store, ast.Del))]
                    params = {a.arg for a in g.args.posonlyargs + g.args.args + g.args.kwonlyargs}
                    if all(id(x) in later for x in reads) and len(stores) == len(names) and not (set(names) & params):
                        ok = True
            elif isinstance(st, ast.Expr) and isinstance(st.value, ast.Call):
                d = pf.dotted(st.value.func) or ''
                if d.startswith(_LOGGERS) or d in _LOGGERS:
                    ok = True
            if not ok:
                break
            drop.append(i - 1)
            i -= 1
        if drop:
            # the raise may read the dropped locals: substitute their values so that the statement stays well-formed (it is never translated)
            mapping: Dict[str, ast.AST] = {}
            for j in sorted(drop):
                st = blk[j]
                tgts = st.targets if isinstance(st, ast.Assign) else [st.target]  # type: ignore[union-attr]
                for t in tgts:
                    mapping[t.id] = st.value  # type: ignore[union-attr]

            class _S(ast.NodeTransformer):
                def visit_Name(self, node: ast.Name):
                    if isinstance(node.ctx, ast.Load) and node.id in mapping:
                        return ast.copy_location(_S().visit(copy.deepcopy(mapping[node.id])), node)
                    return node
            blk[-1] = _S().visit(raise_st)
            for j in sorted(drop, reverse=True):
                del blk[j]
            changed = True
    if not changed:
        return fn
    ast.fix_missing_locations(g)
    return g


def inline_test_locals(fn: FuncDef) -> FuncDef:
    """Copy of fn with `ok = <test>; if [not] ok:` folded (single definition, single use, adjacent statements); fn itself when nothing applies."""
    g = copy.deepcopy(fn)
    changed = False

    def loads(name: str) -> int:
        return sum(1 for n in pf.walk_shallow(g, into_nested_defs=True) if isinstance(n, ast.Name) and n.id == name and isinstance(n.ctx, ast.Load))

    def stores(name: str) -> int:
        return sum(1 for n in pf.walk_shallow(g, into_nested_defs=True) if isinstance(n, ast.Name) and n.id == name and isinstance(n.ctx, (ast.Store, ast.Del)))
    params = {a.arg for a in g.args.posonlyargs + g.args.args + g.args.kwonlyargs}
    for blk in list(_blocks(g)):
        i = 0
        while i + 1 < len(blk):
            st, nxt = blk[i], blk[i + 1]
            if isinstance(st, ast.Assign) and len(st.targets) == 1 and isinstance(st.targets[0], ast.Name) and isinstance(nxt, ast.If) \
                    and not isinstance(st.value, (ast.Await, ast.Yield, ast.YieldFrom)):
                name = st.targets[0].id
                t = nxt.test
                inner = t.operand if isinstance(t, ast.UnaryOp) and isinstance(t.op, ast.Not) else t
                if isinstance(inner, ast.Name) and inner.id == name and name not in params and stores(name) == 1 and loads(name) == 1:
                    val = copy.deepcopy(st.value)
                    nxt.test = ast.copy_location(ast.UnaryOp(op=ast.Not(), operand=val), t) if inner is not t else ast.copy_location(val, t)
                    del blk[i]
                    changed = True
                    continue
            i += 1
    if not changed:
        return fn
    ast.fix_missing_locations(g)
    return g


def bind_call(call: ast.Call, callee: FuncDef) -> Optional[Dict[str, ast.AST]]:
    """Arguments of `call` by parameter name of `callee`."""
    if any(isinstance(a, ast.Starred) for a in call.args) or any(k.arg is None for k in call.keywords):
        return None
    a = callee.args
    pos = [x.arg for x in a.posonlyargs + a.args]
    if len(call.args) > len(pos) and a.vararg is None:
        return None
    out: Dict[str, ast.AST] = dict(zip(pos, call.args))
    names: Set[str] = set(pos) | {x.arg for x in a.kwonlyargs}
    for k in call.keywords:
        if k.arg in out or (k.arg not in names and a.kwarg is None):
            return None
        out[k.arg] = k.value  # type: ignore[index]
    return out
