"""Boolean readings of small decision procedures for rules/c30.py (nothing here imports or runs repository code).

  * to_bool: the condition under which a side-effect-free predicate method returns a truthy value, as ONE expression -- guard clauses
    (`if c: return False`), if/else chains, nested ifs, single-definition locals and a final `return <expr>` are all spellings of an
    and/or/not structure over the same atoms
  * PRFacts: engines.guards.Facts whose `inline` sees through such helpers (not only through a single `return <expr>` body)
  * labels_when_true: the branch edges a test can take when one of its sub-expressions was EVALUATED and was truthy (short-circuit order)
  * evaluated_facts: what is known to hold when a sub-expression of a test is evaluated (the operands to its left in an `and` chain ...)
  * finite-domain readings of an atom about one quantity: truth of the atom for every member of a small enumerated domain
"""
from __future__ import annotations

import ast
import copy
from typing import Callable, Dict, Iterable, List, Optional, Sequence, Set, Tuple

from . import absdom
from . import pyfacts as pf
from .guards import Facts

Fact = Tuple[ast.expr, bool]

_HARMLESS = ('log.', 'logging.', 'logger.', 'print')


def _const(v: object) -> ast.Constant:
    return ast.Constant(value=v)


def _is_c(e: ast.AST, v: object) -> bool:
    return isinstance(e, ast.Constant) and e.value is v


def simplify(e: ast.expr) -> ast.expr:
    """constant folding of and / or / not (nothing else)"""
    if isinstance(e, ast.UnaryOp) and isinstance(e.op, ast.Not):
        o = simplify(e.operand)
        if isinstance(o, ast.Constant) and isinstance(o.value, bool):
            return _const(not o.value)
        if isinstance(o, ast.UnaryOp) and isinstance(o.op, ast.Not) and isinstance(o.operand, (ast.Compare, ast.BoolOp, ast.UnaryOp)):
            return o.operand
        return ast.UnaryOp(op=ast.Not(), operand=o)
    if isinstance(e, ast.BoolOp):
        vals = [simplify(v) for v in e.values]
        is_and = isinstance(e.op, ast.And)
        out: List[ast.expr] = []
        for v in vals:
            if isinstance(v, ast.Constant) and isinstance(v.value, bool):
                if v.value is (not is_and):
                    return _const(not is_and)  # False in an and-chain / True in an or-chain decides it
                continue  # neutral element
            if isinstance(v, ast.BoolOp) and type(v.op) is type(e.op):
                out.extend(v.values)
            else:
                out.append(v)
        if not out:
            return _const(is_and)
        return out[0] if len(out) == 1 else ast.BoolOp(op=e.op, values=out)
    return e


def to_bool(fn: pf.FuncDef, lenient: bool = False) -> Optional[ast.expr]:
    """The condition under which fn returns a truthy value, or None when the body is not a decision list (docstring, logging, asserts,
    single-definition locals, if / elif / else, return).  lenient: statements that cannot change WHICH return is taken or what it returns
    -- statement-level calls, stores into attributes / subscripts -- are skipped too (the caller only asks which tests a true result passes)."""
    if isinstance(fn, ast.AsyncFunctionDef) or any(isinstance(x, (ast.Yield, ast.YieldFrom, ast.Await, ast.Global, ast.Nonlocal)) for x in pf.walk_shallow(fn)):
        return None
    assigned = pf.assignments(fn)

    def inert(x: ast.stmt) -> bool:
        if isinstance(x, (ast.Assert, ast.Pass)) or (isinstance(x, ast.Expr) and isinstance(x.value, ast.Constant)):
            return True
        if isinstance(x, ast.Expr) and isinstance(x.value, ast.Call):
            return lenient or (pf.dotted(x.value.func) or '').startswith(_HARMLESS)
        if lenient and isinstance(x, (ast.Assign, ast.AugAssign, ast.AnnAssign)):
            tg = x.targets if isinstance(x, ast.Assign) else [x.target]
            return all(isinstance(t, (ast.Attribute, ast.Subscript)) for t in tg)
        return False

    def subst(e: ast.expr, env: Dict[str, ast.expr]) -> ast.expr:
        class _S(ast.NodeTransformer):
            def visit_Name(self, node: ast.Name):
                if isinstance(node.ctx, ast.Load) and node.id in env:
                    return copy.deepcopy(env[node.id])
                return node

            def visit_Lambda(self, node):
                return node
        return _S().visit(copy.deepcopy(e))

    def block(stmts: Sequence[ast.stmt], env: Dict[str, ast.expr]) -> Optional[ast.expr]:
        for i, st in enumerate(stmts):
            rest = list(stmts[i + 1:])
            if inert(st):
                continue  # (a failing assertion raises: no result at all)
            if isinstance(st, ast.Return):
                return subst(st.value, env) if st.value is not None else _const(False)
            if isinstance(st, (ast.Assign, ast.AnnAssign)):
                tgt = st.targets[0] if isinstance(st, ast.Assign) and len(st.targets) == 1 else (st.target if isinstance(st, ast.AnnAssign) else None)
                if not isinstance(tgt, ast.Name) or st.value is None or len(assigned.get(tgt.id, [])) != 1:
                    return None
                env = dict(env, **{tgt.id: subst(st.value, env)})
                continue
            if isinstance(st, ast.If):
                if not any(isinstance(x, ast.Return) for x in pf.walk_shallow(st)):
                    # a block that cannot end the function (logging / consistency assertions): only statements without effect on the result
                    if all(inert(x) or (isinstance(x, ast.Expr) and isinstance(x.value, ast.Call)) for x in ast.walk(st) if isinstance(x, ast.stmt) and not isinstance(x, ast.If)):
                        continue
                    return None
                a = block(list(st.body) + rest, env)
                b = block(list(st.orelse) + rest, env)
                if a is None or b is None:
                    return None
                t = subst(st.test, env)
                return simplify(ast.BoolOp(op=ast.Or(), values=[ast.BoolOp(op=ast.And(), values=[t, a]),
                                                                ast.BoolOp(op=ast.And(), values=[ast.UnaryOp(op=ast.Not(), operand=copy.deepcopy(t)), b])]))
            return None
        return _const(False)  # falls off the end: None
    out = block(fn.body, {})
    if out is None:
        return None
    out = simplify(out)
    return ast.fix_missing_locations(out)


class PRFacts(Facts):
    """Facts that see through zero-argument `self.helper()` predicates written as decision lists (guard clauses, locals), not only through a
    single `return <expr>`."""

    def inline(self, e: ast.AST, depth: int = 1) -> Optional[ast.expr]:
        base = super().inline(e, depth)
        if base is not None:
            return base
        if depth <= 0 or not (isinstance(e, ast.Call) and not e.args and not e.keywords and isinstance(e.func, ast.Attribute)
                              and isinstance(e.func.value, ast.Name) and e.func.value.id == 'self'):
            return None
        fn = self.methods.get(e.func.attr)
        if fn is None or isinstance(fn, ast.AsyncFunctionDef) or fn.decorator_list:
            return None
        if not fn.args.args or fn.args.args[0].arg != 'self' or len(fn.args.args) != 1 or fn.args.vararg or fn.args.kwarg or fn.args.kwonlyargs:
            return None
        key = id(fn)
        if key not in _TO_BOOL:
            _TO_BOOL[key] = to_bool(fn)
        return _TO_BOOL[key]


_TO_BOOL: Dict[int, Optional[ast.expr]] = {}


# --------------------------------------------------------------------------------------
# short-circuit evaluation inside one test expression
# --------------------------------------------------------------------------------------


def _contains(e: ast.AST, target: ast.AST) -> bool:
    return any(x is target for x in ast.walk(e))


def evaluated_facts(facts: Facts, test: ast.expr, target: ast.AST) -> List[Fact]:
    """What holds whenever the sub-expression `target` of `test` is evaluated: the operands to its left in every enclosing `and` are
    true, in every enclosing `or` false, the test of an enclosing conditional expression has the matching value."""
    out: List[Fact] = []
    cur: ast.AST = test
    while cur is not target:
        if isinstance(cur, ast.BoolOp):
            idx = next((i for i, v in enumerate(cur.values) if _contains(v, target)), None)
            if idx is None:
                break
            for v in cur.values[:idx]:
                out += facts.true(v) if isinstance(cur.op, ast.And) else facts.false(v)
            cur = cur.values[idx]
        elif isinstance(cur, ast.UnaryOp) and _contains(cur.operand, target):
            cur = cur.operand
        elif isinstance(cur, ast.IfExp):
            if _contains(cur.body, target):
                out += facts.true(cur.test)
                cur = cur.body
            elif _contains(cur.orelse, target):
                out += facts.false(cur.test)
                cur = cur.orelse
            elif _contains(cur.test, target):
                cur = cur.test
            else:
                break
        elif isinstance(cur, ast.Await) and _contains(cur.value, target):
            cur = cur.value
        else:
            break  # an argument of a call, an operand of a comparison ...: evaluated whenever the enclosing atom is
    return out


def labels_when_true(test: ast.expr, target: ast.AST) -> Set[str]:
    """Branch labels ('T' / 'F') the test can take on an evaluation in which `target` (one of its atoms, or the operand of an awaited atom)
    was evaluated and truthy.  The other atoms are free; short-circuit order decides which atoms are evaluated at all."""
    atoms = absdom.bool_atoms(test)
    tkey = None
    for a in atoms:
        if a is target or (isinstance(a, ast.Await) and a.value is target) or _contains(a, target):
            tkey = absdom.atom_key(a)
    if tkey is None:
        return {'T', 'F'}
    keys = [absdom.atom_key(a) for a in atoms]
    out: Set[str] = set()
    for v in absdom.valuations(keys):
        if not v[tkey]:
            continue
        seen: List[str] = []

        def val(a: ast.AST) -> bool:
            seen.append(absdom.atom_key(a))
            return v[absdom.atom_key(a)]
        r = _eval_sc(test, val)
        if tkey in seen:
            out.add('T' if r else 'F')
    return out


def _eval_sc(e: ast.AST, val: Callable[[ast.AST], bool]) -> bool:
    """absdom.eval_bool with Python's short-circuit order made explicit (atoms right of a deciding operand are not evaluated)"""
    if isinstance(e, ast.BoolOp):
        if isinstance(e.op, ast.And):
            for v in e.values:
                if not _eval_sc(v, val):
                    return False
            return True
        for v in e.values:
            if _eval_sc(v, val):
                return True
        return False
    if isinstance(e, ast.UnaryOp) and isinstance(e.op, ast.Not):
        return not _eval_sc(e.operand, val)
    if isinstance(e, ast.Constant):
        return bool(e.value)
    return val(e)


# --------------------------------------------------------------------------------------
# finite-domain reading of an atom about ONE quantity
# --------------------------------------------------------------------------------------

OTHER = '\x00other'


def const_value(e: ast.AST, resolve: Optional[Callable[[str], Optional[ast.AST]]] = None) -> Tuple[bool, object]:
    """(is a constant, value) -- literal constants, and names the resolver maps to one (module-level constants)"""
    if isinstance(e, ast.Constant):
        return True, e.value
    if isinstance(e, ast.Name) and resolve is not None:
        g = resolve(e.id)
        if isinstance(g, ast.Constant):
            return True, g.value
    return False, None


def const_collection(e: ast.AST, resolve: Optional[Callable[[str], Optional[ast.AST]]] = None) -> Optional[List[object]]:
    if isinstance(e, ast.Name) and resolve is not None:
        g = resolve(e.id)
        if g is not None and not isinstance(g, ast.Name):
            return const_collection(g, None if isinstance(g, ast.Name) else resolve)
        return None
    if isinstance(e, ast.Call) and isinstance(e.func, ast.Name) and e.func.id in ('set', 'frozenset', 'tuple', 'list') and len(e.args) == 1 and not e.keywords:
        return const_collection(e.args[0], resolve)
    if isinstance(e, (ast.Tuple, ast.List, ast.Set)):
        vals = [const_value(x, resolve) for x in e.elts]
        if all(ok for ok, _ in vals):
            return [v for _, v in vals]
    return None


def truth_over(atom: ast.expr, is_subject: Callable[[ast.AST], bool], member: Callable[[ast.AST], Optional[object]], domain: Sequence[object]) -> Optional[Dict[object, bool]]:
    """Truth of `atom` for every value of the one quantity it tests: `subject <op> member`, `subject in (members...)`, `subject is member`.
    `member(e)` maps an expression to a domain value (or None); a value outside `domain` counts as OTHER.  None if the atom is not of that form."""
    if not (isinstance(atom, ast.Compare) and len(atom.ops) == 1):
        return None
    l, r, op = atom.left, atom.comparators[0], atom.ops[0]
    if isinstance(op, (ast.Eq, ast.NotEq, ast.Is, ast.IsNot)):
        for x, c in ((l, r), (r, l)):
            if is_subject(x):
                mv = member(c)
                if mv is None:
                    return None
                eq = isinstance(op, (ast.Eq, ast.Is))
                return {d: ((d == mv) == eq) for d in domain}
        return None
    if isinstance(op, (ast.In, ast.NotIn)) and is_subject(l):
        elts = r.elts if isinstance(r, (ast.Tuple, ast.List, ast.Set)) else None
        if elts is None:
            return None
        ms = [member(x) for x in elts]
        if any(m is None for m in ms):
            return None
        inn = isinstance(op, ast.In)
        return {d: ((d in ms) == inn) for d in domain}
    return None
