"""c31decode - string decoders (and the pipelines they are part of) as symbolic transducers over ESCAPE UNITS (C31 R3).

The escaper of C31 is a per-character encoder, tabulated by rules/c31.py as a UNIT TABLE: code-point range -> emitted text, where the text
is made of literal characters, the character itself, or the fixed-width hexadecimal numeral of its code point.  A decoder inverts the
escaper iff, for every unit and every text that can follow it, scanning the unit's text gives back exactly the character and stops exactly
at the end of the unit (induction over the units of a name).  This module decides that for decoders written as a chain of

    s.replace(a, b)                                 literal substitution
    P.sub(F, s) / re.sub(pattern, F, s[, flags])    regex substitution, F a replacement template, a lambda or a (nested / module) function
    bytes(s, E).decode('unicode_escape') & co       the platform codec (modelled natively from its documentation; E may be utf-8 / ascii /
                                                    latin-1, with the backslashreplace handler, or raw_unicode_escape)
or as ONE character loop (`while i < len(s)` index scanner with s[i] / s[i:j] / i += k, or `for c in s` state machine with flags, counters
and buffers) that appends to an accumulator (LoopEval: the scan position is a concrete integer, characters are symbolic, the loop is
followed until an iteration boundary at or after the unit's end where every LIVE loop-carried variable has its initial value again),
optionally behind early exits `if <test>: return s` (decided by the caller on languages),

WITHOUT running any of it: the unit text is a SYMBOLIC string (positions are constants, the variable `cp` = the character, the variables
d0..dw-1 = the hex digits of its code point, and k0, k1.. = the characters of whatever follows, each with a set of possible values).  The
pattern (parsed by the platform regex parser) is matched by an ordered backtracking matcher whose character tests are decided on those
SETS (inside / disjoint); a test that cuts a set raises a case split, the variable's set is refined both ways and the analysis restarts on
each half (explicit case splits, unrealisable digit combinations pruned by arithmetic on the unit's range).  The replacement function is
evaluated abstractly over the same symbolic strings (closed table of expression forms: group access, slicing, comparison with constants,
dict lookup, int(x, 16), chr, concatenation, try/except KeyError ...); anything else -> AnalysisError.

The same evaluator reads hand-written per-character ENCODERS (char_encoder: re.sub with a replacement function whose matches are single
characters, ''.join(<expr> for c in s), str.translate with a literal table; ord / %x / format / hex / the unicode_escape codec applied to one
character / helper functions inlined) and returns the unit table they implement.

A unit HOLDS when every leaf of the case analysis ends exactly at the unit's end with the output normal form [cp] (universal, by normal
form).  It is VIOLATED when some leaf has another output / overshoots / raises AND the leaf is realisable: a code point with those digits
exists in the range and the required continuation is spelled by raw characters that pass through the earlier stages (existential, with
the witness).  Otherwise the unit is UNDECIDED (the caller declines).
"""
from __future__ import annotations

import ast
from typing import Any, Dict, List, Optional, Sequence, Tuple

from . import pyfacts as pf
from . import relang as R
from . import strpred as sp
from .common import AnalysisError

END = 'END'
HEXDIG = R.CharSet.of('0123456789abcdefABCDEF')
ASCII = R.CharSet([(0, 0x7F)])
_SC = R.sre_ops()
_LEAF_LIMIT = 4000


class Split(Exception):
    """The decision depends on whether the variable's value lies in cs (or: whether the text ends here)."""

    def __init__(self, var: Any, cs: Any):
        super().__init__(f'split {var}')
        self.var, self.cs = var, cs


class PyRaise(Exception):
    """The analysed code raises."""

    def __init__(self, kind: str, why: str = ''):
        super().__init__(f'{kind}: {why}')
        self.kind, self.why = kind, why


# ---------------------------------------------------------------------------------------------------------------------
# units, stores
# ---------------------------------------------------------------------------------------------------------------------

CP = ('v', 'cp')


class UnitText:
    """One unit of the encoder's table: the characters lo..hi are emitted as `atoms` (('c', ch) | ('v', 'cp') | ('v', ('d', i)))."""

    def __init__(self, lo: int, hi: int, parts: Sequence[tuple], label: str):
        self.lo, self.hi, self.label = lo, hi, label
        self.width, self.upper = 0, False
        atoms: List[tuple] = []
        for p in parts:
            if p[0] == 'lit':
                atoms += [('c', ch) for ch in p[1]]
            elif p[0] == 'self':
                atoms.append(CP)
            elif p[0] == 'hex':
                if self.width:
                    raise AnalysisError('unit with two numerals')
                w = p[1]
                if not hi < 16 ** w:
                    raise AnalysisError(f'unit {label}: the numeral width {w} is not fixed over U+{lo:04X}..U+{hi:04X} (split_by_width first)')
                self.width, self.upper = w, bool(p[2])
                atoms += [('v', ('d', i)) for i in range(w)]
            else:
                raise AnalysisError(f'unit part {p[0]} not modelled')
        self.atoms = atoms
        self.digits = '0123456789ABCDEF' if self.upper else '0123456789abcdef'

    def find_cp(self, doms: Dict[Any, Any]) -> Optional[int]:
        """A code point of the unit whose digits / value satisfy the sets in doms (None: there is none)."""
        cps: R.CharSet = doms.get('cp', R.CharSet([(self.lo, self.hi)])) & R.CharSet([(self.lo, self.hi)])
        if not cps:
            return None
        if not self.width:
            for nice in (0xE9, 0x1F600, 0x4E2D, ord('a')):
                if nice in cps:
                    return nice
            return cps.min()
        w = self.width
        sets = [doms.get(('d', i)) for i in range(w)]
        for nice in (0xE9, 0x1F600, 0x4E2D):
            if nice in cps and all(sets[i] is None or ord(format(nice, f'0{w}{"X" if self.upper else "x"}')[i]) in sets[i] for i in range(w)):
                return nice

        def rec(i: int, val: int) -> Optional[int]:
            if i == w:
                return val if val in cps else None
            rem = w - i - 1
            for d in range(16):
                if sets[i] is not None and ord(self.digits[d]) not in sets[i]:
                    continue
                v = val * 16 + d
                vmin = v * 16 ** rem
                vmax = vmin + 16 ** rem - 1
                if vmax < self.lo or vmin > self.hi:
                    continue
                if not (cps & R.CharSet([(max(vmin, self.lo), min(vmax, self.hi))])):
                    continue
                r = rec(i + 1, v)
                if r is not None:
                    return r
            return None
        return rec(0, 0)

    def text_of(self, cp: int) -> str:
        out = []
        for a in self.atoms:
            if a[0] == 'c':
                out.append(a[1])
            elif a == CP:
                out.append(chr(cp))
            else:
                num = format(cp, f'0{self.width}{"X" if self.upper else "x"}')
                out.append(num[a[1][1]])
        return ''.join(out)

    def initial_doms(self) -> Dict[Any, Any]:
        doms: Dict[Any, Any] = {'cp': R.CharSet([(self.lo, self.hi)])}
        for i in range(self.width):
            ok = []
            for d in range(16):
                ch = self.digits[d]
                if self.find_cp({('d', i): R.CharSet.of(ch)}) is not None:
                    ok.append(ch)
            doms[('d', i)] = R.CharSet.of(ok)
        return doms

    def is_cp(self, digits: Sequence[tuple]) -> bool:
        """int(<digits>, 16) is the code point itself: all the digits of the numeral, in order (leading constant zeros allowed)."""
        ds = list(digits)
        while ds and ds[0] == ('c', '0') and len(ds) > self.width:
            ds.pop(0)
        return self.width > 0 and ds == [('v', ('d', i)) for i in range(self.width)]


class Store:
    """The current case: variable -> set of possible values (END for a continuation position after the end of the text)."""

    def __init__(self, unit: UnitText, vals: Dict[Any, Any], conts: Dict[int, Tuple[R.CharSet, R.CharSet]]):
        self.unit, self.vals, self.conts = unit, vals, conts

    def get(self, var: Any) -> Any:
        if isinstance(var, tuple) and var[0] == 'k':
            _k, s, j = var
            for j2 in range(j):
                if self.vals.get(('k', s, j2)) == END:
                    return END
            if var not in self.vals:
                raise Split(var, END)
        return self.vals[var]

    def default(self, var: Any) -> R.CharSet:
        _k, s, j = var
        first, anyc = self.conts[s]
        return first if j == 0 else anyc

    def refine(self, var: Any, cs: Any) -> List['Store']:
        out = []
        if cs == END:
            for v in (END, self.default(var)):
                if v == END or v:
                    d = dict(self.vals)
                    d[var] = v
                    out.append(Store(self.unit, d, self.conts))
            return out
        cur = self.vals[var]
        for v in (cur & cs, cur - cs):
            if v:
                d = dict(self.vals)
                d[var] = v
                st = Store(self.unit, d, self.conts)
                if var == 'cp' or (isinstance(var, tuple) and var[0] == 'd'):
                    if self.unit.find_cp(d) is None:
                        continue
                out.append(st)
        return out


class Subject:
    """A symbolic text (the input of one stage for one unit) followed by the continuation variables of that stage."""

    def __init__(self, text: Sequence[tuple], store: Store, stage: int):
        self.text, self.store, self.stage = list(text), store, stage
        self.n = len(self.text)

    def atom(self, i: int) -> tuple:
        return self.text[i] if i < self.n else ('v', ('k', self.stage, i - self.n))

    def cs_of(self, a: tuple) -> Any:
        if a[0] == 'c':
            return R.CharSet.of(a[1])
        if a[0] == 'v':
            return self.store.get(a[1])
        if a[0] == 'chr':
            if self.store.unit.is_cp(a[1]):
                return self.store.get('cp')
            if all(d[0] == 'c' for d in a[1]):
                return R.CharSet.of(chr(int(''.join(d[1] for d in a[1]), 16)))
        raise AnalysisError(f'a later step inspects the character {show_atom(a)}, whose value is not tracked')

    def cs(self, i: int) -> Any:
        return self.cs_of(self.atom(i))

    def test_atom(self, a: tuple, X: R.CharSet) -> bool:
        S = self.cs_of(a)
        if S == END:
            return False
        if S.issubset(X):
            return True
        if not (S & X):
            return False
        if a[0] == 'chr':
            raise Split('cp', X)
        raise Split(a[1], X)

    def test(self, i: int, X: R.CharSet) -> bool:
        return self.test_atom(self.atom(i), X)

    def at_end(self, i: int) -> bool:
        return i >= self.n and self.cs(i) == END


def show_atom(a: tuple) -> str:
    if a[0] == 'c':
        return repr(a[1])
    if a == CP:
        return '<the character>'
    if a[0] == 'v' and isinstance(a[1], tuple) and a[1][0] == 'd':
        return f'<hex digit {a[1][1] + 1}>'
    if a[0] == 'v':
        return '<a following character>'
    if a[0] == 'chr':
        return 'chr(int(' + '+'.join(show_atom(d) for d in a[1]) + ', 16))'
    if a[0] == 'num':
        return f'<the code point in hex, at least {a[1]} digit(s)>'
    return f'<{a[1]}>'


def normalise(unit: UnitText, atoms: Sequence[tuple]) -> List[tuple]:
    out: List[tuple] = []
    for a in atoms:
        if a[0] == 'chr':
            if unit.is_cp(a[1]):
                out.append(CP)
                continue
            if all(d[0] == 'c' for d in a[1]):
                out.append(('c', chr(int(''.join(d[1] for d in a[1]), 16))))
                continue
        out.append(a)
    return out


def concretise(unit: UnitText, atoms: Sequence[tuple], cp: int, follow: Dict[Any, str]) -> str:
    """The value of OUR output term at a witness (used only to print / confirm a counter-example of an established normal-form mismatch)."""
    num = format(cp, f'0{unit.width}{"X" if unit.upper else "x"}') if unit.width else ''

    def ch(a: tuple) -> str:
        if a[0] == 'c':
            return a[1]
        if a == CP:
            return chr(cp)
        if a[0] == 'v' and isinstance(a[1], tuple) and a[1][0] == 'd':
            return num[a[1][1]]
        if a[0] == 'v':
            return follow.get(a[1], '')
        if a[0] == 'chr':
            v = int(''.join(ch(d) for d in a[1]), 16)
            return chr(v) if v <= R.MAXCP else '<chr() out of range>'
        return f'<{a[1]}>'
    return ''.join(ch(a) for a in atoms)


# ---------------------------------------------------------------------------------------------------------------------
# ordered (leftmost-first) regex matching on a symbolic subject
# ---------------------------------------------------------------------------------------------------------------------


class Matcher:
    def __init__(self, pattern: str, flags: int, where: str):
        self.pattern, self.where = pattern, where
        self.items, self.flags = R.parse_pattern(pattern, flags)
        self.ngroups = self.items.state.groups - 1
        self.groupindex = dict(self.items.state.groupdict)
        self._sets: Dict[Any, R.CharSet] = {}
        if self._min_width(list(self.items)) == 0:
            raise AnalysisError(f'{where}: the pattern {pattern!r} can match the empty string; substitution with empty matches is not modelled')

    def _min_width(self, items: Sequence[tuple]) -> int:
        n = 0
        for op, av in items:
            if op in (_SC.LITERAL, _SC.NOT_LITERAL, _SC.IN, _SC.ANY):
                n += 1
            elif op is _SC.BRANCH:
                n += min(self._min_width(list(b)) for b in av[1])
            elif op is _SC.SUBPATTERN:
                n += self._min_width(list(av[3]))
            elif op in (_SC.MAX_REPEAT, _SC.MIN_REPEAT):
                n += av[0] * self._min_width(list(av[2]))
            else:
                raise AnalysisError(f'{self.where}: regex construct {op} of {self.pattern!r} is not modelled for substitution (anchors, look-around, back-references)')
        return n

    def _cs(self, op: Any, av: Any) -> R.CharSet:
        key = ('in', id(av)) if op is _SC.IN else (str(op), av if not isinstance(av, list) else 0)
        cs = self._sets.get(key)
        if cs is None:
            cs = R.item_charset(op, av, self.flags)
            self._sets[key] = cs
        return cs

    def match(self, subj: Subject, pos: int) -> Optional[Tuple[int, Dict[int, Tuple[int, int]]]]:
        budget = [20000]

        def m(items: Sequence[tuple], idx: int, p: int, g: Dict[int, Tuple[int, int]], k) -> Any:
            budget[0] -= 1
            if budget[0] < 0:
                raise AnalysisError(f'{self.where}: matching budget exceeded for {self.pattern!r}')
            if idx == len(items):
                return k(p, g)
            op, av = items[idx]
            if op in (_SC.LITERAL, _SC.NOT_LITERAL, _SC.IN, _SC.ANY):
                if subj.test(p, self._cs(op, av)):
                    return m(items, idx + 1, p + 1, g, k)
                return None
            if op is _SC.BRANCH:
                for b in av[1]:
                    r = m(list(b), 0, p, g, lambda p2, g2: m(items, idx + 1, p2, g2, k))
                    if r is not None:
                        return r
                return None
            if op is _SC.SUBPATTERN:
                group, add_flags, del_flags, sub = av
                if add_flags or del_flags:
                    raise AnalysisError(f'{self.where}: scoped inline flags are not modelled')

                def after(p2: int, g2: Dict[int, Tuple[int, int]]) -> Any:
                    if group is not None:
                        g2 = dict(g2)
                        g2[group] = (p, p2)
                    return m(items, idx + 1, p2, g2, k)
                return m(list(sub), 0, p, g, after)
            if op in (_SC.MAX_REPEAT, _SC.MIN_REPEAT):
                lo, hi, sub = av
                sub = list(sub)

                def rep(count: int, p1: int, g1: Dict[int, Tuple[int, int]]) -> Any:
                    def more() -> Any:
                        if hi is not _SC.MAXREPEAT and count >= hi:
                            return None

                        def after(p2: int, g2: Dict[int, Tuple[int, int]]) -> Any:
                            if p2 == p1:
                                raise AnalysisError(f'{self.where}: a repeat of {self.pattern!r} iterates over an empty match; not modelled')
                            return rep(count + 1, p2, g2)
                        return m(sub, 0, p1, g1, after)

                    def stop() -> Any:
                        if count < lo:
                            return None
                        return m(items, idx + 1, p1, g1, k)
                    first, second = (more, stop) if op is _SC.MAX_REPEAT else (stop, more)
                    r = first()
                    return r if r is not None else second()
                return rep(0, p, g)
            raise AnalysisError(f'{self.where}: regex construct {op} is not modelled')
        return m(list(self.items), 0, pos, {}, lambda p, g: (p, g))


# ---------------------------------------------------------------------------------------------------------------------
# replacement: template strings and Python callbacks evaluated abstractly
# ---------------------------------------------------------------------------------------------------------------------


class SStr:
    """A symbolic string: a tuple of character atoms."""
    __slots__ = ('atoms',)

    def __init__(self, atoms: Sequence[tuple]):
        self.atoms = tuple(atoms)

    @staticmethod
    def of(v: Any) -> 'SStr':
        if isinstance(v, SStr):
            return v
        if isinstance(v, str):
            return SStr([('c', ch) for ch in v])
        raise AnalysisError(f'not a string value: {v!r}')

    def const(self) -> Optional[str]:
        if all(a[0] == 'c' for a in self.atoms):
            return ''.join(a[1] for a in self.atoms)
        return None

    def __len__(self) -> int:
        return len(self.atoms)


class SOrd:
    """ord(<the character>): the code point as a number."""
    __slots__ = ()


class SInt:
    """int(<digits>, 16) of symbolic hex digits."""
    __slots__ = ('digits',)

    def __init__(self, digits: Sequence[tuple]):
        self.digits = tuple(digits)


class MatchV:
    def __init__(self, subj: Subject, start: int, end: int, groups: Dict[int, Tuple[int, int]], matcher: Optional[Matcher]):
        self.subj, self.start, self.end, self.groups, self.matcher = subj, start, end, groups, matcher

    def group(self, k: Any) -> Any:
        if isinstance(k, str) and self.matcher is not None and k in self.matcher.groupindex:
            k = self.matcher.groupindex[k]
        if not isinstance(k, int) or isinstance(k, bool):
            raise AnalysisError(f'group({k!r}) not recognised')
        if k == 0:
            return SStr([self.subj.atom(i) for i in range(self.start, self.end)])
        if self.matcher is not None and k > self.matcher.ngroups:
            raise PyRaise('IndexError', 'no such group')
        if k not in self.groups:
            return None
        a, b = self.groups[k]
        return SStr([self.subj.atom(i) for i in range(a, b)])


def _norm_codec(c: str) -> str:
    return c.lower().replace('-', '').replace('_', '')


class TemplateRepl:
    """A replacement template string (re.sub semantics: \\1 \\g<1> \\g<name> \\\\ and the control-character escapes)."""

    def __init__(self, template: str, where: str):
        self.template, self.where = template, where
        self.parts: List[tuple] = []
        i = 0
        t = template
        simple = {'n': '\n', 't': '\t', 'r': '\r', 'a': '\a', 'b': '\b', 'f': '\f', 'v': '\v', '\\': '\\'}
        while i < len(t):
            if t[i] != '\\':
                self.parts.append(('c', t[i]))
                i += 1
                continue
            if i + 1 >= len(t):
                raise AnalysisError(f'{where}: replacement template {template!r} ends with a backslash')
            c = t[i + 1]
            if c == 'g' and i + 2 < len(t) and t[i + 2] == '<' and '>' in t[i + 3:]:
                j = t.index('>', i + 3)
                name = t[i + 3:j]
                self.parts.append(('g', int(name) if name.isdigit() else name))
                i = j + 1
            elif c.isdigit() and c != '0':
                j = i + 2
                if j < len(t) and t[j].isdigit():
                    j += 1
                self.parts.append(('g', int(t[i + 1:j])))
                i = j
            elif c in simple:
                self.parts.append(('c', simple[c]))
                i += 2
            else:
                raise AnalysisError(f'{where}: escape \\{c} in the replacement template {template!r} is not modelled')

    def apply(self, mv: MatchV) -> List[tuple]:
        out: List[tuple] = []
        for p in self.parts:
            if p[0] == 'c':
                out.append(p)
            else:
                g = mv.group(p[1])
                if g is None:
                    continue  # an unmatched group is the empty string (Python >= 3.5)
                out += list(g.atoms)
        return out


def _unit_atoms(parts: Sequence[tuple], cp: Optional[int]) -> List[tuple]:
    """Unit-table parts as atoms (for a known code point the numeral is spelled out)."""
    out: List[tuple] = []
    for p in parts:
        if p[0] == 'lit':
            out += [('c', ch) for ch in p[1]]
        elif p[0] == 'self':
            out.append(CP if cp is None else ('c', chr(cp)))
        elif p[0] == 'hex':
            if cp is None:
                out.append(('num', p[1], bool(p[2])))
            else:
                out += [('c', ch) for ch in format(cp, f'0{p[1]}{"X" if p[2] else "x"}')]
        else:
            raise AnalysisError(f'unit part {p[0]} not modelled')
    return out


class _Return(Exception):
    def __init__(self, value: Any):
        super().__init__('return')
        self.value = value


class PyCallback:
    """A replacement function (lambda / def with one parameter) evaluated abstractly on a symbolic match."""

    def __init__(self, m: pf.Module, outer: Optional[pf.FuncDef], node: ast.AST, where: str):
        self.m, self.outer, self.node, self.where = m, outer, node, where
        a = node.args  # type: ignore[attr-defined]
        params = [x.arg for x in a.posonlyargs + a.args]
        if len(params) != 1 or a.vararg or a.kwarg or a.kwonlyargs or getattr(node, 'decorator_list', []):
            raise AnalysisError(f'{where}: the replacement function must take exactly the match object')
        self.param = params[0]
        self.subj: Optional[Subject] = None
        self.steps = 0
        self.depth = 0
        self.codec_units: Optional[Sequence[Tuple[int, int, Sequence[tuple]]]] = None   # unit table of str.encode('unicode_escape') (platform), set by the caller
        self.consts: Dict[str, Any] = {}   # known values of parameters of the enclosing function (a mode flag)

    def fail(self, e: ast.AST, what: str = 'construct') -> Any:
        raise AnalysisError(f'{self.where}: {what} `{pf.nsrc(e)[:70]}` of the replacement function is not in the table of modelled operations')

    # ---- entry
    def apply(self, mv: MatchV) -> List[tuple]:
        self.subj = mv.subj
        self.steps = 0
        env: Dict[str, Any] = {self.param: mv}
        if isinstance(self.node, ast.Lambda):
            v = self.ev(self.node.body, env)
        else:
            try:
                self.run(self.node.body, env)  # type: ignore[attr-defined]
                v = None
            except _Return as r:
                v = r.value
        if v is None:
            raise PyRaise('TypeError', 'the replacement function returns None')
        if isinstance(v, (str, SStr)):
            return list(SStr.of(v).atoms)
        raise PyRaise('TypeError', f'the replacement function returns a {type(v).__name__}')

    def apply_to(self, value: Any, subj: Subject) -> List[tuple]:
        """The function applied to an arbitrary (symbolic) argument instead of a match object."""
        self.subj = subj
        self.steps = 0
        env: Dict[str, Any] = {self.param: value}
        if isinstance(self.node, ast.Lambda):
            v = self.ev(self.node.body, env)
        else:
            try:
                self.run(self.node.body, env)  # type: ignore[attr-defined]
                v = None
            except _Return as r:
                v = r.value
        if isinstance(v, (str, SStr)):
            return list(SStr.of(v).atoms)
        raise PyRaise('TypeError', 'the function does not return a string')

    # ---- statements
    def run(self, stmts: Sequence[ast.stmt], env: Dict[str, Any]) -> None:
        for st in stmts:
            self.steps += 1
            if self.steps > 2000:
                raise AnalysisError(f'{self.where}: evaluation budget of the replacement function exceeded')
            if isinstance(st, ast.Expr) and isinstance(st.value, ast.Constant):
                continue
            if isinstance(st, ast.Pass):
                continue
            if isinstance(st, ast.Return):
                raise _Return(None if st.value is None else self.ev(st.value, env))
            if isinstance(st, ast.Assign) and len(st.targets) == 1:
                v = self.ev(st.value, env)
                t = st.targets[0]
                if isinstance(t, ast.Name):
                    env[t.id] = v
                    continue
                if isinstance(t, (ast.Tuple, ast.List)) and all(isinstance(x, ast.Name) for x in t.elts) and isinstance(v, tuple) and len(v) == len(t.elts):
                    for x, vv in zip(t.elts, v):
                        env[x.id] = vv  # type: ignore[union-attr]
                    continue
                self.fail(st, 'assignment')
            if isinstance(st, ast.If):
                self.run(st.body if self.truth(self.ev(st.test, env), st.test) else st.orelse, env)
                continue
            if isinstance(st, ast.Try) and not st.finalbody and not st.orelse and st.handlers:
                try:
                    self.run(st.body, env)
                except PyRaise as ex:
                    for h in st.handlers:
                        names = [] if h.type is None else [pf.dotted(x) for x in (h.type.elts if isinstance(h.type, ast.Tuple) else [h.type])]
                        if h.type is None or any(n in (ex.kind, 'Exception', 'BaseException') or (n == 'LookupError' and ex.kind in ('KeyError', 'IndexError'))
                                                 for n in names):
                            if h.name:
                                self.fail(st, 'use of the caught exception in')
                            self.run(h.body, env)
                            break
                    else:
                        raise
                continue
            if isinstance(st, ast.Raise):
                raise PyRaise(pf.dotted(st.exc.func if isinstance(st.exc, ast.Call) else st.exc) or 'Exception' if st.exc is not None else 'Exception', 'raised explicitly')
            self.fail(st, 'statement')

    # ---- values
    def truth(self, v: Any, e: ast.AST) -> bool:
        if v is None or isinstance(v, (bool, int, str, tuple, dict)):
            return bool(v)
        if isinstance(v, SStr):
            return len(v) > 0
        if isinstance(v, MatchV):
            return True
        self.fail(e, 'truth value of')
        raise AssertionError

    def lookup(self, name: str, e: ast.AST) -> Any:
        # enclosing function locals (single assignment), then module constants, then builtins
        if self.outer is not None and name in self.consts:
            return self.consts[name]
        if self.outer is not None and _nested_def(self.outer, name) is not None:
            return ('func', _nested_def(self.outer, name))
        if self.outer is not None and name in pf.assignments(self.outer):
            d = pf.single_def(self.outer, name)
            if d is None or not isinstance(d, ast.expr):
                self.fail(e, f'closure variable {name} (not a single assignment) in')
            return self.static_value(d, e)  # type: ignore[arg-type]
        if name in ('chr', 'int', 'len', 'str', 'ord', 'bool', 'hex', 'format', 'bytes'):
            if sp.module_bindings(self.m, name):
                self.fail(e, f'rebound builtin {name} in')
            return ('builtin', name)
        if name in sp.imports_of(self.m):
            return ('import', sp.imports_of(self.m)[name])
        b = sp.module_bindings(self.m, name)
        if len(b) == 1 and isinstance(b[0], ast.FunctionDef):
            return ('func', b[0])
        try:
            d2 = sp.module_const(self.m, name)
        except AnalysisError:
            self.fail(e, f'name {name} in')
        return self.static_value(d2, e)

    def call_user(self, fd: ast.FunctionDef, args: List[Any], kw: Dict[str, Any], e: ast.AST) -> Any:
        """A module-level helper function, evaluated abstractly with its arguments bound (no decorators, no *args)."""
        a = fd.args
        if fd.decorator_list or a.vararg or a.kwarg or a.kwonlyargs or self.depth >= 3:
            self.fail(e, f'call of the helper {fd.name} in')
        params = [x.arg for x in a.posonlyargs + a.args]
        if len(args) > len(params) or not set(kw) <= set(params[len(args):]):
            self.fail(e, f'arguments of the helper {fd.name} in')
        env: Dict[str, Any] = dict(zip(params, args))
        env.update(kw)
        defaults = dict(zip(params[len(params) - len(a.defaults):], a.defaults))
        for p_ in params:
            if p_ not in env:
                if p_ not in defaults:
                    self.fail(e, f'arguments of the helper {fd.name} in')
                env[p_] = self.static_value(defaults[p_], e)
        self.depth += 1
        outer = self.outer
        self.outer = None
        try:
            try:
                self.run(fd.body, env)
                return None
            except _Return as r:
                return r.value
        finally:
            self.depth -= 1
            self.outer = outer

    # ---- numbers of the character
    def ord_cmp(self, op: ast.cmpop, left: Any, right: Any, e: ast.AST) -> bool:
        flip = {ast.Lt: ast.Gt, ast.LtE: ast.GtE, ast.Gt: ast.Lt, ast.GtE: ast.LtE, ast.Eq: ast.Eq, ast.NotEq: ast.NotEq}
        t = type(op)
        if t not in flip:
            self.fail(e, 'comparison')
        if isinstance(right, SOrd):
            left, right, t = right, left, flip[t]
        if isinstance(right, SOrd):
            return t in (ast.Eq, ast.LtE, ast.GtE)
        if not isinstance(right, int) or isinstance(right, bool):
            self.fail(e, 'comparison of the code point with a non-integer in')
        n = right

        def rng(a: int, b: int) -> R.CharSet:
            a, b = max(a, 0), min(b, R.MAXCP)
            return R.CharSet([(a, b)]) if a <= b else R.CharSet.empty()
        X = {ast.Lt: rng(0, n - 1), ast.LtE: rng(0, n), ast.Gt: rng(n + 1, R.MAXCP), ast.GtE: rng(n, R.MAXCP), ast.Eq: rng(n, n), ast.NotEq: ~rng(n, n)}[t]
        assert self.subj is not None
        return self.subj.test_atom(CP, X)

    def fmt_num(self, v: Any, spec: str, e: ast.AST) -> Any:
        """format(v, spec) for the code point / an integer and a hexadecimal spec ([0][width](x|X)); strings with an empty spec."""
        if isinstance(v, (str, SStr)):
            if spec not in ('', 's'):
                self.fail(e, f'format spec {spec!r} for a string in')
            return SStr.of(v)
        import re as _re
        mm = _re.fullmatch(r'(0?)(\d*)([xXd]?)', spec)
        if mm is None or (mm.group(2) and not mm.group(1)):
            self.fail(e, f'format spec {spec!r} in')
        zero, width, typ = mm.groups()  # type: ignore[union-attr]
        w = int(width) if width else 1
        if isinstance(v, SOrd):
            if typ not in ('x', 'X'):
                self.fail(e, f'format spec {spec!r} (the code point in decimal) in')
            return SStr([('num', max(w, 1), typ == 'X')])
        if isinstance(v, int) and not isinstance(v, bool):
            return SStr.of(format(v, spec))
        self.fail(e, 'formatted value')

    def format_call(self, fmt: str, args: List[Any], kw: Dict[str, Any], e: ast.AST) -> Any:
        import string
        out: List[tuple] = []
        auto = 0
        try:
            fields = list(string.Formatter().parse(fmt))
        except ValueError:
            self.fail(e, 'format string')

        def field_value(name: str) -> Any:
            nonlocal auto
            if name == '':
                i = auto
                auto += 1
            elif name.isdigit():
                i = int(name)
            elif name in kw:
                return kw[name]
            else:
                self.fail(e, f'format field {name!r} in')
            if i >= len(args):
                raise PyRaise('IndexError', 'format index out of range')
            return args[i]
        for lit_, name, spec, conv in fields:
            out += list(SStr.of(lit_).atoms)
            if name is None:
                continue
            if conv not in (None, 's'):
                self.fail(e, 'format conversion in')
            v = field_value(name)
            spec = spec or ''
            if '{' in spec:
                # nested fields in the spec: integers only
                parts = []
                for l2, n2, s2, c2 in string.Formatter().parse(spec):
                    parts.append(l2)
                    if n2 is not None:
                        if s2 or c2:
                            self.fail(e, 'nested format spec in')
                        v2 = field_value(n2)
                        if v2 is None or not isinstance(v2, int) or isinstance(v2, bool):
                            self.fail(e, 'nested format field (not an integer) in')
                        parts.append(str(v2))
                spec = ''.join(parts)
            out += list(self.fmt_num(v, spec, e).atoms)
        return SStr(out)

    def percent_format(self, fmt: str, arg: Any, e: ast.AST) -> Any:
        import re as _re
        args = list(arg) if isinstance(arg, tuple) else [arg]
        out: List[tuple] = []
        pos = 0
        for mm in _re.finditer(r'%(0?)(\d*)([xXds%])', fmt):
            out += list(SStr.of(fmt[pos:mm.start()]).atoms)
            pos = mm.end()
            if mm.group(3) == '%':
                out.append(('c', '%'))
                continue
            if not args:
                raise PyRaise('TypeError', 'not enough arguments for format string')
            v = args.pop(0)
            if mm.group(3) == 's':
                if mm.group(1) or mm.group(2):
                    self.fail(e, '%-format with a width for a string in')
                out += list(self.fmt_num(v, '', e).atoms)
            else:
                out += list(self.fmt_num(v, mm.group(1) + mm.group(2) + mm.group(3), e).atoms)
        rest = fmt[pos:]
        if '%' in rest or args:
            self.fail(e, '%-format')
        out += list(SStr.of(rest).atoms)
        return SStr(out)

    def codec_encode(self, s: 'SStr', e: ast.AST) -> Any:
        """s.encode('unicode_escape') read as text, for a string made of constants and the character itself (platform table)."""
        if self.codec_units is None:
            self.fail(e, 'unicode_escape encoding (no platform table) in')
        assert self.subj is not None
        out: List[tuple] = []
        for a in s.atoms:
            cps = [a] if a == CP else None
            if a[0] == 'c':
                hit = [u for u in self.codec_units if u[0] <= ord(a[1]) <= u[1]]  # type: ignore[union-attr]
                if len(hit) != 1:
                    self.fail(e, 'unicode_escape table lookup in')
                out += _unit_atoms(hit[0][2], ord(a[1]))
                continue
            if cps is None:
                self.fail(e, 'unicode_escape encoding of a derived character in')
            done = False
            for lo, hi, parts in self.codec_units:  # type: ignore[union-attr]
                if self.subj.test_atom(CP, R.CharSet([(lo, hi)])):
                    out += _unit_atoms(parts, None)
                    done = True
                    break
            if not done:
                self.fail(e, 'unicode_escape table lookup in')
        return SStr(out)

    def static_value(self, d: ast.expr, e: ast.AST) -> Any:
        """A constant table / string / tuple defined outside the replacement function."""
        if isinstance(d, ast.Constant) and (d.value is None or isinstance(d.value, (str, int, bool))):
            return d.value
        if isinstance(d, ast.Dict):
            out: Dict[str, Any] = {}
            for k, v in zip(d.keys, d.values):
                if k is None or not isinstance(k, ast.Constant) or not isinstance(k.value, str) or not isinstance(v, ast.Constant) or not isinstance(v.value, str):
                    self.fail(d, 'table (not str -> str literals)')
                out[k.value] = v.value  # type: ignore[union-attr]
            return out
        if isinstance(d, (ast.Tuple, ast.List, ast.Set)) and all(isinstance(x, ast.Constant) and isinstance(x.value, str) for x in d.elts):
            return tuple(x.value for x in d.elts)  # type: ignore[union-attr]
        if isinstance(d, ast.Call) and pf.dotted(d.func) in ('dict',) and not d.args and all(k.arg is not None and isinstance(k.value, ast.Constant)
                                                                                               and isinstance(k.value.value, str) for k in d.keywords):
            return {k.arg: k.value.value for k in d.keywords}  # type: ignore[union-attr]
        if isinstance(d, ast.Call) and pf.dotted(d.func) in ('frozenset', 'set', 'tuple', 'list') and len(d.args) == 1 and not d.keywords:
            inner = self.static_value(d.args[0], e)
            if isinstance(inner, str):
                return tuple(inner)
            return inner
        if isinstance(d, ast.Name):
            return self.lookup(d.id, e)
        self.fail(d, 'definition')
        raise AssertionError

    def char_eq(self, a: tuple, ch: str) -> bool:
        assert self.subj is not None
        return self.subj.test_atom(a, R.CharSet.of(ch))

    def str_eq(self, x: Any, y: Any, e: ast.AST) -> bool:
        if x is None or y is None:
            return x is y
        if isinstance(x, (int, bool)) or isinstance(y, (int, bool)):
            if isinstance(x, (SStr, str)) or isinstance(y, (SStr, str)):
                return False
            return x == y
        if not isinstance(x, (str, SStr)) or not isinstance(y, (str, SStr)):
            self.fail(e, 'comparison')
        sx, sy = SStr.of(x), SStr.of(y)
        if len(sx) != len(sy):
            return False
        for a, b in zip(sx.atoms, sy.atoms):
            if a == b and a[0] != 'bad':
                continue
            if b[0] == 'c':
                if not self.char_eq(a, b[1]):
                    return False
            elif a[0] == 'c':
                if not self.char_eq(b, a[1]):
                    return False
            else:
                self.fail(e, 'comparison of two symbolic characters in')
        return True

    def contains(self, item: Any, coll: Any, e: ast.AST) -> bool:
        if isinstance(coll, dict):
            coll = tuple(coll.keys())
        if isinstance(coll, tuple):
            return any(self.str_eq(item, k, e) for k in coll)
        if isinstance(coll, (str, SStr)):
            c = SStr.of(coll).const()
            it = SStr.of(item)
            if c is None:
                self.fail(e, 'substring test in')
            if len(it) == 1:
                assert self.subj is not None
                return bool(c) and self.subj.test_atom(it.atoms[0], R.CharSet.of(c))  # type: ignore[arg-type]
            ic = it.const()
            if ic is None:
                self.fail(e, 'substring test in')
            return ic in c  # type: ignore[operator]
        self.fail(e, 'membership test in')
        raise AssertionError

    def to_int(self, x: Any, base: int, e: ast.AST) -> Any:
        if base != 16:
            self.fail(e, f'int(.., {base})')
        s = SStr.of(x)
        atoms = list(s.atoms)
        # int() accepts surrounding whitespace, a sign, a 0x prefix and underscores: only plain digit strings are modelled
        if not atoms:
            raise PyRaise('ValueError', 'int() of an empty string')
        assert self.subj is not None
        for a in atoms:
            if not self.subj.test_atom(a, HEXDIG):
                if a[0] == 'c' and a[1] in ' \t\n+-_xX':
                    self.fail(e, 'int() of a string with a sign / prefix / blank in')
                raise PyRaise('ValueError', f'int(.., 16) of a string containing {show_atom(a)}')
        if all(a[0] == 'c' for a in atoms):
            return int(''.join(a[1] for a in atoms), 16)
        return SInt(atoms)

    def to_chr(self, v: Any, e: ast.AST) -> Any:
        if isinstance(v, SInt):
            return SStr([('chr', v.digits)])
        if isinstance(v, int) and not isinstance(v, bool):
            if not 0 <= v <= R.MAXCP:
                raise PyRaise('ValueError', 'chr() arg not in range')
            return chr(v)
        self.fail(e, 'chr() of')

    def codec_decode(self, x: Any, enc: Optional[str], codec: str, e: ast.AST) -> Any:
        if _norm_codec(codec) != 'unicodeescape' or (enc is not None and _norm_codec(enc) not in ('utf8', 'ascii', 'latin1')):
            self.fail(e, 'codec in')
        assert self.subj is not None
        s = SStr.of(x)
        sub = Subject(list(s.atoms), _Closed(self.subj.store), self.subj.stage)
        end, out = CodecStage(_norm_codec(enc or 'utf8'), self.where).scan(sub)
        return SStr(out)

    def ev(self, e: ast.AST, env: Dict[str, Any]) -> Any:
        self.steps += 1
        if self.steps > 2000:
            raise AnalysisError(f'{self.where}: evaluation budget of the replacement function exceeded')
        if isinstance(e, ast.Constant):
            if e.value is None or isinstance(e.value, (str, int, bool)):
                return e.value
            self.fail(e, 'constant')
        if isinstance(e, ast.Name):
            if e.id in env:
                return env[e.id]
            return self.lookup(e.id, e)
        if isinstance(e, ast.NamedExpr) and isinstance(e.target, ast.Name):
            v = self.ev(e.value, env)
            env[e.target.id] = v
            return v
        if isinstance(e, ast.IfExp):
            return self.ev(e.body if self.truth(self.ev(e.test, env), e.test) else e.orelse, env)
        if isinstance(e, ast.BoolOp):
            v = None
            for x in e.values:
                v = self.ev(x, env)
                t = self.truth(v, x)
                if isinstance(e.op, ast.And) and not t:
                    return v
                if isinstance(e.op, ast.Or) and t:
                    return v
            return v
        if isinstance(e, ast.UnaryOp) and isinstance(e.op, ast.Not):
            return not self.truth(self.ev(e.operand, env), e.operand)
        if isinstance(e, ast.Tuple):
            return tuple(self.ev(x, env) for x in e.elts)
        if isinstance(e, ast.JoinedStr):
            out: List[tuple] = []
            for v in e.values:
                if isinstance(v, ast.Constant):
                    out += list(SStr.of(str(v.value)).atoms)
                elif isinstance(v, ast.FormattedValue) and v.format_spec is None and v.conversion in (-1, ord('s')):
                    x = self.ev(v.value, env)
                    if not isinstance(x, (str, SStr)):
                        self.fail(e, 'formatted value')
                    out += list(SStr.of(x).atoms)
                elif isinstance(v, ast.FormattedValue) and v.conversion == -1 and isinstance(v.format_spec, ast.JoinedStr) \
                        and all(isinstance(q, ast.Constant) for q in v.format_spec.values):
                    spec = ''.join(str(q.value) for q in v.format_spec.values)  # type: ignore[attr-defined]
                    out += list(self.fmt_num(self.ev(v.value, env), spec, e).atoms)
                else:
                    self.fail(e, 'formatted value')
            return SStr(out)
        if isinstance(e, ast.BinOp) and isinstance(e.op, ast.Add):
            a, b = self.ev(e.left, env), self.ev(e.right, env)
            if isinstance(a, (str, SStr)) and isinstance(b, (str, SStr)):
                return SStr(list(SStr.of(a).atoms) + list(SStr.of(b).atoms))
            if isinstance(a, int) and isinstance(b, int):
                return a + b
            self.fail(e, 'addition')
        if isinstance(e, ast.BinOp) and isinstance(e.op, ast.Mod):
            a = self.ev(e.left, env)
            if isinstance(a, str):
                return self.percent_format(a, self.ev(e.right, env), e)
            self.fail(e, '%-format')
        if isinstance(e, ast.Compare):
            left = self.ev(e.left, env)
            res = True
            for op, rhs_e in zip(e.ops, e.comparators):
                right = self.ev(rhs_e, env)
                if isinstance(left, SOrd) or isinstance(right, SOrd):
                    r = self.ord_cmp(op, left, right, e)
                elif isinstance(op, (ast.Eq, ast.NotEq)):
                    r = self.str_eq(left, right, e)
                    r = r if isinstance(op, ast.Eq) else not r
                elif isinstance(op, (ast.Is, ast.IsNot)):
                    if right is not None and left is not None and not isinstance(right, bool) and not isinstance(left, bool):
                        self.fail(e, 'identity comparison')
                    r = (left is right) if isinstance(op, ast.Is) else (left is not right)
                elif isinstance(op, (ast.In, ast.NotIn)):
                    r = self.contains(left, right, e)
                    r = r if isinstance(op, ast.In) else not r
                elif isinstance(left, int) and isinstance(right, int):
                    r = {ast.Lt: left < right, ast.LtE: left <= right, ast.Gt: left > right, ast.GtE: left >= right}[type(op)]
                else:
                    self.fail(e, 'comparison')
                res = res and r
                if not res:
                    return False
                left = right
            return res
        if isinstance(e, ast.Subscript):
            base = self.ev(e.value, env)
            if isinstance(base, MatchV):
                return base.group(self.ev(e.slice, env))
            if isinstance(base, dict):
                k = self.ev(e.slice, env)
                for key, val in base.items():
                    if self.str_eq(k, key, e):
                        return val
                raise PyRaise('KeyError', 'key not in the table')
            if isinstance(base, (str, SStr)):
                s = SStr.of(base)
                if isinstance(e.slice, ast.Slice):
                    lo = None if e.slice.lower is None else self.ev(e.slice.lower, env)
                    hi = None if e.slice.upper is None else self.ev(e.slice.upper, env)
                    stp = None if e.slice.step is None else self.ev(e.slice.step, env)
                    if not all(x is None or (isinstance(x, int) and not isinstance(x, bool)) for x in (lo, hi, stp)):
                        self.fail(e, 'slice bounds of')
                    if any(a[0] == 'num' for a in s.atoms):
                        # a numeral of unknown length: only `[k:]` over a constant prefix of k characters
                        if hi is not None or stp is not None or lo is None or lo < 0 or any(a[0] == 'num' for a in s.atoms[:lo]):
                            self.fail(e, 'slice of a string that contains a numeral of unknown length in')
                    return SStr(s.atoms[slice(lo, hi, stp)])
                i = self.ev(e.slice, env)
                if not isinstance(i, int) or isinstance(i, bool):
                    self.fail(e, 'index of')
                if any(a[0] == 'num' for a in s.atoms):
                    self.fail(e, 'index into a string that contains a numeral of unknown length in')
                if not -len(s) <= i < len(s):
                    raise PyRaise('IndexError', 'string index out of range')
                return SStr([s.atoms[i]])
            if isinstance(base, tuple):
                i = self.ev(e.slice, env)
                if isinstance(i, int) and not isinstance(i, bool) and -len(base) <= i < len(base):
                    return base[i]
            self.fail(e, 'subscript')
        if isinstance(e, ast.Call):
            return self.call(e, env)
        self.fail(e, 'expression')
        raise AssertionError

    def call(self, e: ast.Call, env: Dict[str, Any]) -> Any:
        f = e.func
        kw = {k.arg: k.value for k in e.keywords}
        if None in kw:
            self.fail(e, 'call')
        if isinstance(f, ast.Attribute):
            d = pf.dotted(f)
            if d == 'codecs.decode' and sp.imports_of(self.m).get('codecs') == 'codecs' and len(e.args) == 2 and not kw:
                codec = self.ev(e.args[1], env)
                if not isinstance(codec, str):
                    self.fail(e, 'codec of')
                return self.codec_decode(self.ev(e.args[0], env), None, codec, e)
            recv = self.ev(f.value, env)
            args = [self.ev(a, env) for a in e.args]
            if isinstance(recv, MatchV):
                if f.attr == 'group' and not kw:
                    if not args:
                        return recv.group(0)
                    if len(args) == 1:
                        return recv.group(args[0])
                    return tuple(recv.group(a) for a in args)
                if f.attr == 'groups' and not kw and len(args) <= 1 and recv.matcher is not None:
                    return tuple(recv.group(i) if recv.group(i) is not None else (args[0] if args else None) for i in range(1, recv.matcher.ngroups + 1))
                if f.attr in ('start', 'end') and not args and not kw:
                    self.fail(e, 'match position in')
                self.fail(e, 'match method')
            if isinstance(recv, dict):
                if f.attr == 'get' and 1 <= len(args) <= 2 and not kw:
                    for key, val in recv.items():
                        if self.str_eq(args[0], key, e):
                            return val
                    return args[1] if len(args) == 2 else None
                self.fail(e, 'table method')
            if isinstance(recv, (str, SStr)):
                s = SStr.of(recv)
                if f.attr in ('startswith', 'endswith') and len(args) == 1 and not kw:
                    cands = args[0] if isinstance(args[0], tuple) else (args[0],)
                    for c in cands:
                        if not isinstance(c, str):
                            self.fail(e, 'affix test')
                        if len(c) <= len(s):
                            part = s.atoms[:len(c)] if f.attr == 'startswith' else s.atoms[len(s) - len(c):]
                            if self.str_eq(SStr(part), c, e):
                                return True
                    return False
                if f.attr in ('lower', 'upper') and not args and not kw:
                    out = []
                    fixed = sp.fixed_points(f.attr)
                    assert self.subj is not None
                    for a in s.atoms:
                        if a[0] == 'c':
                            out.append(('c', getattr(a[1], f.attr)()))
                            if len(out[-1][1]) != 1:
                                self.fail(e, 'case mapping')
                        elif a[0] == 'num':
                            out.append(('num', a[1], f.attr == 'upper'))
                        elif self.subj.test_atom(a, fixed):
                            out.append(a)
                        else:
                            self.fail(e, 'case mapping of a symbolic character in')
                    return SStr(out)
                if f.attr == 'encode' and len(args) <= 1 and not kw:
                    enc = args[0] if args else 'utf-8'
                    if not isinstance(enc, str):
                        self.fail(e, 'encoding')
                    return ('bytes', s, enc)
                if f.attr in ('isdigit', 'isalpha', 'isalnum', 'isdecimal', 'isnumeric', 'isspace') and not args and not kw and not any(a[0] == 'num' for a in s.atoms):
                    assert self.subj is not None
                    return len(s) > 0 and all(self.subj.test_atom(a, R.pred('str.' + f.attr)) for a in s.atoms)
                if f.attr in ('isascii', 'isprintable') and not args and not kw and not any(a[0] == 'num' for a in s.atoms):
                    assert self.subj is not None
                    return all(self.subj.test_atom(a, R.pred('str.' + f.attr)) for a in s.atoms)
                if f.attr in ('islower', 'isupper', 'isidentifier') and not args and not kw and len(s) == 1 and s.atoms[0][0] != 'num':
                    assert self.subj is not None
                    return self.subj.test_atom(s.atoms[0], R.pred('str.' + f.attr))
                if f.attr == 'format' and isinstance(recv, str):
                    return self.format_call(recv, args, {k: self.ev(v, env) for k, v in kw.items()}, e)
                if f.attr == 'replace' and len(args) == 2 and not kw and isinstance(args[0], str) and isinstance(args[1], (str, SStr)):
                    a0 = args[0]
                    if len(a0) != 1:
                        c0 = s.const()
                        if c0 is None or not isinstance(args[1], str):
                            self.fail(e, '.replace of a multi-character pattern on a symbolic string in')
                        return c0.replace(a0, args[1])
                    assert self.subj is not None
                    out2: List[tuple] = []
                    for a in s.atoms:
                        if a[0] == 'num':
                            if a0 in '0123456789abcdefABCDEF':
                                self.fail(e, '.replace of a hex digit in')
                            out2.append(a)
                        elif self.subj.test_atom(a, R.CharSet.of(a0)):
                            out2 += list(SStr.of(args[1]).atoms)
                        else:
                            out2.append(a)
                    return SStr(out2)
                if f.attr in ('zfill', 'rjust') and not kw and len(s) == 1 and s.atoms[0][0] == 'num' and args and isinstance(args[0], int) \
                        and (f.attr == 'zfill' and len(args) == 1 or f.attr == 'rjust' and len(args) == 2 and args[1] == '0'):
                    return SStr([('num', max(s.atoms[0][1], args[0]), s.atoms[0][2])])
                self.fail(e, 'string method')
            if isinstance(recv, tuple) and len(recv) == 3 and recv[0] == 'bytes' and f.attr == 'decode' and len(args) <= 1 and not kw and all(isinstance(x, str) for x in args):
                enc0, dec0 = _norm_codec(recv[2]), _norm_codec(args[0] if args else 'utf-8')
                if enc0 == 'unicodeescape' and dec0 in ('utf8', 'ascii', 'latin1'):
                    return self.codec_encode(recv[1], e)
                if enc0 == dec0 == 'utf8':
                    return recv[1]
                return self.codec_decode(recv[1], recv[2], args[0] if args else 'utf-8', e)
            self.fail(e, 'method call')
        if isinstance(f, ast.Name):
            fn = env.get(f.id) if f.id in env else self.lookup(f.id, e)
            args = [self.ev(a, env) for a in e.args]
            if fn == ('builtin', 'chr') and len(args) == 1 and not kw:
                return self.to_chr(args[0], e)
            if fn == ('builtin', 'int') and 1 <= len(args) <= 2 and set(kw) <= {'base'}:
                base = args[1] if len(args) == 2 else (self.ev(kw['base'], env) if 'base' in kw else 10)
                if not isinstance(base, int):
                    self.fail(e, 'base of')
                return self.to_int(args[0], base, e)
            if fn == ('builtin', 'len') and len(args) == 1 and not kw and isinstance(args[0], (str, SStr, tuple, dict)):
                if isinstance(args[0], SStr) and any(a[0] == 'num' for a in args[0].atoms):
                    self.fail(e, 'length of a string that contains a numeral of unknown length in')
                return len(args[0])
            if fn == ('builtin', 'ord') and len(args) == 1 and not kw and isinstance(args[0], (str, SStr)):
                s1 = SStr.of(args[0])
                if len(s1) != 1:
                    raise PyRaise('TypeError', 'ord() expected a character')
                if s1.atoms[0] == CP:
                    return SOrd()
                if s1.atoms[0][0] == 'c':
                    return ord(s1.atoms[0][1])
                self.fail(e, 'ord() of a derived character in')
            if fn == ('builtin', 'hex') and len(args) == 1 and not kw and isinstance(args[0], SOrd):
                return SStr([('c', '0'), ('c', 'x'), ('num', 1, False)])
            if fn == ('builtin', 'format') and len(args) == 2 and not kw and isinstance(args[1], str):
                return self.fmt_num(args[0], args[1], e)
            if isinstance(fn, tuple) and len(fn) == 2 and fn[0] == 'func':
                return self.call_user(fn[1], args, {k: self.ev(v, env) for k, v in kw.items()}, e)
            if fn == ('builtin', 'str') and len(args) == 1 and not kw and isinstance(args[0], (str, SStr)):
                return args[0]
            if fn == ('builtin', 'bool') and len(args) == 1 and not kw:
                return self.truth(args[0], e)
            if fn == ('builtin', 'bytes') or (f.id == 'bytes' and not sp.module_bindings(self.m, 'bytes')):
                if len(args) == 2 and isinstance(args[0], (str, SStr)) and isinstance(args[1], str) and not kw:
                    return ('bytes', SStr.of(args[0]), args[1])
            self.fail(e, 'call')
        self.fail(e, 'call')
        raise AssertionError


class _Closed(Store):
    """A store view in which the text is complete (no continuation): reading past the end is END."""

    def __init__(self, base: Store):
        super().__init__(base.unit, base.vals, base.conts)
        self.base = base

    def get(self, var: Any) -> Any:
        if isinstance(var, tuple) and var[0] == 'k':
            return END
        return self.base.get(var)


# ---------------------------------------------------------------------------------------------------------------------
# stages
# ---------------------------------------------------------------------------------------------------------------------


class SubStage:
    """pattern.sub(repl, text): scan left to right; at each position try the pattern (leftmost-first); a match is replaced by repl(match),
    otherwise the character is copied."""

    def __init__(self, matcher: Matcher, repl: Any, desc: str):
        self.matcher, self.repl, self.desc = matcher, repl, desc

    def scan(self, subj: Subject) -> Tuple[int, List[tuple]]:
        i, out = 0, []
        while i < subj.n:
            r = self.matcher.match(subj, i)
            if r is None:
                out.append(subj.atom(i))
                i += 1
                continue
            end, groups = r
            if end <= i:
                raise AnalysisError(f'{self.desc}: empty match; not modelled')
            out += self.repl.apply(MatchV(subj, i, end, groups, self.matcher))
            i = end
        return i, out


class CodecStage:
    """text.encode(E).decode('unicode_escape'), modelled natively from the codec's documentation: ASCII characters other than the
    backslash are copied; \\xHH \\uHHHH \\UHHHHHHHH are the numbered characters; \\\\ \\' \\" \\a \\b \\f \\n \\r \\t \\v the usual ones;
    \\<newline> is dropped; up to three octal digits; an unknown escape is kept as it is (backslash and character, DeprecationWarning);
    a truncated escape or a trailing backslash raises.  Non-ASCII input characters are first turned into the bytes of E and then read as
    Latin-1 (utf-8: mojibake; latin-1: characters up to U+00FF survive; ascii: UnicodeEncodeError)."""

    SIMPLE = {'\\': '\\', "'": "'", '"': '"', 'a': '\a', 'b': '\b', 'f': '\f', 'n': '\n', 'r': '\r', 't': '\t', 'v': '\v'}
    # encodings that turn every non-ASCII character into a numeric escape (or its Latin-1 byte): it survives the round through the decoder
    KEEPS_NON_ASCII = ('ascii+backslashreplace', 'latin1+backslashreplace', 'rawunicodeescape')

    def __init__(self, enc: str, desc: str):
        self.enc, self.desc = enc, desc
        self.notes: List[str] = []

    def scan(self, subj: Subject) -> Tuple[int, List[tuple]]:
        i, out = 0, []
        n = subj.n
        one = R.CharSet.of
        while i < n:
            if not subj.test(i, ASCII):
                if self.enc in self.KEEPS_NON_ASCII:
                    # the character is written as \xNN / \uNNNN / \UNNNNNNNN (or as its Latin-1 byte) by the encoding step and read back by the decoder
                    out.append(subj.atom(i))
                elif self.enc == 'latin1' and subj.test(i, R.CharSet([(0x80, 0xFF)])):
                    out.append(subj.atom(i))
                elif self.enc == 'utf8':
                    out.append(('bad', 'the UTF-8 bytes of the character read as Latin-1'))
                else:
                    raise PyRaise('UnicodeEncodeError', f'the character cannot be encoded as {self.enc}')
                i += 1
                continue
            if not subj.test(i, one('\\')):
                out.append(subj.atom(i))
                i += 1
                continue
            if subj.at_end(i + 1):
                raise PyRaise('UnicodeDecodeError', '\\ at end of string')
            done = False
            for intro, w in (('x', 2), ('u', 4), ('U', 8)):
                if subj.test(i + 1, one(intro)):
                    for j in range(w):
                        if subj.at_end(i + 2 + j) or not subj.test(i + 2 + j, HEXDIG):
                            raise PyRaise('UnicodeDecodeError', f'truncated \\{intro}{"X" * w} escape')
                    digs = [subj.atom(i + 2 + j) for j in range(w)]
                    if w == 8 and not subj.store.unit.is_cp(digs):
                        if not all(d[0] == 'c' for d in digs):
                            raise AnalysisError(f'{self.desc}: \\U escape whose value may exceed U+10FFFF; not modelled')
                        if int(''.join(d[1] for d in digs), 16) > R.MAXCP:
                            raise PyRaise('UnicodeDecodeError', 'illegal Unicode character')
                    out.append(('chr', tuple(digs)))
                    i += 2 + w
                    done = True
                    break
            if done:
                continue
            if subj.test(i + 1, R.CharSet.of('01234567')):
                raise AnalysisError(f'{self.desc}: an octal escape can arise; not modelled')
            if subj.test(i + 1, one('N')):
                raise AnalysisError(f'{self.desc}: a \\N{{name}} escape can arise; not modelled')
            if subj.test(i + 1, one('\n')):
                i += 2
                continue
            hit = None
            for c, img in self.SIMPLE.items():
                if subj.test(i + 1, one(c)):
                    hit = img
                    break
            if hit is not None:
                out.append(('c', hit))
                i += 2
                continue
            # unknown escape: the backslash stays, the next character is then read as an ordinary one
            if self.enc in self.KEEPS_NON_ASCII and not subj.at_end(i + 1) and not subj.test(i + 1, ASCII):
                raise AnalysisError(f'{self.desc}: a backslash in front of a non-ASCII character (the encoding step writes that character as an escape of its own); not modelled')
            if 'unknown escape kept' not in self.notes:
                self.notes.append('unknown escape kept')
            out.append(('c', '\\'))
            i += 1
        return i, out


class IdentityStage:
    def __init__(self, desc: str):
        self.desc = desc

    def scan(self, subj: Subject) -> Tuple[int, List[tuple]]:
        return subj.n, list(subj.text)


# ---------------------------------------------------------------------------------------------------------------------
# decoders written as a character loop (index scanner or state machine)
# ---------------------------------------------------------------------------------------------------------------------


class SubjStr:
    """The decoder's parameter inside a loop decoder: the symbolic text of the unit followed by its continuation."""
    __slots__ = ()


class SLen:
    """len(<the parameter>) + c."""
    __slots__ = ('c',)

    def __init__(self, c: int = 0):
        self.c = c

    def __eq__(self, o: object) -> bool:
        return isinstance(o, SLen) and o.c == self.c

    def __hash__(self) -> int:
        return hash(('SLen', self.c))


class _Continue(Exception):
    pass


class LoopEval(PyCallback):
    """Abstract execution of `<initialisations>; while/for ...: <body>; return <accumulator>` over a symbolic text.  Integers (the scan
    position) are concrete; characters are symbolic; whether a position exists past the unit's end is a case split (END).  The loop is
    followed from the start of the unit until an iteration boundary at or after the unit's end where every loop-carried variable has its
    initial value again: from there on the scan of the following text is the scan of a fresh text (alignment)."""

    MAX_EXTRA = 12

    def __init__(self, m: pf.Module, fn: pf.FuncDef, param: str, pre: List[ast.stmt], loop: ast.stmt, post: List[ast.stmt], ret: ast.AST, where: str):
        self.m, self.outer, self.node, self.where = m, None, fn, where
        self.fn = fn
        self.param = param
        self.pre, self.loop, self.post, self.ret = pre, loop, post, ret
        self.subj = None
        self.steps = 0
        self.depth = 0
        self.codec_units = None
        self.consts = {}
        self.desc = f'the character loop of {fn.name}'
        # the accumulator named by the return expression
        r = ret
        self.acc_kind, self.acc = '', ''
        if isinstance(r, ast.Call) and isinstance(r.func, ast.Attribute) and r.func.attr == 'join' and pf.const_str(r.func.value) == '' and len(r.args) == 1 \
                and isinstance(r.args[0], ast.Name) and not r.keywords:
            self.acc_kind, self.acc = 'list', r.args[0].id
        elif isinstance(r, ast.Call) and isinstance(r.func, ast.Attribute) and r.func.attr == 'getvalue' and isinstance(r.func.value, ast.Name) and not r.args:
            self.acc_kind, self.acc = 'sio', r.func.value.id
        elif isinstance(r, ast.Name):
            self.acc_kind, self.acc = 'str', r.id
        else:
            raise AnalysisError(f'{where}: unrecognised body (the loop decoder returns `{pf.nsrc(r)[:50]}`, not an accumulator)')
        self.posvars: List[str] = []
        self.loopvars: List[str] = []

    def fail(self, e: ast.AST, what: str = 'construct') -> Any:
        raise AnalysisError(f'{self.where}: {what} `{pf.nsrc(e)[:70]}` of the loop decoder is not in the table of modelled operations')

    # ---- values specific to the loop form
    def lookup(self, name: str, e: ast.AST) -> Any:
        nd = _nested_def(self.fn, name)
        if nd is not None:
            return ('func', nd)
        if name in pf.assignments(self.fn):
            self.fail(e, f'use of the local {name} before it is bound in')
        return super().lookup(name, e)

    def exists(self, i: int) -> bool:
        """Position i of the text exists (i < len(s))."""
        assert self.subj is not None
        if i < 0:
            return True
        if i < self.subj.n:
            return True
        return not self.subj.at_end(i)

    def len_cmp(self, op: ast.cmpop, left: Any, right: Any, e: ast.AST) -> bool:
        flip = {ast.Lt: ast.Gt, ast.LtE: ast.GtE, ast.Gt: ast.Lt, ast.GtE: ast.LtE, ast.Eq: ast.Eq, ast.NotEq: ast.NotEq}
        t = type(op)
        if t not in flip:
            self.fail(e, 'comparison')
        if isinstance(left, SLen) and isinstance(right, SLen):
            d = left.c - right.c
            return {ast.Lt: d < 0, ast.LtE: d <= 0, ast.Gt: d > 0, ast.GtE: d >= 0, ast.Eq: d == 0, ast.NotEq: d != 0}[t]
        if isinstance(left, SLen):
            left, right, t = right, left, flip[t]
        if not isinstance(left, int) or isinstance(left, bool):
            self.fail(e, 'comparison with the length in')
        # left  t  len + c      <=>   (left - c)  t  len
        x = left - right.c
        if t is ast.Lt:      # x < len  <=> position x exists
            return self.exists(x)
        if t is ast.LtE:     # x <= len <=> position x-1 exists (or x <= 0)
            return x <= 0 or self.exists(x - 1)
        if t is ast.Gt:      # x > len  <=> not (x <= len)
            return not (x <= 0 or self.exists(x - 1))
        if t is ast.GtE:     # x >= len <=> not (x < len)
            return not self.exists(x)
        if t is ast.Eq:      # x == len <=> position x-1 exists and position x does not
            return (x <= 0 or self.exists(x - 1)) and not self.exists(x) if x >= 0 else False
        return not ((x <= 0 or self.exists(x - 1)) and not self.exists(x)) if x >= 0 else True

    def ev(self, e: ast.AST, env: Dict[str, Any]) -> Any:
        if isinstance(e, ast.Compare) and len(e.ops) == 1:
            left = self.ev(e.left, env)
            right = self.ev(e.comparators[0], env)
            if isinstance(left, SLen) or isinstance(right, SLen):
                return self.len_cmp(e.ops[0], left, right, e)
            if any(isinstance(n, ast.Name) and n.id in self.posvars + self.loopvars[1:] for n in ast.walk(e)):
                self.fail(e, 'test of the ABSOLUTE position (the scan of a unit must not depend on where it starts) in')
            return self._cmp_values(e, [left, right])
        if isinstance(e, ast.BinOp) and isinstance(e.op, (ast.Add, ast.Sub)):
            a, b = self.ev(e.left, env), self.ev(e.right, env)
            sign = 1 if isinstance(e.op, ast.Add) else -1
            if isinstance(a, SLen) and isinstance(b, int) and not isinstance(b, bool):
                return SLen(a.c + sign * b)
            if isinstance(b, SLen) and isinstance(a, int) and not isinstance(a, bool) and sign == 1:
                return SLen(b.c + a)
            if isinstance(a, int) and isinstance(b, int) and not isinstance(a, bool) and not isinstance(b, bool):
                return a + sign * b
            if sign == 1 and isinstance(a, (str, SStr)) and isinstance(b, (str, SStr)):
                return SStr(list(SStr.of(a).atoms) + list(SStr.of(b).atoms))
            if sign == 1 and isinstance(a, list) and isinstance(b, list):
                return a + b
            self.fail(e, 'arithmetic')
        if isinstance(e, ast.List):
            return [self.ev(x, env) for x in e.elts]
        if isinstance(e, ast.Subscript):
            base = self.ev(e.value, env)
            if isinstance(base, SubjStr):
                assert self.subj is not None
                if isinstance(e.slice, ast.Slice):
                    if e.slice.step is not None:
                        self.fail(e, 'slice with a step in')
                    lo = 0 if e.slice.lower is None else self.ev(e.slice.lower, env)
                    hi = None if e.slice.upper is None else self.ev(e.slice.upper, env)
                    if not isinstance(lo, int) or isinstance(lo, bool) or lo < 0 or hi is None or not isinstance(hi, int) or isinstance(hi, bool) or hi < 0:
                        self.fail(e, 'slice bounds (only s[a:b] with known non-negative bounds) in')
                    out = []
                    for i in range(lo, hi):
                        if not self.exists(i):
                            break
                        out.append(self.subj.atom(i))
                    return SStr(out)
                i = self.ev(e.slice, env)
                if not isinstance(i, int) or isinstance(i, bool) or i < 0:
                    self.fail(e, 'index (only a known non-negative position) in')
                if not self.exists(i):
                    raise PyRaise('IndexError', 'string index out of range')
                return SStr([self.subj.atom(i)])
        if isinstance(e, ast.Call) and isinstance(e.func, ast.Name) and e.func.id == 'len' and len(e.args) == 1 and not e.keywords:
            v = self.ev(e.args[0], env)
            if isinstance(v, SubjStr):
                if sp.module_bindings(self.m, 'len'):
                    self.fail(e, 'rebound builtin len in')
                return SLen(0)
            if isinstance(v, list):
                return len(v)
        if isinstance(e, ast.Call) and isinstance(e.func, ast.Name) and e.func.id == 'StringIO' and not e.args and not e.keywords \
                and sp.imports_of(self.m).get('StringIO') == 'io.StringIO' and 'StringIO' not in env:
            return ['<sio>']
        if isinstance(e, ast.Call) and isinstance(e.func, ast.Attribute) and pf.dotted(e.func) == 'io.StringIO' and not e.args and not e.keywords \
                and sp.imports_of(self.m).get('io') == 'io' and 'io' not in env:
            return ['<sio>']
        if isinstance(e, ast.Dict):
            return self.static_value(e, e)
        if isinstance(e, ast.Call) and isinstance(e.func, ast.Attribute) and e.func.attr == 'join' and len(e.args) == 1 and not e.keywords:
            sep = self.ev(e.func.value, env)
            seq = self.ev(e.args[0], env)
            if sep == '' and isinstance(seq, list) and all(isinstance(x, (str, SStr)) for x in seq):
                out2: List[tuple] = []
                for x in seq:
                    out2 += list(SStr.of(x).atoms)
                return SStr(out2)
        return super().ev(e, env)

    def _cmp_values(self, e: ast.Compare, vals: List[Any]) -> Any:
        """A two-operand comparison with already evaluated operands (the generic evaluator re-evaluates; avoid double evaluation)."""
        left, right = vals
        op = e.ops[0]
        if isinstance(left, SOrd) or isinstance(right, SOrd):
            return self.ord_cmp(op, left, right, e)
        if isinstance(op, (ast.Eq, ast.NotEq)):
            if isinstance(left, list) or isinstance(right, list):
                r = left == right
            else:
                r = self.str_eq(left, right, e)
            return r if isinstance(op, ast.Eq) else not r
        if isinstance(op, (ast.Is, ast.IsNot)):
            if right is not None and left is not None and not isinstance(right, bool) and not isinstance(left, bool):
                self.fail(e, 'identity comparison')
            return (left is right) if isinstance(op, ast.Is) else (left is not right)
        if isinstance(op, (ast.In, ast.NotIn)):
            r = self.contains(left, right, e)
            return r if isinstance(op, ast.In) else not r
        if isinstance(left, int) and isinstance(right, int):
            return {ast.Lt: left < right, ast.LtE: left <= right, ast.Gt: left > right, ast.GtE: left >= right}[type(op)]
        self.fail(e, 'comparison')

    def truth(self, v: Any, e: ast.AST) -> bool:
        if isinstance(v, list):
            return bool(v) if v != ['<sio>'] else True
        return super().truth(v, e)

    # ---- statements
    def run(self, stmts: Sequence[ast.stmt], env: Dict[str, Any]) -> None:
        for st in stmts:
            self.steps += 1
            if self.steps > 4000:
                raise AnalysisError(f'{self.where}: evaluation budget of the loop decoder exceeded')
            if isinstance(st, ast.AugAssign) and isinstance(st.op, ast.Add) and isinstance(st.target, ast.Name):
                cur = env.get(st.target.id, None)
                if st.target.id not in env:
                    self.fail(st, 'augmented assignment to an unbound name in')
                v = self.ev(st.value, env)
                if isinstance(cur, int) and not isinstance(cur, bool) and isinstance(v, int) and not isinstance(v, bool):
                    env[st.target.id] = cur + v
                elif isinstance(cur, (str, SStr)) and isinstance(v, (str, SStr)):
                    env[st.target.id] = SStr(list(SStr.of(cur).atoms) + list(SStr.of(v).atoms))
                elif isinstance(cur, list) and isinstance(v, list) and cur[:1] != ['<sio>']:
                    env[st.target.id] = cur + v
                else:
                    self.fail(st, 'augmented assignment')
                continue
            if isinstance(st, ast.AugAssign) and isinstance(st.op, ast.Sub) and isinstance(st.target, ast.Name) and isinstance(env.get(st.target.id), int):
                v = self.ev(st.value, env)
                if not isinstance(v, int) or isinstance(v, bool):
                    self.fail(st, 'augmented assignment')
                env[st.target.id] = env[st.target.id] - v
                continue
            if isinstance(st, ast.Expr) and isinstance(st.value, ast.Call) and isinstance(st.value.func, ast.Attribute) and isinstance(st.value.func.value, ast.Name) \
                    and not st.value.keywords:
                tgt = st.value.func.value.id
                cur = env.get(tgt)
                meth = st.value.func.attr
                if isinstance(cur, list) and meth in ('append', 'write') and len(st.value.args) == 1:
                    v = self.ev(st.value.args[0], env)
                    if not isinstance(v, (str, SStr)):
                        self.fail(st, 'appended value (not a string) in')
                    if (meth == 'write') != (cur[:1] == ['<sio>']):
                        self.fail(st, 'method of the accumulator in')
                    env[tgt] = cur + [v]
                    continue
                if isinstance(cur, list) and meth == 'extend' and len(st.value.args) == 1 and cur[:1] != ['<sio>']:
                    v = self.ev(st.value.args[0], env)
                    if isinstance(v, (str, SStr)):
                        v = [SStr([a]) for a in SStr.of(v).atoms]
                    if not isinstance(v, list):
                        self.fail(st, 'extended value in')
                    env[tgt] = cur + v
                    continue
                if isinstance(cur, list) and meth == 'clear' and not st.value.args and cur[:1] != ['<sio>']:
                    env[tgt] = []
                    continue
                if isinstance(cur, list) and meth == 'close' and not st.value.args:
                    continue
                self.fail(st, 'statement')
            if isinstance(st, ast.Continue):
                raise _Continue()
            if isinstance(st, ast.Assign) and len(st.targets) == 1 and isinstance(st.targets[0], ast.Name):
                env[st.targets[0].id] = self.ev(st.value, env)
                continue
            if isinstance(st, (ast.While, ast.For)):
                self.fail(st, 'nested loop')
            super().run([st], env)

    # ---- the loop
    @staticmethod
    def _upward_exposed(stmts: Sequence[ast.stmt], assigned: set, exposed: set) -> set:
        """Names that may be read before they are written when `stmts` run with `assigned` already written (collected into `exposed`);
        returns the names definitely written afterwards."""
        def loads(e: Optional[ast.AST]) -> None:
            if e is None:
                return
            for n in ast.walk(e):
                if isinstance(n, ast.Name) and isinstance(n.ctx, ast.Load) and n.id not in assigned:
                    exposed.add(n.id)
        assigned = set(assigned)
        for st in stmts:
            if isinstance(st, ast.Assign):
                loads(st.value)
                for t in st.targets:
                    for n in ast.walk(t):
                        if isinstance(n, ast.Name) and isinstance(n.ctx, ast.Store):
                            assigned.add(n.id)
                        elif isinstance(n, ast.Name):
                            loads(n)
            elif isinstance(st, ast.AugAssign):
                loads(st.value)
                if isinstance(st.target, ast.Name):
                    if st.target.id not in assigned:
                        exposed.add(st.target.id)
                else:
                    loads(st.target)
            elif isinstance(st, ast.If):
                loads(st.test)
                a = LoopEval._upward_exposed(st.body, assigned, exposed)
                b = LoopEval._upward_exposed(st.orelse, assigned, exposed)
                assigned = a & b
            elif isinstance(st, ast.Try):
                LoopEval._upward_exposed(st.body, assigned, exposed)
                for h in st.handlers:
                    LoopEval._upward_exposed(h.body, assigned, exposed)
            elif isinstance(st, (ast.Continue, ast.Pass)):
                continue
            else:
                loads(st)
        return assigned

    def _live_at_head(self) -> set:
        exposed: set = set()
        loop = self.loop
        if isinstance(loop, ast.While):
            self._upward_exposed([ast.Expr(value=loop.test)], set(), exposed)
            self._upward_exposed(loop.body, set(), exposed)
        else:
            self._upward_exposed(loop.body, set(self.loopvars), exposed)  # type: ignore[union-attr]
        return exposed

    def _state(self, env: Dict[str, Any]) -> Dict[str, Any]:
        skip = {self.param, self.acc} | set(self.posvars) | set(self.loopvars)
        live = self._live
        out = {}
        for k, v in env.items():
            if k in skip or k not in live:
                continue
            out[k] = tuple(v.atoms) if isinstance(v, SStr) else (tuple(tuple(x.atoms) if isinstance(x, SStr) else x for x in v) if isinstance(v, list) else v)
        return out

    def acc_atoms(self, env: Dict[str, Any]) -> List[tuple]:
        v = env.get(self.acc)
        if self.acc_kind == 'str':
            if not isinstance(v, (str, SStr)):
                raise AnalysisError(f'{self.where}: the accumulator {self.acc} is not a string')
            return list(SStr.of(v).atoms)
        if not isinstance(v, list) or (self.acc_kind == 'sio') != (v[:1] == ['<sio>']):
            raise AnalysisError(f'{self.where}: the accumulator {self.acc} is not the kind the return expression needs')
        out: List[tuple] = []
        for x in (v[1:] if self.acc_kind == 'sio' else v):
            if not isinstance(x, (str, SStr)):
                raise AnalysisError(f'{self.where}: the accumulator {self.acc} holds a non-string')
            out += list(SStr.of(x).atoms)
        return out

    def scan(self, subj: Subject) -> Tuple[int, List[tuple]]:
        self.subj = subj
        self.steps = 0
        env: Dict[str, Any] = {self.param: SubjStr()}
        self.loopvars: List[str] = []
        self.run(self.pre, env)
        if self.acc not in env:
            raise AnalysisError(f'{self.where}: the accumulator {self.acc} is not initialised in front of the loop')
        loop = self.loop
        idxvar = None
        if isinstance(loop, ast.For):
            it, tgt = loop.iter, loop.target
            if isinstance(it, ast.Name) and it.id == self.param and isinstance(tgt, ast.Name):
                chvar = tgt.id
            elif isinstance(it, ast.Call) and pf.dotted(it.func) == 'enumerate' and len(it.args) == 1 and not it.keywords and isinstance(it.args[0], ast.Name) \
                    and it.args[0].id == self.param and isinstance(tgt, ast.Tuple) and len(tgt.elts) == 2 and all(isinstance(x, ast.Name) for x in tgt.elts):
                idxvar, chvar = tgt.elts[0].id, tgt.elts[1].id  # type: ignore[union-attr]
            else:
                raise AnalysisError(f'{self.where}: unrecognised body (loop `for {pf.nsrc(tgt)} in {pf.nsrc(it)[:30]}` is not over the characters of the parameter)')
            if loop.orelse:
                raise AnalysisError(f'{self.where}: unrecognised body (for-else)')
            self.loopvars = [chvar] + ([idxvar] if idxvar else [])
        elif loop.orelse:  # type: ignore[union-attr]
            raise AnalysisError(f'{self.where}: unrecognised body (while-else)')
        for n in ast.walk(loop):
            if isinstance(n, (ast.Break, ast.Return, ast.Yield, ast.YieldFrom, ast.Await)):
                raise AnalysisError(f'{self.where}: unrecognised body (`{type(n).__name__.lower()}` inside the loop is not modelled)')
        self.posvars = []
        if isinstance(loop, ast.While):
            for n in ast.walk(loop.test):
                if isinstance(n, ast.Name) and n.id != self.param and isinstance(n.ctx, ast.Load) and isinstance(env.get(n.id), int) \
                        and not isinstance(env.get(n.id), bool) and n.id not in self.posvars:
                    self.posvars.append(n.id)
        self._live = self._live_at_head()
        init = self._state(env)
        pos = 0
        ended = False
        for _round in range(subj.n + self.MAX_EXTRA + 2):
            # iteration boundary
            if isinstance(loop, ast.While):
                pvals = [env.get(v) for v in self.posvars]
                if len(self.posvars) != 1 or not isinstance(pvals[0], int) or isinstance(pvals[0], bool):
                    raise AnalysisError(f'{self.where}: unrecognised body (the while condition does not compare ONE position variable with the length)')
                pos = pvals[0]
            if pos >= subj.n and self._state(env) == init:
                return pos, self.acc_atoms(env)
            if pos > subj.n + self.MAX_EXTRA:
                break
            if isinstance(loop, ast.While):
                if not self.truth(self.ev(loop.test, env), loop.test):
                    ended = True
                    break
            else:
                if not self.exists(pos):
                    ended = True
                    break
                env[self.loopvars[0]] = SStr([subj.atom(pos)])
                if idxvar:
                    env[idxvar] = pos
            try:
                self.run(loop.body, env)  # type: ignore[union-attr]
            except _Continue:
                pass
            if isinstance(loop, ast.For):
                pos += 1
        if not ended:
            raise AnalysisError(f'{self.where}: the loop does not come back to its initial state within {self.MAX_EXTRA} characters after the unit; not decided')
        # the text ended inside / right after the unit with loop state pending: the statements after the loop finish the job
        self.run(self.post, env)
        # the loop ran to the end of the text: it consumed the unit and every continuation character that exists in this case
        k = 0
        while self._known_existing(subj, subj.n + k) and k <= self.MAX_EXTRA + 2:
            k += 1
        return subj.n + k, self.acc_atoms(env)

    def _known_existing(self, subj: Subject, i: int) -> bool:
        v = subj.store.vals.get(('k', subj.stage, i - subj.n))
        if v is None or v == END:
            return False
        for j in range(i - subj.n):
            if subj.store.vals.get(('k', subj.stage, j)) == END:
                return False
        return True


# ---------------------------------------------------------------------------------------------------------------------
# recognising the decoder
# ---------------------------------------------------------------------------------------------------------------------


def _function_body_return(m: pf.Module, fn: pf.FuncDef, param: str, early: List[ast.If]) -> ast.AST:
    """The returned expression of a function that is straight-line code: nested defs, single-assignment locals, early exits
    `if <test>: return <the parameter>` (collected in `early`, in order) and one final return."""
    ret = None
    for st in fn.body:
        if isinstance(st, ast.Expr) and isinstance(st.value, ast.Constant):
            continue
        if isinstance(st, ast.FunctionDef) and ret is None:
            continue
        if isinstance(st, ast.Assign) and len(st.targets) == 1 and isinstance(st.targets[0], ast.Name) and pf.single_def(fn, st.targets[0].id) is st.value and ret is None:
            continue
        if isinstance(st, ast.If) and ret is None and not st.orelse and len(st.body) == 1 and isinstance(st.body[0], ast.Return) \
                and isinstance(st.body[0].value, ast.Name) and st.body[0].value.id == param:
            early.append(st)
            continue
        if isinstance(st, ast.Return) and st.value is not None and ret is None:
            ret = st
            continue
        raise AnalysisError(f'{m.rel}::{fn.name}: unrecognised body (statement `{pf.nsrc(st)[:60]}`): not straight-line code ending in one `return`')
    if ret is None:
        raise AnalysisError(f'{m.rel}::{fn.name}: unrecognised body (no return)')
    return ret.value  # type: ignore[return-value]


def _nested_def(fn: pf.FuncDef, name: str) -> Optional[ast.FunctionDef]:
    hits = [st for st in fn.body if isinstance(st, ast.FunctionDef) and st.name == name]
    if len(hits) == 1 and name not in pf.assignments(fn):
        return hits[0]
    return None


def _callback(m: pf.Module, fn: pf.FuncDef, e: ast.AST, where: str) -> Any:
    """The replacement argument of a substitution: a template string, a lambda, a nested def or a module-level function."""
    try:
        s = sp.const_string(m, fn, e)
    except AnalysisError:
        s = None
    if s is not None:
        return TemplateRepl(s, where)
    if isinstance(e, ast.Lambda):
        return PyCallback(m, fn, e, where)
    if isinstance(e, ast.Name):
        nd = _nested_def(fn, e.id)
        if nd is not None:
            return PyCallback(m, fn, nd, where)
        if e.id in pf.assignments(fn):
            d = pf.single_def(fn, e.id)
            if isinstance(d, ast.Lambda):
                return PyCallback(m, fn, d, where)
            raise AnalysisError(f'{where}: replacement `{e.id}` is not a function defined once')
        b = sp.module_bindings(m, e.id)
        if len(b) == 1 and isinstance(b[0], ast.FunctionDef):
            return PyCallback(m, None, b[0], where)
        if len(b) == 1 and isinstance(b[0], ast.Lambda):
            return PyCallback(m, None, b[0], where)
    raise AnalysisError(f'{where}: replacement `{pf.nsrc(e)[:60]}` is not a template string, a lambda or a function of this module')


def decoder_stages(m: pf.Module, fn: pf.FuncDef, early: Optional[List[ast.If]] = None) -> Tuple[List[Any], List[tuple]]:
    """(stages, operation summary) of a one-parameter decoder `return <chain over the parameter>`, innermost operation first.  Early exits
    `if <test on the parameter>: return <the parameter>` in front of it are appended to `early` (the caller decides them on languages);
    without that list they are not accepted."""
    a = fn.args
    params = [x.arg for x in a.posonlyargs + a.args]
    if len(params) != 1 or a.vararg or a.kwarg or a.kwonlyargs or fn.decorator_list:
        raise AnalysisError(f'{m.rel}::{fn.name}: expected one parameter')
    param = params[0]
    for n in pf.walk_shallow(fn):
        if isinstance(n, ast.Name) and isinstance(n.ctx, (ast.Store, ast.Del)) and n.id == param:
            raise AnalysisError(f'{m.rel}::{fn.name}: the parameter is rebound')
    where = f'{m.rel}::{fn.name}'
    found: List[ast.If] = []
    try:
        cur = _function_body_return(m, fn, param, found)
    except AnalysisError as first:
        loops = [st for st in fn.body if isinstance(st, (ast.While, ast.For))]
        if len(loops) != 1 or not isinstance(fn.body[-1], ast.Return) or fn.body[-1].value is None:
            raise first
        k = fn.body.index(loops[0])
        pre: List[ast.stmt] = []
        found = []
        for st in fn.body[:k]:
            if isinstance(st, ast.Expr) and isinstance(st.value, ast.Constant) or isinstance(st, ast.FunctionDef):
                continue
            if isinstance(st, ast.If) and not st.orelse and len(st.body) == 1 and isinstance(st.body[0], ast.Return) and isinstance(st.body[0].value, ast.Name) \
                    and st.body[0].value.id == param and not pre:
                found.append(st)
                continue
            if not isinstance(st, ast.Assign):
                raise first
            pre.append(st)
        if found and early is None:
            raise first
        if early is not None:
            early += found
        stage = LoopEval(m, fn, param, pre, loops[0], list(fn.body[k + 1:-1]), fn.body[-1].value, where)
        return [stage], [('loop', type(loops[0]).__name__.lower(), pf.nsrc(loops[0].test if isinstance(loops[0], ast.While) else loops[0].iter)[:60])]
    if found and early is None:
        raise AnalysisError(f'{where}: unrecognised body (early exit `{pf.nsrc(found[0].test)[:50]}`)')
    if early is not None:
        early += found
    ops: List[tuple] = []   # outermost first while walking
    mods, funcs = sp._re_module_names(m)
    guard = 0
    fn_c, param_c = fn, param            # the function whose body is being read (helpers are inlined)
    stack: List[Tuple[pf.FuncDef, str, ast.AST]] = []
    while True:
        guard += 1
        if guard > 40:
            raise AnalysisError(f'{where}: unrecognised body (chain too long)')
        if isinstance(cur, ast.Name):
            if cur.id == param_c:
                if not stack:
                    break
                fn_c, param_c, cur = stack.pop()
                continue
            if cur.id in pf.assignments(fn_c):
                d = pf.single_def(fn_c, cur.id)
                if d is not None and isinstance(d, ast.expr):
                    cur = d
                    continue
            raise AnalysisError(f'{where}: unrecognised body (`{cur.id}` is not the parameter or a single-assignment local)')
        if isinstance(cur, ast.Call):
            f = cur.func
            d = pf.dotted(f)
            kw = {k.arg: k.value for k in cur.keywords}
            # re.sub(pattern, repl, string[, count, flags])
            if (isinstance(f, ast.Attribute) and isinstance(f.value, ast.Name) and f.value.id in mods and f.attr == 'sub') or \
                    (isinstance(f, ast.Name) and funcs.get(f.id) == 'sub' and f.id not in pf.assignments(fn_c)):
                args = list(cur.args)
                if None in kw or not set(kw) <= {'flags'} or len(args) not in (3,):
                    raise AnalysisError(f'{where}: unrecognised body (`{pf.nsrc(cur)[:60]}`: re.sub with count / keyword arguments is not modelled)')
                try:
                    rd = sp.resolve_regex(m, fn_c, args[0])
                    if 'flags' in kw:
                        raise AnalysisError(f'{where}: flags together with a compiled pattern')
                    pattern, flags = rd.pattern, rd.flags
                except AnalysisError:
                    pattern, flags = sp.const_string(m, fn_c, args[0]), sp.flags_value(m, kw.get('flags'))
                ops.append(('sub', pattern, flags, args[1], pf.nsrc(cur)[:80], fn_c))
                cur = args[2]
                continue
            # P.sub(repl, string)
            if isinstance(f, ast.Attribute) and f.attr == 'sub' and len(cur.args) == 2 and not kw:
                rd = sp.resolve_regex(m, fn_c, f.value)
                ops.append(('sub', rd.pattern, rd.flags, cur.args[0], pf.nsrc(cur)[:80], fn_c))
                cur = cur.args[1]
                continue
            if isinstance(f, ast.Attribute) and f.attr == 'replace' and len(cur.args) == 2 and not kw:
                ops.append(('replace', sp.const_string(m, fn_c, cur.args[0]), sp.const_string(m, fn_c, cur.args[1])))
                cur = f.value
                continue
            if isinstance(f, ast.Attribute) and f.attr in ('encode', 'decode') and len(cur.args) <= 1 and not kw and d not in ('codecs.encode', 'codecs.decode'):
                ops.append((f.attr, _norm_codec(sp.const_string(m, fn_c, cur.args[0]) if cur.args else 'utf-8')))
                cur = f.value
                continue
            if isinstance(f, ast.Attribute) and f.attr == 'encode' and d != 'codecs.encode' and 1 <= len(cur.args) + len(kw) <= 2 and set(kw) <= {'encoding', 'errors'} \
                    and len(cur.args) <= 2:
                enc_e = cur.args[0] if cur.args else kw.get('encoding')
                err_e = cur.args[1] if len(cur.args) == 2 else kw.get('errors')
                enc_s = _norm_codec(sp.const_string(m, fn_c, enc_e)) if enc_e is not None else 'utf8'
                err_s = sp.const_string(m, fn_c, err_e) if err_e is not None else 'strict'
                if err_s not in ('strict', 'backslashreplace'):
                    raise AnalysisError(f'{where}: unrecognised body (error handler {err_s!r} of `{pf.nsrc(cur)[:50]}` is not modelled)')
                ops.append(('encode', enc_s + ('+backslashreplace' if err_s == 'backslashreplace' and enc_s in ('ascii', 'latin1') else '')))
                cur = f.value
                continue
            if d in ('bytes', 'str') and len(cur.args) == 2 and not kw and not sp.module_bindings(m, d):
                ops.append(('encode' if d == 'bytes' else 'decode', _norm_codec(sp.const_string(m, fn_c, cur.args[1]))))
                cur = cur.args[0]
                continue
            if d in ('codecs.encode', 'codecs.decode') and sp.imports_of(m).get('codecs') == 'codecs' and len(cur.args) == 2 and not kw:
                ops.append((d.split('.')[1], _norm_codec(sp.const_string(m, fn_c, cur.args[1]))))
                cur = cur.args[0]
                continue
            if d == 'str' and len(cur.args) == 1 and not kw:
                cur = cur.args[0]
                continue
            # a helper of this module with one parameter whose body is itself a chain: inlined
            if isinstance(f, ast.Name) and len(cur.args) == 1 and not kw and f.id not in pf.assignments(fn_c) and len(stack) < 3:
                hb = sp.module_bindings(m, f.id)
                if len(hb) == 1 and isinstance(hb[0], ast.FunctionDef) and not hb[0].decorator_list:
                    h = hb[0]
                    ha = h.args
                    hp = [x.arg for x in ha.posonlyargs + ha.args]
                    if len(hp) == 1 and not ha.vararg and not ha.kwarg and not ha.kwonlyargs and h is not fn_c and all(h is not x[0] for x in stack):
                        for n in pf.walk_shallow(h):
                            if isinstance(n, ast.Name) and isinstance(n.ctx, (ast.Store, ast.Del)) and n.id == hp[0]:
                                raise AnalysisError(f'{where}: unrecognised body (the helper {h.name} rebinds its parameter)')
                        none_early: List[ast.If] = []
                        hret = _function_body_return(m, h, hp[0], none_early)
                        if none_early:
                            raise AnalysisError(f'{where}: unrecognised body (early exit inside the helper {h.name})')
                        stack.append((fn_c, param_c, cur.args[0]))
                        fn_c, param_c, cur = h, hp[0], hret
                        continue
        raise AnalysisError(f'{where}: unrecognised body (unrecognised string operation `{pf.nsrc(cur)[:60]}`)')
    ops.reverse()
    stages: List[Any] = []
    summary: List[tuple] = []
    i = 0
    while i < len(ops):
        op = ops[i]
        if op[0] == 'replace':
            if not op[1]:
                raise AnalysisError(f'{where}: .replace of the empty string; not modelled')
            import re as _re
            stages.append(SubStage(Matcher(_re.escape(op[1]), 0, where), TemplateRepl(op[2].replace('\\', '\\\\'), where), f'.replace({op[1]!r}, {op[2]!r})'))
            summary.append(op)
            i += 1
        elif op[0] == 'sub':
            stages.append(SubStage(Matcher(op[1], op[2], where), _callback(m, op[5], op[3], where), f'`{op[4]}` (pattern {op[1]!r})'))
            summary.append(('sub', op[1], op[2]))
            i += 1
        elif op[0] == 'encode' and i + 1 < len(ops) and ops[i + 1][0] == 'decode':
            enc, dec = op[1], ops[i + 1][1]
            if dec == 'unicodeescape' and enc in ('utf8', 'ascii', 'latin1') + CodecStage.KEEPS_NON_ASCII:
                stages.append(CodecStage(enc, f'.encode({enc!r}).decode(\'unicode_escape\')'))
            elif dec == enc == 'utf8':
                stages.append(IdentityStage('.encode/.decode utf-8'))
            else:
                raise AnalysisError(f'{where}: unrecognised body (encode {enc!r} / decode {dec!r} is not modelled)')
            summary += [op, ops[i + 1]]
            i += 2
        else:
            raise AnalysisError(f'{where}: unrecognised body (step {op[:2]} is not modelled at this place)')
    return stages, summary


# ---------------------------------------------------------------------------------------------------------------------
# per-character encoders
# ---------------------------------------------------------------------------------------------------------------------


def _static_translate_table(m: pf.Module, fn: pf.FuncDef, e: ast.AST, where: str) -> Dict[int, Optional[str]]:
    """A str.translate table given as a literal: str.maketrans({...}) / {ord('c'): '..', 0x5c: '..'} / str.maketrans('ab', 'xy')."""
    cur = e
    for _ in range(3):
        if isinstance(cur, ast.Name):
            if cur.id in pf.assignments(fn):
                d = pf.single_def(fn, cur.id)
                if d is None or not isinstance(d, ast.expr):
                    raise AnalysisError(f'{where}: translate table `{cur.id}` is not a single assignment')
                cur = d
            else:
                cur = sp.module_const(m, cur.id)
        else:
            break
    if isinstance(cur, ast.Call) and pf.dotted(cur.func) == 'str.maketrans' and not cur.keywords:
        if len(cur.args) == 1:
            cur = cur.args[0]
        elif len(cur.args) in (2, 3) and all(isinstance(a, ast.Constant) and isinstance(a.value, str) for a in cur.args):
            a0, a1 = cur.args[0].value, cur.args[1].value  # type: ignore[attr-defined]
            if len(a0) != len(a1):
                raise AnalysisError(f'{where}: str.maketrans arguments of different length')
            tab: Dict[int, Optional[str]] = {ord(x): y for x, y in zip(a0, a1)}
            if len(cur.args) == 3:
                for x in cur.args[2].value:  # type: ignore[attr-defined]
                    tab[ord(x)] = None
            return tab
    if not isinstance(cur, ast.Dict):
        raise AnalysisError(f'{where}: translate table `{pf.nsrc(e)[:50]}` is not a literal')
    out: Dict[int, Optional[str]] = {}
    for k, v in zip(cur.keys, cur.values):
        if isinstance(k, ast.Constant) and isinstance(k.value, str) and len(k.value) == 1:
            key = ord(k.value)
        elif isinstance(k, ast.Constant) and isinstance(k.value, int) and not isinstance(k.value, bool):
            key = k.value
        elif isinstance(k, ast.Call) and pf.dotted(k.func) == 'ord' and len(k.args) == 1 and isinstance(k.args[0], ast.Constant) and isinstance(k.args[0].value, str) \
                and len(k.args[0].value) == 1:
            key = ord(k.args[0].value)
        else:
            raise AnalysisError(f'{where}: translate table key `{pf.nsrc(k)[:30] if k is not None else "**"}` not recognised')
        if isinstance(v, ast.Constant) and (v.value is None or isinstance(v.value, str)):
            out[key] = v.value
        elif isinstance(v, ast.Constant) and isinstance(v.value, int) and not isinstance(v.value, bool):
            out[key] = chr(v.value)
        else:
            raise AnalysisError(f'{where}: translate table value `{pf.nsrc(v)[:30]}` not recognised')
    return out


def char_encoder(m: pf.Module, fn: pf.FuncDef, core: ast.AST, param: str,
                 codec_units: Sequence[Tuple[int, int, Sequence[tuple]]], consts: Optional[Dict[str, Any]] = None) -> List[Tuple[R.CharSet, List[tuple]]]:
    """A hand-written per-character encoder over the parameter, as [(set of characters, unit-table parts emitted for each of them)]:
         P.sub(F, s) / re.sub(pattern, F, s)      every match must be ONE character and must not depend on its neighbours
         ''.join(<expr over c> for c in s)         (also a list comprehension)
         s.translate(<literal table>)
    decided by abstract evaluation on the symbolic character (case splits on its set); anything context dependent -> AnalysisError.
    `consts`: values of other parameters of fn (e.g. a mode flag) under which the table is wanted."""
    where = f'{m.rel}::{fn.name}'
    full = R.CharSet([(0, R.MAXCP)])
    unit = UnitText(0, R.MAXCP, [('self',)], 'any character')
    conts = {0: (full, full)}
    mods, funcs = sp._re_module_names(m)
    evaluate = None
    if isinstance(core, ast.Call):
        f = core.func
        d = pf.dotted(f)
        kw = {k.arg: k.value for k in core.keywords}
        stage = None
        if (isinstance(f, ast.Attribute) and isinstance(f.value, ast.Name) and f.value.id in mods and f.attr == 'sub' and len(core.args) == 3 and set(kw) <= {'flags'}):
            if isinstance(core.args[2], ast.Name) and core.args[2].id == param:
                try:
                    rd = sp.resolve_regex(m, fn, core.args[0])
                    pattern, flags = rd.pattern, rd.flags
                except AnalysisError:
                    pattern, flags = sp.const_string(m, fn, core.args[0]), sp.flags_value(m, kw.get('flags'))
                stage = SubStage(Matcher(pattern, flags, where), _callback(m, fn, core.args[1], where), f'`{pf.nsrc(core)[:80]}`')
        elif isinstance(f, ast.Attribute) and f.attr == 'sub' and len(core.args) == 2 and not kw and isinstance(core.args[1], ast.Name) and core.args[1].id == param:
            rd = sp.resolve_regex(m, fn, f.value)
            stage = SubStage(Matcher(rd.pattern, rd.flags, where), _callback(m, fn, core.args[0], where), f'`{pf.nsrc(core)[:80]}`')
        if stage is not None:
            if isinstance(stage.repl, PyCallback):
                stage.repl.codec_units = codec_units
                stage.repl.consts = dict(consts or {})

            def evaluate(subj: Subject) -> List[tuple]:  # noqa: F811
                end, out = stage.scan(subj)
                if end != 1:
                    raise AnalysisError(f'{where}: a match of {stage.desc} spans more than one character; the encoder is not per-character')
                return out
        elif isinstance(f, ast.Attribute) and f.attr == 'join' and len(core.args) == 1 and not kw and pf.const_str(f.value) == '' \
                and isinstance(core.args[0], (ast.GeneratorExp, ast.ListComp)) and len(core.args[0].generators) == 1:
            gen = core.args[0].generators[0]
            if gen.ifs or gen.is_async or not isinstance(gen.target, ast.Name) or not (isinstance(gen.iter, ast.Name) and gen.iter.id == param):
                raise AnalysisError(f'{where}: `{pf.nsrc(core)[:70]}`: generator shape not recognised (filters / other iterables are not modelled)')
            lam = ast.Lambda(args=ast.arguments(posonlyargs=[], args=[ast.arg(arg=gen.target.id)], kwonlyargs=[], kw_defaults=[], defaults=[]), body=core.args[0].elt)
            ast.copy_location(lam, core)
            ast.fix_missing_locations(lam)
            cb = PyCallback(m, fn, lam, where)
            cb.codec_units = codec_units
            cb.consts = dict(consts or {})

            def evaluate(subj: Subject) -> List[tuple]:  # noqa: F811
                return cb.apply_to(SStr([CP]), subj)
        elif isinstance(f, ast.Attribute) and f.attr == 'translate' and len(core.args) == 1 and not kw and isinstance(f.value, ast.Name) and f.value.id == param:
            tab = _static_translate_table(m, fn, core.args[0], where)
            out_t: List[Tuple[R.CharSet, List[tuple]]] = []
            rest = full
            for k_, v_ in sorted(tab.items()):
                cs = R.CharSet([(k_, k_)])
                rest = rest - cs
                out_t.append((cs, [('lit', v_)] if v_ else []))
            out_t.append((rest, [('self',)]))
            return out_t
    if evaluate is None:
        raise AnalysisError(f'{where}: unrecognised string operation `{pf.nsrc(core)[:60]}`')
    leaves: List[Tuple[R.CharSet, List[tuple]]] = []
    work = [Store(unit, {'cp': full}, conts)]
    runs = 0
    while work:
        st = work.pop()
        runs += 1
        if runs > _LEAF_LIMIT:
            raise AnalysisError(f'{where}: more than {_LEAF_LIMIT} cases for the per-character encoder')
        subj = Subject([CP], st, 0)
        try:
            out = evaluate(subj)
        except Split as sp_:
            if sp_.var != 'cp':
                raise AnalysisError(f'{where}: what is emitted for a character depends on the characters around it; not a per-character encoder')
            work += st.refine(sp_.var, sp_.cs)
            continue
        except PyRaise as ex:
            raise AnalysisError(f'{where}: the encoder raises {ex.kind} for {st.vals["cp"].describe()} ({ex.why}); not modelled')
        parts: List[tuple] = []
        for a in out:
            if a[0] == 'c':
                if parts and parts[-1][0] == 'lit':
                    parts[-1] = ('lit', parts[-1][1] + a[1])
                else:
                    parts.append(('lit', a[1]))
            elif a == CP:
                parts.append(('self',))
            elif a[0] == 'num':
                parts.append(('hex', a[1], a[2]))
            else:
                raise AnalysisError(f'{where}: the encoder emits {show_atom(a)}; not expressible in the unit table')
        leaves.append((st.vals['cp'], parts))
    return leaves


# ---------------------------------------------------------------------------------------------------------------------
# the analysis
# ---------------------------------------------------------------------------------------------------------------------


class Leaf:
    def __init__(self, store: Store, status: str, text: List[tuple], stage: int, info: Any = None):
        self.store, self.status, self.text, self.stage, self.info = store, status, text, stage, info


def run_unit(unit: UnitText, stages: Sequence[Any], conts: Dict[int, Tuple[R.CharSet, R.CharSet]], doms: Optional[Dict[Any, Any]] = None) -> List[Leaf]:
    """All the cases of pushing the unit's text through the stages."""
    work = [Store(unit, dict(doms or unit.initial_doms()), conts)]
    leaves: List[Leaf] = []
    n_runs = 0
    while work:
        st = work.pop()
        n_runs += 1
        if n_runs > _LEAF_LIMIT:
            raise AnalysisError(f'unit {unit.label}: more than {_LEAF_LIMIT} cases; not decided')
        text = list(unit.atoms)
        try:
            leaf = None
            for si, stage in enumerate(stages):
                subj = Subject(text, st, si)
                try:
                    end, out = stage.scan(subj)
                except PyRaise as ex:
                    leaf = Leaf(st, 'raises', text, si, ex)
                    break
                out = normalise(unit, out)
                if end != subj.n:
                    leaf = Leaf(st, 'overshoot', out, si, end - subj.n)
                    break
                if any(a[0] == 'bad' for a in out):
                    leaf = Leaf(st, 'bad', out, si)
                    break
                text = out
            if leaf is None:
                leaf = Leaf(st, 'done', text, len(stages))
            leaves.append(leaf)
        except Split as sp_:
            work += st.refine(sp_.var, sp_.cs)
    return leaves


def _charsets_of_text(unit: UnitText, leaf: Leaf) -> List[R.CharSet]:
    subj = Subject(leaf.text, leaf.store, 0)
    return [subj.cs_of(a) for a in leaf.text]


class Verdict:
    def __init__(self, unit: UnitText, status: str, message: str = '', cp: Optional[int] = None, follow: str = '', got: Optional[str] = None, cases: int = 0,
                 swallowed: int = 0):
        self.unit, self.status, self.message, self.cp, self.follow, self.got, self.cases = unit, status, message, cp, follow, got, cases
        self.swallowed = swallowed   # number of following characters the decoder consumed together with the unit


class Analysis:
    def __init__(self, units: Sequence[UnitText], stages: Sequence[Any]):
        self.units, self.stages = list(units), list(stages)
        self.conts: Dict[int, Tuple[R.CharSet, R.CharSet]] = {}
        self.self_chars = R.CharSet([(u.lo, u.hi) for u in units if u.atoms == [CP]])
        self._pass_cache: Dict[Tuple[int, int], bool] = {}
        # continuation alphabets, stage by stage
        for p in range(len(self.stages)):
            first, anyc = R.CharSet.empty(), R.CharSet.empty()
            empty_seen = False
            for u in self.units:
                if p == 0:
                    doms = u.initial_doms()
                    sets = [R.CharSet.of(a[1]) if a[0] == 'c' else doms[a[1]] for a in u.atoms]
                    cases = [sets]
                else:
                    cases = []
                    for lf in run_unit(u, self.stages[:p], self.conts):
                        if lf.status == 'done':
                            cases.append(_charsets_of_text(u, lf))
                for sets in cases:
                    if not sets:
                        empty_seen = True
                        continue
                    first = first | sets[0]
                    for s_ in sets:
                        anyc = anyc | s_
            if empty_seen:
                first = first | anyc
            self.conts[p] = (first, anyc)

    def passes_through(self, ch: int, upto: int) -> bool:
        """The raw character ch (a unit that emits the character itself) goes through the stages before `upto` unchanged, whatever follows."""
        key = (ch, upto)
        if key in self._pass_cache:
            return self._pass_cache[key]
        ok = False
        for u in self.units:
            if u.atoms == [CP] and u.lo <= ch <= u.hi:
                doms = u.initial_doms()
                doms['cp'] = R.CharSet([(ch, ch)])
                lv = run_unit(u, self.stages[:upto], self.conts, doms)
                ok = bool(lv) and all(lf.status == 'done' and lf.text == [CP] for lf in lv)
        self._pass_cache[key] = ok
        return ok

    def _continuation(self, leaf: Leaf) -> Optional[str]:
        """Raw characters that spell the continuation the leaf's case requires ('' when it requires none), None when not established."""
        vals = leaf.store.vals
        ks = [v for v in vals if isinstance(v, tuple) and v[0] == 'k']
        if not ks:
            return ''
        maxj = max(v[2] for v in ks)
        out: List[str] = []
        ended = False
        for j in range(maxj + 1):
            cons = [vals[v] for v in ks if v[2] == j]
            if cons and all(c == END for c in cons):
                ended = True
                continue
            if any(c == END for c in cons):
                return None  # one stage sees the end of the text where another sees a character
            if ended:
                if cons:
                    return None
                continue
            cs = self.self_chars
            for c in cons:
                cs = cs & c
            pick = None
            for cand in [ord(x) for x in 'aA0 z'] + ([cs.min()] if cs else []):
                if cand in cs and self.passes_through(cand, leaf.stage):
                    pick = cand
                    break
            if pick is None:
                return None
            out.append(chr(pick))
        return ''.join(out)

    def verdict(self, unit: UnitText) -> Verdict:
        leaves = run_unit(unit, self.stages, self.conts)
        bad = [lf for lf in leaves if not (lf.status == 'done' and lf.text == [CP])]
        # a single code point whose output is the constant character is fine too
        still = []
        for lf in bad:
            if lf.status == 'done' and unit.lo == unit.hi and all(a[0] == 'c' for a in lf.text) and ''.join(a[1] for a in lf.text) == chr(unit.lo):
                continue
            still.append(lf)
        if not still:
            return Verdict(unit, 'ok', cases=len(leaves))
        undecided = ''
        for lf in still:
            cp = unit.find_cp(lf.store.vals)
            if cp is None:
                continue  # the case is empty
            follow = self._continuation(lf)
            if follow is None:
                undecided = undecided or f'the case needs a continuation that raw characters cannot be shown to spell (stage {lf.stage + 1})'
                continue
            fmap = {}
            for v in lf.store.vals:
                if isinstance(v, tuple) and v[0] == 'k' and lf.store.vals[v] != END and v[2] < len(follow):
                    fmap[v] = follow[v[2]]
            stage_desc = self.stages[min(lf.stage, len(self.stages) - 1)].desc
            if lf.status == 'raises':
                return Verdict(unit, 'bad', f'{stage_desc} raises {lf.info.kind} ({lf.info.why})', cp, follow, None, len(leaves))
            got = concretise(unit, lf.text, cp, fmap)
            if lf.status == 'overshoot':
                if not follow:
                    undecided = undecided or 'a match runs past the end of the unit but no continuation is established'
                    continue
                want = chr(cp) + follow[:lf.info]
                if got == want:
                    undecided = undecided or 'a match runs past the end of the unit; the result happens to agree for the witness'
                    continue
                return Verdict(unit, 'bad', f'{stage_desc} reads past the end of the escape into the following text', cp, follow, got, len(leaves), lf.info)
            if lf.status == 'bad':
                return Verdict(unit, 'bad', f'{stage_desc} yields {" ".join(a[1] for a in lf.text if a[0] == "bad")}', cp, follow, got, len(leaves))
            # done, other normal form: confirm with witnesses of the case (the term is exact for every member of the case)
            cands = [cp]
            for extra in (unit.lo, unit.hi):
                d = dict(lf.store.vals)
                d['cp'] = d.get('cp', R.CharSet([(unit.lo, unit.hi)])) & R.CharSet([(extra, extra)])
                if d['cp'] and unit.find_cp(d) is not None:
                    cands.append(extra)
            hit = None
            for c in cands:
                g = concretise(unit, lf.text, c, fmap)
                if g != chr(c):
                    hit = (c, g)
                    break
            if hit is None:
                undecided = undecided or f'the output {"".join(show_atom(a) for a in lf.text)} is not the normal form of the character but agrees on the witnesses tried'
                continue
            return Verdict(unit, 'bad', f'the text comes back as {"+".join(show_atom(a) for a in lf.text) or "nothing"}', hit[0], follow, hit[1], len(leaves))
        if undecided:
            return Verdict(unit, 'unknown', undecided, cases=len(leaves))
        return Verdict(unit, 'ok', cases=len(leaves))
