"""Source-level normal form of small converter functions (C32 / C33 / C34): behaviour-preserving rewrites applied to a COPY of the
syntax tree before the rules look at it, so that the rules decide the code a maintainer wrote and not the spelling he chose.

Every rewrite is an equivalence of Python programs under the stated side conditions (checked syntactically; when a condition is not
met the construct is left as it is and the rule that needs the canonical shape declines).  Nothing is executed.

  hoist      `return f(h(a))`            ->  `t = h(a); return f(t)`        h a same-module helper, everything evaluated before the call is a
                                                                             plain load (so the evaluation order is unchanged)
  inline     `v = h(a)` / `return h(a)`  ->  body of h (engines/inline.py)  module-level functions, methods reached through self / Cls
  split      `a, b = x, y`               ->  `a = x; b = y`                 no target occurs in x, y
  accumulate `acc = []; for t in it: [locals;] acc.append(e)`  ->  `acc = [e for t in it]`   (set()/add, {}/acc[k] = v likewise); the loop body
                                                                             is straight-line, acc is not read in it, loop locals die with the iteration
  expand     `v = e; ... v ...`          ->  `... e ...`                    v has exactly one definition which dominates the use (same or enclosing
                                                                             block, earlier), every name in e has at most one definition; mode 'cheap':
                                                                             e is a load chain (names, attributes, constant subscripts, constants) -
                                                                             no call moves; mode 'all': any expression (for converters without a stream,
                                                                             whose sub-expressions are pure functions of their arguments)
  returns    `return a if c else b`      ->  `if c: return a else: return b`
  guards     `if c: ...exit` + rest      ->  `if c: ...exit else: rest`     (also `continue` guards inside a loop body)
"""
from __future__ import annotations

import ast
import copy
from typing import Callable, Dict, List, Optional, Sequence, Set, Tuple

from . import inline as INL
from . import pyfacts as pf

FuncDef = pf.FuncDef


# --------------------------------------------------------------------------------------
# small helpers
# --------------------------------------------------------------------------------------


def _names(e: ast.AST) -> Set[str]:
    return {n.id for n in ast.walk(e) if isinstance(n, ast.Name)}


def is_cheap(e: ast.AST) -> bool:
    """A load chain: evaluating it has no effect and moving it does not reorder any call."""
    if isinstance(e, (ast.Name, ast.Constant)):
        return True
    if isinstance(e, ast.Attribute):
        return is_cheap(e.value)
    if isinstance(e, ast.Subscript):
        return is_cheap(e.value) and isinstance(e.slice, (ast.Constant, ast.Name))
    if isinstance(e, ast.Tuple):
        return all(is_cheap(x) for x in e.elts)
    return False


def _blocks_of(st: ast.stmt) -> List[List[ast.stmt]]:
    out = []
    for fld in ('body', 'orelse', 'finalbody'):
        b = getattr(st, fld, None)
        if isinstance(b, list) and b and isinstance(b[0], ast.stmt):
            out.append(b)
    if isinstance(st, ast.Try):
        for h in st.handlers:
            out.append(h.body)
    return out


def _is_def(st: ast.AST) -> bool:
    return isinstance(st, (ast.FunctionDef, ast.AsyncFunctionDef, ast.ClassDef))


def _exits(stmts: Sequence[ast.stmt], kinds=(ast.Return, ast.Raise)) -> bool:
    for st in stmts:
        if isinstance(st, kinds):
            return True
        if isinstance(st, ast.If) and st.orelse and _exits(st.body, kinds) and _exits(st.orelse, kinds):
            return True
    return False


# --------------------------------------------------------------------------------------
# split: a, b = x, y
# --------------------------------------------------------------------------------------


def _split_tuple_assigns(stmts: List[ast.stmt]) -> Tuple[List[ast.stmt], bool]:
    out: List[ast.stmt] = []
    changed = False
    for st in stmts:
        if _is_def(st):
            out.append(st)
            continue
        for b in _blocks_of(st):
            nb, ch = _split_tuple_assigns(b)
            if ch:
                b[:] = nb
                changed = True
        if isinstance(st, ast.Assign) and len(st.targets) == 1 and isinstance(st.targets[0], ast.Tuple) and isinstance(st.value, ast.Tuple) \
                and len(st.targets[0].elts) == len(st.value.elts) and all(isinstance(t, ast.Name) for t in st.targets[0].elts) \
                and not any(isinstance(v, ast.Starred) for v in st.value.elts):
            tn = [t.id for t in st.targets[0].elts]
            if len(set(tn)) == len(tn) and not (set(tn) & _names(st.value)):
                for t, v in zip(st.targets[0].elts, st.value.elts):
                    out.append(ast.copy_location(ast.Assign(targets=[t], value=v, lineno=st.lineno), st))
                changed = True
                continue
        out.append(st)
    return out, changed


# --------------------------------------------------------------------------------------
# returns / guards
# --------------------------------------------------------------------------------------


def _split_return_ifexp(stmts: List[ast.stmt]) -> bool:
    changed = False
    for i, st in enumerate(list(stmts)):
        if _is_def(st):
            continue
        for b in _blocks_of(st):
            changed |= _split_return_ifexp(b)
        if isinstance(st, ast.Return) and isinstance(st.value, ast.IfExp):
            ie = st.value
            a = ast.copy_location(ast.Return(value=ie.body), st)
            b_ = ast.copy_location(ast.Return(value=ie.orelse), st)
            new = ast.copy_location(ast.If(test=ie.test, body=[a], orelse=[b_]), st)
            stmts[i] = new
            _split_return_ifexp(new.body)
            _split_return_ifexp(new.orelse)
            changed = True
    return changed


def _guards_to_else(stmts: List[ast.stmt], in_loop: bool) -> Tuple[List[ast.stmt], bool]:
    """`if c: ...; return|raise` + rest -> if/else;  inside a loop body also `if c: ...; continue` + rest -> if c: ... else: rest."""
    out: List[ast.stmt] = []
    changed = False
    for i, st in enumerate(stmts):
        if _is_def(st):
            out.append(st)
            continue
        if isinstance(st, (ast.For, ast.AsyncFor, ast.While)):
            nb, ch = _guards_to_else(st.body, True)
            st.body = nb
            changed |= ch
            if st.orelse:
                nb, ch = _guards_to_else(st.orelse, in_loop)
                st.orelse = nb
                changed |= ch
        else:
            for b in _blocks_of(st):
                nb, ch = _guards_to_else(b, in_loop)
                if ch:
                    b[:] = nb
                    changed = True
        rest = stmts[i + 1:]
        if isinstance(st, ast.If) and not st.orelse and rest:
            if _exits(st.body) and not any(isinstance(n, (ast.Break, ast.Continue)) for n in pf.walk_shallow(ast.Module(body=st.body, type_ignores=[]))):
                nr, _ = _guards_to_else(rest, in_loop)
                st.orelse = nr
                out.append(st)
                return out, True
            if in_loop and isinstance(st.body[-1], ast.Continue) and not any(isinstance(n, (ast.Break, ast.Continue, ast.Return)) for s_ in st.body[:-1] for n in ast.walk(s_)):
                nr, _ = _guards_to_else(rest, in_loop)
                st.body = st.body[:-1] or [ast.copy_location(ast.Pass(), st)]
                st.orelse = nr
                out.append(st)
                return out, True
        out.append(st)
    return out, changed


# --------------------------------------------------------------------------------------
# accumulate loops -> comprehensions
# --------------------------------------------------------------------------------------


class _Subst(ast.NodeTransformer):
    def __init__(self, mapping: Dict[str, ast.expr]):
        self.mapping = mapping
        self.n = 0

    def visit_Name(self, node: ast.Name):
        if isinstance(node.ctx, ast.Load) and node.id in self.mapping:
            self.n += 1
            return ast.copy_location(copy.deepcopy(self.mapping[node.id]), node)
        return node

    def visit_Lambda(self, node):
        return node


def _empty_container(e: ast.AST) -> Optional[str]:
    if isinstance(e, ast.List) and not e.elts:
        return 'list'
    if isinstance(e, ast.Dict) and not e.keys:
        return 'dict'
    if isinstance(e, ast.Call) and isinstance(e.func, ast.Name) and e.func.id in ('list', 'set', 'dict') and not e.args and not e.keywords:
        return e.func.id
    return None


def _loads(node: ast.AST, name: str) -> int:
    return sum(1 for n in ast.walk(node) if isinstance(n, ast.Name) and n.id == name and isinstance(n.ctx, ast.Load))


def _accumulate(fn: FuncDef, stmts: List[ast.stmt], mode: str) -> bool:
    changed = False
    i = 0
    while i < len(stmts):
        st = stmts[i]
        if _is_def(st):
            i += 1
            continue
        for b in _blocks_of(st):
            changed |= _accumulate(fn, b, mode)
        if isinstance(st, ast.For) and not st.orelse:
            new = _accumulate_one(fn, stmts, i, mode)
            if new:
                changed = True
                continue  # the list was edited in place; re-examine position i
        i += 1
    return changed


def _accumulate_one(fn: FuncDef, stmts: List[ast.stmt], i: int, mode: str) -> bool:
    loop = stmts[i]
    assert isinstance(loop, ast.For)
    body = list(loop.body)
    if not body or any(isinstance(n, (ast.Break, ast.Continue, ast.Return, ast.Yield, ast.YieldFrom, ast.Await)) for s_ in body for n in ast.walk(s_)):
        return False
    last = body[-1]
    acc = kind = None
    key = val = None
    if isinstance(last, ast.Expr) and isinstance(last.value, ast.Call) and isinstance(last.value.func, ast.Attribute) and isinstance(last.value.func.value, ast.Name) \
            and last.value.func.attr in ('append', 'add') and len(last.value.args) == 1 and not last.value.keywords and not isinstance(last.value.args[0], ast.Starred):
        acc, kind, val = last.value.func.value.id, ('list' if last.value.func.attr == 'append' else 'set'), last.value.args[0]
    elif isinstance(last, ast.Assign) and len(last.targets) == 1 and isinstance(last.targets[0], ast.Subscript) and isinstance(last.targets[0].value, ast.Name):
        acc, kind, key, val = last.targets[0].value.id, 'dict', last.targets[0].slice, last.value
    if acc is None:
        return False
    # the accumulator is initialised empty by the closest preceding statement of this block that mentions it
    init_idx = None
    for j in range(i - 1, -1, -1):
        sj = stmts[j]
        if acc in _names(sj):
            if isinstance(sj, (ast.Assign, ast.AnnAssign)) and (sj.value is not None) and _empty_container(sj.value) == kind:
                tgt = sj.targets[0] if isinstance(sj, ast.Assign) and len(sj.targets) == 1 else (sj.target if isinstance(sj, ast.AnnAssign) else None)
                if isinstance(tgt, ast.Name) and tgt.id == acc:
                    init_idx = j
            break
        if not isinstance(sj, (ast.Assign, ast.AnnAssign, ast.Expr, ast.Pass)) or any(isinstance(n, (ast.Yield, ast.Await)) for n in ast.walk(sj)):
            break
    if init_idx is None:
        return False
    # straight-line loop locals: v = e (single Name target), each defined once in the body, not the accumulator, not the loop target
    tnames = {n.id for n in ast.walk(loop.target) if isinstance(n, ast.Name)}
    if acc in tnames or acc in _names(loop.iter):
        return False
    mapping: Dict[str, ast.expr] = {}
    for s_ in body[:-1]:
        if not (isinstance(s_, ast.Assign) and len(s_.targets) == 1 and isinstance(s_.targets[0], ast.Name)):
            return False
        v = s_.targets[0].id
        if v in mapping or v == acc or v in tnames or acc in _names(s_.value):
            return False
        e = _Subst(mapping).visit(copy.deepcopy(s_.value))
        mapping[v] = e
    for v, e in mapping.items():
        # a loop local must die with the iteration: no use outside the loop
        if _loads_outside(fn, loop, v) or len(pf.assignments(fn).get(v, [])) != 1:
            return False
        total = _loads(ast.Module(body=body, type_ignores=[]), v)
        if total > 1 and not is_cheap(e):
            return False  # a non-trivial expression is never duplicated
    if acc in _names(val) or (key is not None and acc in _names(key)):
        return False
    # the loop target must not be used after the loop either (a comprehension does not leak it)
    if any(_loads_outside(fn, loop, t) for t in tnames):
        return False
    sub = _Subst(mapping)
    elt = sub.visit(copy.deepcopy(val))
    gen = ast.comprehension(target=loop.target, iter=loop.iter, ifs=[], is_async=0)
    if kind == 'list':
        comp: ast.expr = ast.ListComp(elt=elt, generators=[gen])
    elif kind == 'set':
        comp = ast.SetComp(elt=elt, generators=[gen])
    else:
        comp = ast.DictComp(key=sub.visit(copy.deepcopy(key)), value=elt, generators=[gen])
    ast.copy_location(comp, loop)
    init = stmts[init_idx]
    new = ast.copy_location(ast.Assign(targets=[ast.Name(id=acc, ctx=ast.Store())], value=comp, lineno=loop.lineno), loop)
    ast.fix_missing_locations(new)
    stmts[i] = new
    del stmts[init_idx]
    return True


def _loads_outside(fn: FuncDef, inner: ast.AST, name: str) -> int:
    inside = {id(n) for n in ast.walk(inner)}
    return sum(1 for n in pf.walk_shallow(fn) if isinstance(n, ast.Name) and n.id == name and isinstance(n.ctx, ast.Load) and id(n) not in inside)


# --------------------------------------------------------------------------------------
# expand locals
# --------------------------------------------------------------------------------------


def _expand_locals(fn: FuncDef, mode: str) -> bool:
    """One round: substitute every expandable local at its uses and delete definitions that became dead."""
    params = {a.arg for a in fn.args.posonlyargs + fn.args.args + fn.args.kwonlyargs}
    if fn.args.vararg:
        params.add(fn.args.vararg.arg)
    if fn.args.kwarg:
        params.add(fn.args.kwarg.arg)
    asg = pf.assignments(fn)
    ndefs = {k: len(v) for k, v in asg.items()}
    # names bound by global/nonlocal or deleted are never touched
    frozen: Set[str] = set()
    for n in pf.walk_shallow(fn):
        if isinstance(n, (ast.Global, ast.Nonlocal)):
            frozen |= set(n.names)
        elif isinstance(n, ast.Name) and isinstance(n.ctx, ast.Del):
            frozen.add(n.id)
    # position of every statement: path of (block id, index) from the function body down
    pos: Dict[int, List[Tuple[int, int]]] = {}

    def index(stmts: List[ast.stmt], path: List[Tuple[int, int]]):
        for k, st in enumerate(stmts):
            p = path + [(id(stmts), k)]
            for n in _stmt_nodes(st):
                pos[id(n)] = p
            if _is_def(st):
                continue
            for b in _blocks_of(st):
                index(b, p)

    index(fn.body, [])

    def dominates(def_path: List[Tuple[int, int]], use_path: List[Tuple[int, int]]) -> bool:
        # the definition is a statement of block B at index k; the use lies in a statement of B (or nested below one) at index > k
        if len(use_path) < len(def_path):
            return False
        for a, b in zip(def_path[:-1], use_path[:-1]):
            if a != b:
                return False
        db, dk = def_path[-1]
        ub, uk = use_path[len(def_path) - 1]
        return db == ub and uk > dk

    cands: Dict[str, Tuple[ast.stmt, ast.expr]] = {}
    for st in [n for n in pf.walk_shallow(fn) if isinstance(n, (ast.Assign, ast.AnnAssign))]:
        tgt = st.targets[0] if isinstance(st, ast.Assign) and len(st.targets) == 1 else (st.target if isinstance(st, ast.AnnAssign) else None)
        if not isinstance(tgt, ast.Name) or st.value is None:
            continue
        v = tgt.id
        if v in params or v in frozen or ndefs.get(v) != 1:
            continue
        e = st.value
        if any(isinstance(n, (ast.Await, ast.Yield, ast.YieldFrom, ast.NamedExpr, ast.Lambda)) for n in ast.walk(e)):
            continue
        if v in _names(e):
            continue
        if any(ndefs.get(x, 0) > 1 or x in frozen for x in _names(e)):
            continue
        if mode == 'cheap' and not is_cheap(e):
            continue
        cands[v] = (st, e)
    if not cands:
        return False
    # uses
    uses: Dict[str, List[ast.Name]] = {}
    for n in pf.walk_shallow(fn):
        if isinstance(n, ast.Name) and isinstance(n.ctx, ast.Load) and n.id in cands:
            uses.setdefault(n.id, []).append(n)
    par: Dict[int, ast.AST] = {}
    for p in pf.walk_shallow(fn):
        for c in ast.iter_child_nodes(p):
            par[id(c)] = p
    ok: Dict[str, ast.expr] = {}
    for v, (st, e) in cands.items():
        us = uses.get(v, [])
        if not us:
            continue
        if not is_cheap(e):
            if len(us) != 1:
                continue
            u0 = us[0]
            pu = par.get(id(u0))
            # the object a non-trivial expression creates must keep its identity where that can matter (receiver of a method call, subscripted
            # base) and must be evaluated as often as before (not moved into a loop / comprehension / lambda the definition is outside of)
            if isinstance(pu, (ast.Attribute, ast.Subscript)) and pu.value is u0:
                continue
            moved_into_loop = False
            cur2: Optional[ast.AST] = u0
            while cur2 is not None and cur2 is not fn:
                nxt2 = par.get(id(cur2))
                if isinstance(nxt2, (ast.ListComp, ast.SetComp, ast.DictComp, ast.GeneratorExp)):
                    if not (cur2 is nxt2.generators[0] or (isinstance(cur2, ast.comprehension) and False)) and not _inside(nxt2.generators[0].iter, u0):
                        moved_into_loop = True
                elif isinstance(nxt2, (ast.For, ast.AsyncFor, ast.While)) and not _inside(nxt2, st):
                    if not (isinstance(nxt2, (ast.For, ast.AsyncFor)) and _inside(nxt2.iter, u0)):
                        moved_into_loop = True
                cur2 = nxt2
            if moved_into_loop:
                continue
        dpath = pos.get(id(st))
        if dpath is None or not all(id(u) in pos and dominates(dpath, pos[id(u)]) for u in us):
            continue
        # never substitute into the target side of an augmented assignment / a del, or below a nested scope that rebinds names of e
        bad = False
        for u in us:
            cur: Optional[ast.AST] = u
            while cur is not None and not isinstance(cur, ast.stmt):
                nxt = par.get(id(cur))
                if isinstance(nxt, (ast.ListComp, ast.SetComp, ast.DictComp, ast.GeneratorExp)):
                    bound = {x.id for g in nxt.generators for x in ast.walk(g.target) if isinstance(x, ast.Name)}
                    if bound & _names(e):
                        bad = True
                cur = nxt
        if bad:
            continue
        ok[v] = e
    if not ok:
        return False
    # a candidate whose expression mentions another candidate is expanded in a later round (after the inner one was substituted)
    ready = {v: e for v, e in ok.items() if not (_names(e) & set(ok))}
    if not ready:
        ready = dict(list(ok.items())[:1])

    class _S(ast.NodeTransformer):
        def visit_Name(self, node: ast.Name):
            if isinstance(node.ctx, ast.Load) and node.id in ready:
                return ast.copy_location(copy.deepcopy(ready[node.id]), node)
            return node

        def visit_FunctionDef(self, node):
            return node

        visit_AsyncFunctionDef = visit_FunctionDef
        visit_ClassDef = visit_FunctionDef
        visit_Lambda = visit_FunctionDef

    defs = {id(cands[v][0]) for v in ready}

    def rewrite(stmts: List[ast.stmt]) -> None:
        k = 0
        while k < len(stmts):
            st = stmts[k]
            if id(st) in defs:
                del stmts[k]
                continue
            if _is_def(st):
                k += 1
                continue
            for fld, val in ast.iter_fields(st):
                if isinstance(val, ast.expr):
                    setattr(st, fld, _S().visit(val))
                elif isinstance(val, list) and val and isinstance(val[0], ast.expr):
                    setattr(st, fld, [_S().visit(x) for x in val])
                elif isinstance(val, list) and val and isinstance(val[0], (ast.withitem, ast.keyword)):
                    for x in val:
                        _S().visit(x)
            for b in _blocks_of(st):
                rewrite(b)
                if not b:
                    b.append(ast.copy_location(ast.Pass(), st))
            k += 1

    rewrite(fn.body)
    if not fn.body:
        fn.body.append(ast.Pass())
    return True


def _inside(outer: ast.AST, node: ast.AST) -> bool:
    return any(n is node for n in ast.walk(outer))


def _stmt_nodes(st: ast.stmt):
    """The statement itself and the expression nodes that belong to it directly (not those of nested statements)."""
    yield st
    if _is_def(st):
        return
    stack: List[ast.AST] = []
    for fld, val in ast.iter_fields(st):
        if isinstance(val, ast.AST) and not isinstance(val, ast.stmt):
            stack.append(val)
        elif isinstance(val, list):
            stack += [x for x in val if isinstance(x, ast.AST) and not isinstance(x, (ast.stmt, ast.ExceptHandler))]
    while stack:
        n = stack.pop()
        yield n
        if isinstance(n, ast.Lambda):
            continue
        stack += list(ast.iter_child_nodes(n))


# --------------------------------------------------------------------------------------
# hoist nested helper calls + inline
# --------------------------------------------------------------------------------------


def _hoist(fn: FuncDef, is_helper: Callable[[ast.Call], bool]) -> bool:
    """`return f(h(a))` / `v = f(h(a))` / `f(h(a))` -> `__hN = h(a); ... f(__hN)` when everything the statement evaluates before the call is a plain load."""
    counter = [0]
    existing = INL._locals_of(fn)

    def first_nested_helper(st: ast.stmt) -> Optional[Tuple[ast.Call, bool]]:
        if isinstance(st, ast.Return):
            root = st.value
        elif isinstance(st, ast.Expr):
            root = st.value
        elif isinstance(st, ast.Assign) and len(st.targets) == 1 and isinstance(st.targets[0], ast.Name):
            root = st.value
        else:
            return None
        if root is None or (isinstance(root, ast.Call) and is_helper(root)):
            return None
        # evaluation order walk: stop at the first thing that is not a plain load
        found: List[ast.Call] = []

        def walk(e: ast.AST) -> bool:
            """True while only plain loads were evaluated so far"""
            if isinstance(e, (ast.Name, ast.Constant)):
                return True
            if isinstance(e, ast.Attribute):
                return walk(e.value)
            if isinstance(e, ast.Call):
                if is_helper(e):
                    found.append(e)
                    return False
                if not walk(e.func):
                    return False
                for a in e.args:
                    if isinstance(a, ast.Starred) or not walk(a):
                        return False
                for k in e.keywords:
                    if k.arg is None or not walk(k.value):
                        return False
                return False  # an unknown call was evaluated: nothing after it may be hoisted in front of it
            if isinstance(e, (ast.Tuple, ast.List)):
                for x in e.elts:
                    if isinstance(x, ast.Starred) or not walk(x):
                        return False
                return True
            if isinstance(e, ast.Subscript):
                return walk(e.value) and walk(e.slice)
            return False

        walk(root)
        return (found[0], True) if found else None

    def block(stmts: List[ast.stmt]) -> bool:
        ch = False
        k = 0
        while k < len(stmts):
            st = stmts[k]
            if _is_def(st):
                k += 1
                continue
            for b in _blocks_of(st):
                ch |= block(b)
            hit = first_nested_helper(st)
            if hit is not None:
                call, _ = hit
                counter[0] += 1
                name = f'__h{counter[0]}'
                while name in existing:
                    counter[0] += 1
                    name = f'__h{counter[0]}'
                existing.add(name)
                new_call = copy.deepcopy(call)
                pre = ast.copy_location(ast.Assign(targets=[ast.Name(id=name, ctx=ast.Store())], value=new_call, lineno=st.lineno), st)
                ast.fix_missing_locations(pre)

                class _R(ast.NodeTransformer):
                    def visit_Call(self, node: ast.Call):
                        if node is call:
                            return ast.copy_location(ast.Name(id=name, ctx=ast.Load()), node)
                        return self.generic_visit(node)
                _R().visit(st)
                stmts.insert(k, pre)
                ch = True
                k += 2
                continue
            k += 1
        return ch

    return block(fn.body)


_NDEFS: Dict[int, tuple] = {}


def _helper_table(tree: ast.Module, cls: Optional[ast.ClassDef], exclude: Callable[[str], bool]) -> Tuple[Dict[str, FuncDef], Dict[str, FuncDef]]:
    """(module-level helpers by name, methods reachable through self / Cls by name) - undecorated (or static) plain functions only."""
    top_cls = {c.name: c for c in tree.body if isinstance(c, ast.ClassDef)}
    funcs = {f.name: f for f in tree.body if isinstance(f, ast.FunctionDef) and not f.decorator_list}
    meths: Dict[str, FuncDef] = {}
    # `self.h(...)` is dispatched on the run-time class: only a method name that is defined ONCE in the whole module (never overridden, never
    # shadowed by a class attribute of the same name) denotes one body
    hit = _NDEFS.get(id(tree))
    n_defs = hit[1] if hit is not None and hit[0] is tree else None
    if n_defs is None:
        n_defs = {}
        for c in ast.walk(tree):
            if isinstance(c, ast.ClassDef):
                for st in c.body:
                    if isinstance(st, (ast.FunctionDef, ast.AsyncFunctionDef)):
                        n_defs[st.name] = n_defs.get(st.name, 0) + 1
                    elif isinstance(st, (ast.Assign, ast.AnnAssign)):
                        for t in (st.targets if isinstance(st, ast.Assign) else [st.target]):
                            if isinstance(t, ast.Name):
                                n_defs[t.id] = n_defs.get(t.id, 0) + 1
        _NDEFS.clear()   # one tree at a time; the entry keeps its tree alive, so the id cannot be reused while it is cached
        _NDEFS[id(tree)] = (tree, n_defs)
    exclude0 = exclude
    exclude = lambda n: exclude0(n) or n_defs.get(n, 0) != 1 or (n.startswith('__') and n.endswith('__'))
    if cls is not None:
        seen: Set[str] = set()
        stack = [cls.name]
        while stack:
            cn = stack.pop(0)
            if cn in seen or cn not in top_cls:
                continue
            seen.add(cn)
            for st in top_cls[cn].body:
                if isinstance(st, ast.FunctionDef) and st.name not in meths and not exclude(st.name):
                    if all(d in ('staticmethod',) for d in pf.decorator_names(st)):
                        meths[st.name] = st
                    else:
                        meths.setdefault(st.name, None)  # type: ignore[arg-type]  # shadowed by something that is not inlinable
            stack += [pf.dotted(b) for b in top_cls[cn].bases if pf.dotted(b)]
    return funcs, {k: v for k, v in meths.items() if v is not None}


def _inline_helpers(tree: ast.Module, cls: Optional[ast.ClassDef], fn: FuncDef, exclude: Callable[[str], bool], want: Callable[[FuncDef], bool]) -> List[str]:
    """Inline statement-level calls of same-module helpers into fn (in place).  Calls are first renamed to private aliases so that methods
    (self.h / Cls.h, static or not) and functions go through the same machinery."""
    funcs, meths = _helper_table(tree, cls, exclude)
    ps = [a.arg for a in fn.args.posonlyargs + fn.args.args]
    selfname = ps[0] if ps and cls is not None and 'staticmethod' not in pf.decorator_names(fn) else None
    inlined: List[str] = []
    for _ in range(3):
        helpers: Dict[str, FuncDef] = {}

        def resolve(call: ast.Call) -> Optional[Tuple[str, FuncDef, bool]]:
            f = call.func
            if isinstance(f, ast.Name) and f.id in funcs and funcs[f.id] is not fn and want(funcs[f.id]):
                return f.id, funcs[f.id], False
            if isinstance(f, ast.Attribute) and isinstance(f.value, ast.Name) and f.attr in meths and meths[f.attr] is not fn and want(meths[f.attr]):
                static = 'staticmethod' in pf.decorator_names(meths[f.attr])
                if selfname is not None and f.value.id == selfname:
                    return f'{cls.name}.{f.attr}', meths[f.attr], not static
                if cls is not None and f.value.id == cls.name and static:
                    return f'{cls.name}.{f.attr}', meths[f.attr], False
            return None

        changed = _hoist(fn, lambda c: resolve(c) is not None)
        n_rw = 0
        for call in [n for n in pf.walk_shallow(fn) if isinstance(n, ast.Call)]:
            r = resolve(call)
            if r is None:
                continue
            label, target, prepend = r
            alias = '__inl_' + label.replace('.', '_')
            if alias not in helpers:
                h = copy.deepcopy(target)
                h.name = alias
                h.decorator_list = []
                helpers[alias] = h
            f = call.func
            call.func = ast.copy_location(ast.Name(id=alias, ctx=ast.Load()), f)
            if prepend:
                call.args = [ast.copy_location(ast.Name(id=selfname, ctx=ast.Load()), f)] + list(call.args)
            n_rw += 1
        if not n_rw:
            break
        il = INL.Inliner(helpers, None, max_depth=2)
        il.run(fn)
        ast.fix_missing_locations(fn)
        # restore the calls that were not inlined
        for call in [n for n in pf.walk_shallow(fn) if isinstance(n, ast.Call)]:
            if isinstance(call.func, ast.Name) and call.func.id.startswith('__inl_') and call.func.id in helpers:
                label = call.func.id[len('__inl_'):]
                orig = None
                for nm, t in list(funcs.items()):
                    if '__inl_' + nm == call.func.id:
                        orig = ast.Name(id=nm, ctx=ast.Load())
                if orig is None and cls is not None:
                    mname = label[len(cls.name) + 1:]
                    static = 'staticmethod' in pf.decorator_names(meths[mname])
                    if static:
                        orig = ast.Attribute(value=ast.Name(id=cls.name if selfname is None else selfname, ctx=ast.Load()), attr=mname, ctx=ast.Load())
                    else:
                        orig = ast.Attribute(value=ast.Name(id=selfname, ctx=ast.Load()), attr=mname, ctx=ast.Load())
                        call.args = list(call.args[1:])
                call.func = ast.copy_location(orig, call.func)
                ast.fix_missing_locations(call)
        if not il.inlined:
            break
        inlined += [n[len('__inl_'):] for n, _ in il.inlined]
    return inlined


# --------------------------------------------------------------------------------------
# driver
# --------------------------------------------------------------------------------------


def normalise_function(tree: ast.Module, cls: Optional[ast.ClassDef], fn: FuncDef, mode: str = 'cheap', inline: bool = True,
                       exclude: Callable[[str], bool] = lambda n: False, want: Callable[[FuncDef], bool] = lambda f: True,
                       accumulate: bool = True, returns: bool = True) -> List[str]:
    """Rewrite fn IN PLACE (the caller hands in a copy).  Returns the helpers inlined."""
    inlined: List[str] = []
    for _ in range(6):
        changed = False
        if inline:
            got = _inline_helpers(tree, cls, fn, exclude, want)
            inlined += got
            changed |= bool(got)
        nb, ch = _split_tuple_assigns(fn.body)
        if ch:
            fn.body = nb
            changed = True
        if accumulate:
            changed |= _accumulate(fn, fn.body, mode)
        for _k in range(12):
            if not _expand_locals(fn, mode):
                break
            changed = True
        if returns:
            changed |= _split_return_ifexp(fn.body)
            nb, ch = _guards_to_else(fn.body, False)
            fn.body = nb
            changed |= ch
        if not changed:
            break
    ast.fix_missing_locations(fn)
    return inlined


def normalise_module(m: pf.Module, select: Callable[[Optional[str], str], Optional[str]], **kw) -> pf.Module:
    """Copy of module m in which every function for which select(class name | None, function name) returns a mode ('cheap' | 'all') is in
    normal form.  Methods of top-level classes and top-level functions only.  Only the selected functions are copied; everything else is shared
    with the original tree (which is never modified)."""
    tree = copy.copy(m.tree)
    tree.body = list(m.tree.body)
    todo: List[Tuple[Optional[ast.ClassDef], FuncDef, str]] = []
    for i, st in enumerate(tree.body):
        if isinstance(st, ast.ClassDef):
            c2 = None
            for j, f in enumerate(st.body):
                if isinstance(f, ast.FunctionDef):
                    mode = select(st.name, f.name)
                    if mode:
                        if c2 is None:
                            c2 = copy.copy(st)
                            c2.body = list(st.body)
                            tree.body[i] = c2
                        f2 = copy.deepcopy(f)
                        c2.body[j] = f2
                        todo.append((c2, f2, mode))
        elif isinstance(st, ast.FunctionDef):
            mode = select(None, st.name)
            if mode:
                f2 = copy.deepcopy(st)
                tree.body[i] = f2
                todo.append((None, f2, mode))
    for c2, f2, mode in todo:
        normalise_function(tree, c2, f2, mode, **kw)
    return pf.Module(m.rel, m.path, m.src, tree)
