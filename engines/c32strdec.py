"""c32strdec - a string DECODER decided against the regular language of the strings its ENCODER emits (C32 call strings).

The encoder (`Call.__str__`) is turned into one *marked* regular language per abstract value class (ploidy, phased): the literal
characters of the returned template, and for every hole `{alleles[k]}` the decimal numerals 0|[1-9][0-9]* bracketed by two marker
characters O_k / C_k (private-use code points that never occur in real strings).

The decoder (`_tcall._convert_from_json`) is executed ABSTRACTLY over that language - never on a concrete string: the state is
(a regular language of marked strings, an environment of symbolic values).  Every test the decoder makes (`x == '-'`, `x[0] == '|'`,
`len(x) == 3`, `c in '|/'`, `i == n`, `x.startswith`, `'/' in x` ...) is a regular language R; the state splits into L & R and
L & ~R and empty halves are dropped.  Every integer position the decoder computes (a constant index, the exit position of a scan
loop, `x.find(c)`, `i + 1`) becomes one more marker character whose placement is fixed by a regular constraint, so slices `x[a:b]`
are pairs of markers.  Scan loops are summarised by idiom (first position of a character class); anything that is not recognised
raises AnalysisError (the rule declines) - but only when it is reached by a non-empty language.

Verdict per class: on every non-empty exit state the decoder must build a call with the class's ploidy, `int(<slice>)` of exactly
the substring between O_k and C_k for allele k (decided as emptiness of "some character lies between the slice bound and the
hole marker"), and the class's phased flag; it must not raise.  A non-empty counter-language yields a shortest WITNESS string
(printed only; no verdict depends on evaluating anything on it).

Everything is decided with engines/relang.py (Thompson NFA -> DFA over an alphabet partition, products, complement, emptiness).
"""
from __future__ import annotations

import ast
from typing import Any, Callable, Dict, List, Optional, Sequence, Tuple

from . import pyfacts as pf
from . import relang as R
from . import strparts
from .common import AnalysisError

# --------------------------------------------------------------------------------------
# alphabet, markers, lifted regular expressions
# --------------------------------------------------------------------------------------

POOL = [chr(0xE000 + i) for i in range(40)]
MK = R.CharSet.of(POOL)
SIG = ~MK                                   # real characters
ALLC = R.CharSet.full()
T = R.star(R.chars(MK))                     # markers are transparent for every test on the real characters
ANY = R.star(R.chars(ALLC))
DIGITS = R.CharSet.span('0', '9')
NZDIGITS = R.CharSet.span('1', '9')

START = ('start',)
END = ('end',)


def cs_of(chars_: str) -> R.CharSet:
    return R.CharSet.of(chars_)


def sym(cs: R.CharSet) -> R.Re:
    """one real character of cs, preceded by any markers"""
    return R.seq(T, R.chars(cs & SIG))


def lit_l(s: str) -> R.Re:
    return R.seq(*[sym(cs_of(ch)) for ch in s]) if s else R.EPS


def nsym(lo: int, hi: Optional[int], cs: R.CharSet = SIG) -> R.Re:
    return R.rep(sym(cs), lo, hi)


NUM_L = R.alt(sym(cs_of('0')), R.seq(sym(NZDIGITS), R.star(sym(DIGITS))))       # str(int) of a non-negative int
# what int(<str>) accepts (ASCII part: optional sign, digits with single underscores between them, surrounding white space)
_WS = cs_of(' \t\n\r\x0b\x0c')   # ASCII white space; other white space / digits are outside any alphabet an encoder here writes
INTOK_L = R.seq(R.star(sym(_WS)), R.opt(sym(cs_of('+-'))), R.plus(sym(DIGITS)), R.star(R.seq(sym(cs_of('_')), R.plus(sym(DIGITS)))), R.star(sym(_WS)))


_PRED_CACHE: Dict[str, R.CharSet] = {}


def str_pred(meth: str) -> R.CharSet:
    """characters satisfying str.<meth>, restricted to ASCII: the languages analysed are over the ASCII characters an encoder writes
    (writer_forms declines on anything else), so the behaviour of the predicate outside ASCII is never consulted"""
    cs = _PRED_CACHE.get(meth)
    if cs is None:
        cs = _PRED_CACHE[meth] = cs_of(''.join(chr(i) for i in range(128) if getattr(chr(i), meth)()))
    return cs


def whole(r: R.Re, label: str = '') -> R.Lang:
    return R.lang(R.seq(r, T), label or 'whole')


def mch(m: str) -> R.Re:
    return R.chars(cs_of(m))


def once(m: str) -> R.Lang:
    no = R.star(R.chars(~cs_of(m)))
    return R.lang(R.seq(no, mch(m), no), f'once({ord(m) - 0xE000})')


def everything() -> R.Lang:
    return R.lang(ANY, 'ANY')


def prefix_is(p: tuple, r: R.Re, empty_ok: bool) -> R.Lang:
    """the real characters before position p match r"""
    if p == START:
        return everything() if empty_ok else R.nothing()
    if p == END:
        return whole(r)
    return R.lang(R.seq(r, T, mch(p[1]), ANY), 'prefix')


def suffix_is(p: tuple, r: R.Re, empty_ok: bool) -> R.Lang:
    if p == END:
        return everything() if empty_ok else R.nothing()
    if p == START:
        return whole(r)
    return R.lang(R.seq(ANY, mch(p[1]), r, T), 'suffix')


def between(a: tuple, b: tuple, r: R.Re, empty_ok: bool) -> R.Lang:
    """position a <= position b and the real characters between them match r (co-located markers in either textual order)"""
    if a == START:
        return prefix_is(b, r, empty_ok)
    if b == END:
        return suffix_is(a, r, empty_ok)
    if a == END:      # b >= END means b at the end
        return at_end(b) if empty_ok else R.nothing()
    if b == START:
        return at_start(a) if empty_ok else R.nothing()
    if a == b:
        return everything() if empty_ok else R.nothing()
    out = R.lang(R.seq(ANY, mch(a[1]), r, T, mch(b[1]), ANY), 'between')
    if empty_ok:
        out = out | R.lang(R.seq(ANY, mch(b[1]), T, mch(a[1]), ANY), 'colocated')
    return out


def at_end(p: tuple) -> R.Lang:
    if p == END:
        return everything()
    if p == START:
        return whole(R.EPS)
    return R.lang(R.seq(ANY, mch(p[1]), T), 'at_end')


def at_start(p: tuple) -> R.Lang:
    if p == START:
        return everything()
    if p == END:
        return whole(R.EPS)
    return R.lang(R.seq(T, mch(p[1]), ANY), 'at_start')


def next_char_in(p: tuple, cs: R.CharSet) -> R.Lang:
    if p == END:
        return R.nothing()
    if p == START:
        return R.lang(R.seq(sym(cs), ANY), 'first_char')
    return R.lang(R.seq(ANY, mch(p[1]), sym(cs), ANY), 'next_char')


def prev_char_in(p: tuple, cs: R.CharSet) -> R.Lang:
    if p == START:
        return R.nothing()
    if p == END:
        return R.lang(R.seq(ANY, R.chars(cs & SIG), T), 'last_char')
    return R.lang(R.seq(ANY, R.chars(cs & SIG), T, mch(p[1]), ANY), 'prev_char')


def apart(a: tuple, b: tuple) -> R.Lang:
    """some real character lies between the two positions (they are different positions)"""
    one = R.seq(T, R.chars(SIG))
    if a == b:
        return R.nothing()
    if START in (a, b):
        o = b if a == START else a
        if o == END:
            return R.lang(R.seq(one, ANY), 'nonempty')
        return R.lang(R.seq(one, ANY, mch(o[1]), ANY), 'apart')
    if END in (a, b):
        o = b if a == END else a
        return R.lang(R.seq(ANY, mch(o[1]), one, ANY), 'apart')
    return R.lang(R.seq(ANY, mch(a[1]), one, ANY, mch(b[1]), ANY), 'apart') | R.lang(R.seq(ANY, mch(b[1]), one, ANY, mch(a[1]), ANY), 'apart')


def len_lang(lo: int, hi: Optional[int]) -> R.Lang:
    if hi is not None and hi < lo:
        return R.nothing()
    return whole(nsym(max(lo, 0), hi), f'len[{lo},{hi}]')


def contains(s: str) -> R.Lang:
    return R.lang(R.seq(ANY, R.seq(*[R.seq(T, R.chars(cs_of(ch))) for ch in s]) if len(s) > 1 else R.chars(cs_of(s)), ANY), f'contains({s!r})')


def is_empty(L: R.Lang) -> bool:
    return R.shortest(L) is None


def collapse(L: R.Lang) -> R.Lang:
    return R.lang(R.as_re(L), 'L')


def plain(s: Optional[str]) -> Optional[str]:
    return None if s is None else ''.join(ch for ch in s if ch not in POOL)


# --------------------------------------------------------------------------------------
# encoder side: Call.__str__ as one marked language per (ploidy, phased)
# --------------------------------------------------------------------------------------

OPEN = {k: POOL[2 * k] for k in range(4)}
CLOSE = {k: POOL[2 * k + 1] for k in range(4)}
N_WRITER_MARKERS = 8


class WriterForm:
    def __init__(self, ploidy: int, phased: bool, parts: List[Tuple[str, Any]], line: int):
        self.ploidy, self.phased, self.parts, self.line = ploidy, phased, parts, line

    def template(self) -> str:
        return ''.join(p[1] if p[0] == 'lit' else '{a%d}' % p[1] for p in self.parts)

    def lang(self) -> R.Lang:
        items: List[R.Re] = []
        L: Optional[R.Lang] = None
        for kind, v in self.parts:
            if kind == 'lit':
                items.append(lit_l(v))
            else:
                items.append(R.seq(T, mch(OPEN[v]), NUM_L, T, mch(CLOSE[v])))
        out = whole(R.seq(*items) if items else R.EPS, f'str(Call) ploidy {self.ploidy} phased {self.phased}')
        for kind, v in self.parts:
            if kind == 'hole':
                out = out & once(OPEN[v]) & once(CLOSE[v])
        return collapse(out)


class _FmtToFString(ast.NodeTransformer):
    """`'<text>{}<text>{}'.format(a, b)` and `'<text>%s<text>%d' % (a, b)` as the f-string that renders the same text (plain fields only: no
    format specs, no conversions, no keyword fields; %s / %d directives only - for the ints and strs rendered here `%d` == `%s` == str()).
    Anything else is left alone (the caller then declines on it)."""

    def visit_Call(self, node: ast.Call):
        self.generic_visit(node)
        f = node.func
        if not (isinstance(f, ast.Attribute) and f.attr == 'format' and isinstance(f.value, ast.Constant) and isinstance(f.value.value, str)):
            return node
        if node.keywords or any(isinstance(a, ast.Starred) for a in node.args):
            return node
        import string
        try:
            fields = list(string.Formatter().parse(f.value.value))
        except ValueError:
            return node
        vals: List[ast.expr] = []
        auto = 0
        mode = None
        for lit, name, spec, conv in fields:
            if lit:
                vals.append(ast.Constant(value=lit))
            if name is None:
                continue
            if spec or conv:
                return node
            if name == '':
                if mode == 'manual':
                    return node
                mode, idx = 'auto', auto
                auto += 1
            elif name.isdigit():
                if mode == 'auto':
                    return node
                mode, idx = 'manual', int(name)
            else:
                return node
            if idx >= len(node.args):
                return node
            vals.append(ast.FormattedValue(value=node.args[idx], conversion=-1, format_spec=None))
        return ast.copy_location(ast.JoinedStr(values=vals), node)

    def visit_BinOp(self, node: ast.BinOp):
        self.generic_visit(node)
        if not (isinstance(node.op, ast.Mod) and isinstance(node.left, ast.Constant) and isinstance(node.left.value, str)):
            return node
        args = list(node.right.elts) if isinstance(node.right, ast.Tuple) else [node.right]
        if isinstance(node.right, (ast.Dict, ast.Starred)) or any(isinstance(a, ast.Starred) for a in args):
            return node
        t = node.left.value
        vals: List[ast.expr] = []
        lit = ''
        i = k = 0
        while i < len(t):
            ch = t[i]
            if ch != '%':
                lit += ch
                i += 1
                continue
            if i + 1 >= len(t):
                return node
            d = t[i + 1]
            if d == '%':
                lit += '%'
            elif d in 'sd':
                if k >= len(args):
                    return node
                if lit:
                    vals.append(ast.Constant(value=lit))
                    lit = ''
                vals.append(ast.FormattedValue(value=args[k], conversion=-1, format_spec=None))
                k += 1
            else:
                return node
            i += 2
        if k != len(args):
            return node
        if lit:
            vals.append(ast.Constant(value=lit))
        return ast.copy_location(ast.JoinedStr(values=vals), node)


def as_fstring(e: ast.AST) -> ast.AST:
    import copy
    out = _FmtToFString().visit(copy.deepcopy(e))
    ast.fix_missing_locations(out)
    return out


def writer_forms(fn: pf.FuncDef, where: str, ploidies: Sequence[int] = (0, 1, 2)) -> Dict[Tuple[int, bool], WriterForm]:
    """Decision list of `Call.__str__`: for each (ploidy, phased) the template of the return statement reached, as literal text and
    holes `alleles[k]`.  The tests are evaluated over the finite abstract domain (ploidy, phased); anything else declines."""
    ps = [a.arg for a in fn.args.args]
    if not ps:
        raise AnalysisError(f'{where}: no self parameter')
    me = ps[0]

    class Stop(Exception):
        def __init__(self, parts, line):
            self.parts, self.line = parts, line

    def val(e: ast.AST, env: Dict[str, Any], p: int, f: bool) -> Any:
        if isinstance(e, ast.Constant):
            return e.value
        if isinstance(e, ast.Name):
            if e.id in env:
                return env[e.id]
            raise AnalysisError(f'{where}: unbound name `{e.id}` in a test')
        s = pf.nsrc(e)
        if s in (f'{me}.ploidy', f'len({me}._alleles)', f'len({me}.alleles)', f'{me}._alleles.__len__()'):
            return p
        if s in (f'{me}._phased', f'{me}.phased'):
            return f
        if s in (f'{me}.is_haploid()',):
            return p == 1
        if s in (f'{me}.is_diploid()',):
            return p == 2
        if isinstance(e, ast.Subscript) and pf.nsrc(e.value) in (f'{me}._alleles', f'{me}.alleles', me) and isinstance(e.slice, ast.Constant) and isinstance(e.slice.value, int):
            k = e.slice.value
            if k < 0:
                k += p
            if not 0 <= k < p:
                raise AnalysisError(f'{where}: `{s}` indexes allele {e.slice.value} of a call with ploidy {p}')
            return ('allele', k)
        if isinstance(e, ast.UnaryOp) and isinstance(e.op, ast.Not):
            return not truth(val(e.operand, env, p, f), e)
        if isinstance(e, ast.BoolOp):
            vs = [truth(val(v, env, p, f), v) for v in e.values]
            return all(vs) if isinstance(e.op, ast.And) else any(vs)
        if isinstance(e, ast.Compare) and len(e.ops) == 1:
            a, b = val(e.left, env, p, f), val(e.comparators[0], env, p, f)
            if isinstance(a, (int, bool)) and isinstance(b, (int, bool)):
                op = e.ops[0]
                table = {ast.Eq: a == b, ast.NotEq: a != b, ast.Lt: a < b, ast.LtE: a <= b, ast.Gt: a > b, ast.GtE: a >= b, ast.Is: a == b, ast.IsNot: a != b}
                if type(op) in table:
                    return table[type(op)]
        return ('expr', e)

    def truth(v: Any, e: ast.AST) -> bool:
        if isinstance(v, (bool, int)):
            return bool(v)
        raise AnalysisError(f'{where}: test `{pf.nsrc(e)[:60]}` is not decided by (ploidy, phased)')

    def parts_of(e: ast.AST, env: Dict[str, Any], p: int, f: bool) -> List[Tuple[str, Any]]:
        out: List[Tuple[str, Any]] = []
        for kind, text in strparts.parts(as_fstring(e)):
            if kind == 'lit':
                out.append(('lit', text))
                continue
            v = val(strparts.expr_of(text), env, p, f)
            if isinstance(v, tuple) and v[0] == 'allele':
                out.append(('hole', v[1]))
            elif isinstance(v, str):
                out.append(('lit', v))
            elif isinstance(v, list):
                out += v
            else:
                raise AnalysisError(f'{where}: `{text}` in the rendered string is not an allele of the call')
        # merge literals
        merged: List[Tuple[str, Any]] = []
        for it in out:
            if it[0] == 'lit' and merged and merged[-1][0] == 'lit':
                merged[-1] = ('lit', merged[-1][1] + it[1])
            elif not (it[0] == 'lit' and it[1] == ''):
                merged.append(it)
        return merged

    def block(stmts: Sequence[ast.stmt], env: Dict[str, Any], p: int, f: bool) -> None:
        for st in stmts:
            if isinstance(st, ast.Expr) and isinstance(st.value, ast.Constant):
                continue
            if isinstance(st, ast.Pass):
                continue
            if isinstance(st, ast.Assign) and len(st.targets) == 1 and isinstance(st.targets[0], ast.Name):
                v = val(st.value, env, p, f)
                if isinstance(v, tuple) and v[0] == 'expr':
                    # a rendered piece kept in a local (e.g. sep = '|' if self._phased else '/')
                    if isinstance(st.value, ast.IfExp):
                        v = val(st.value.body if truth(val(st.value.test, env, p, f), st.value.test) else st.value.orelse, env, p, f)
                    if isinstance(v, tuple) and v[0] == 'expr':
                        try:
                            v = parts_of(st.value, env, p, f)
                        except AnalysisError:
                            v = ('expr', st.value)
                env[st.targets[0].id] = v
                continue
            if isinstance(st, ast.Assert):
                if not truth(val(st.test, env, p, f), st.test):
                    raise AnalysisError(f'{where}: assertion `{pf.nsrc(st.test)}` fails for ploidy {p}')
                continue
            if isinstance(st, ast.If):
                block(st.body if truth(val(st.test, env, p, f), st.test) else st.orelse, env, p, f)
                continue
            if isinstance(st, ast.Return) and st.value is not None:
                e = st.value
                if isinstance(e, ast.IfExp):
                    e = e.body if truth(val(e.test, env, p, f), e.test) else e.orelse
                raise Stop(parts_of(e, env, p, f), st.lineno)
            if isinstance(st, ast.Raise):
                raise AnalysisError(f'{where}: raises for ploidy {p}, phased {f}')
            raise AnalysisError(f'{where}: unsupported statement `{pf.nsrc(st)[:60]}`')

    out: Dict[Tuple[int, bool], WriterForm] = {}
    for p in ploidies:
        for f in (False, True):
            try:
                block([s for s in fn.body], {}, p, f)
            except Stop as s:
                holes = sorted(v for k, v in s.parts if k == 'hole')
                if any(k == 'lit' and not v.isascii() for k, v in s.parts):
                    raise AnalysisError(f'{where}: writes non-ASCII text')
                if holes != list(range(p)):
                    # a necessary condition of any decoder: every allele is on the wire exactly once
                    out[(p, f)] = WriterForm(p, f, s.parts, s.line)
                    out[(p, f)].bad_holes = holes  # type: ignore[attr-defined]
                    continue
                out[(p, f)] = WriterForm(p, f, s.parts, s.line)
                continue
            raise AnalysisError(f'{where}: no return reached for ploidy {p}, phased {f}')
    return out


# --------------------------------------------------------------------------------------
# decoder side: abstract execution
# --------------------------------------------------------------------------------------


class St:
    __slots__ = ('L', 'env')

    def __init__(self, L: R.Lang, env: Dict[str, Any]):
        self.L, self.env = L, env

    def fork(self, L: Optional[R.Lang] = None) -> 'St':
        return St(self.L if L is None else L, dict(self.env))


class _Signal(Exception):
    pass


class Outcome:
    def __init__(self, kind: str, st: St, value: Any = None, text: str = '', line: int = 0):
        self.kind, self.st, self.value, self.text, self.line = kind, st, value, text, line   # kind: return | raise | break


def _charset_const(v: Any) -> Optional[R.CharSet]:
    """the characters of a constant used on the right of `in` / `==`"""
    if v[0] == 'cstr':
        return cs_of(v[1])
    if v[0] == 'list' and all(x[0] == 'cstr' and len(x[1]) == 1 for x in v[1]):
        return cs_of(''.join(x[1] for x in v[1]))
    return None


class Decoder:
    def __init__(self, fn: pf.FuncDef, where: str, is_ctor: Callable[[ast.Call], bool], ctor_params: Sequence[str] = ('alleles', 'phased'),
                 resolver: Optional[Callable[[str], Optional[Tuple[ast.FunctionDef, int]]]] = None):
        """resolver(dotted callee) -> (definition, number of leading parameters bound by the call form) for helpers defined outside fn"""
        self.fn, self.where, self.is_ctor, self.ctor_params = fn, where, is_ctor, list(ctor_params)
        self.resolver = resolver
        self.depth = 0
        ps = [a.arg for a in fn.args.args]
        if len(ps) < 2:
            raise AnalysisError(f'{where}: no value parameter')
        self.x = ps[1]
        self.other_params = set(ps[2:]) | {ps[0]}
        self.next_marker = N_WRITER_MARKERS
        self.budget = 4000
        self.n_splits = 0

    # ---- infrastructure ---------------------------------------------------------------
    def is_x(self, e: ast.AST, st: 'St') -> bool:
        """e is a name bound to the whole wire string"""
        if not isinstance(e, ast.Name):
            return False
        return st.env.get(e.id) == ('slice', START, END)

    def x_index(self, e: ast.AST, ivar: str, st: 'St') -> bool:
        return isinstance(e, ast.Subscript) and self.is_x(e.value, st) and isinstance(e.slice, ast.Name) and e.slice.id == ivar

    def fail(self, node: Optional[ast.AST], msg: str):
        raise AnalysisError(f'{self.where} (line {getattr(node, "lineno", 0)}): {msg}')

    def marker(self, node: Optional[ast.AST]) -> str:
        if self.next_marker >= len(POOL):
            self.fail(node, 'too many positions to track')
        m = POOL[self.next_marker]
        self.next_marker += 1
        return m

    def restrict(self, st: St, cond: R.Lang) -> Optional[St]:
        self.budget -= 1
        if self.budget <= 0:
            raise AnalysisError(f'{self.where}: too many case splits')
        L = st.L & cond
        if is_empty(L):
            return None
        return st.fork(collapse(L))

    def split(self, st: St, cond: Any) -> Tuple[Optional[St], Optional[St]]:
        if cond is True:
            return st, None
        if cond is False:
            return None, st
        self.n_splits += 1
        return self.restrict(st, cond), self.restrict(st, ~cond)

    def place(self, st: St, definition: Callable[[tuple], R.Lang], node: Optional[ast.AST]) -> Tuple[St, tuple]:
        m = self.marker(node)
        p = ('mark', m)
        s2 = self.restrict(st, once(m) & definition(p))
        if s2 is None:
            self.fail(node, 'internal: a position has no placement')
        return s2, p

    # ---- positions ------------------------------------------------------------------
    def pos_const(self, st: St, k: int, node: ast.AST, clamp: bool, outs: List[Outcome]) -> List[Tuple[St, tuple]]:
        """position k (k < 0: from the end); clamp=True is slice semantics, clamp=False raises IndexError outside [-(n), n)"""
        res: List[Tuple[St, tuple]] = []
        if k == 0 and clamp:
            return [(st, START)]
        if k >= 0:
            need = k if clamp else k + 1
            ok, short = self.split(st, len_lang(need, None))
            if ok is not None:
                res.append((ok, START) if k == 0 else self.place(ok, lambda p: prefix_is(p, nsym(k, k), False), node))
            if short is not None:
                if clamp:
                    res.append((short, END))
                else:
                    outs.append(Outcome('raise', short, text=f'IndexError (index {k} of a shorter string)', line=node.lineno))
        else:
            ok, short = self.split(st, len_lang(-k, None))
            if ok is not None:
                res.append(self.place(ok, lambda p: suffix_is(p, nsym(-k, -k), False), node))
            if short is not None:
                if clamp:
                    res.append((short, START))
                else:
                    outs.append(Outcome('raise', short, text=f'IndexError (index {k} of a shorter string)', line=node.lineno))
        return res

    def pos_offset(self, st: St, p: tuple, d: int, node: ast.AST, clamp: bool, outs: List[Outcome]) -> List[Tuple[St, tuple]]:
        if d == 0:
            return [(st, p)]
        if p == START and d > 0:
            return self.pos_const(st, d, node, clamp, outs)
        res: List[Tuple[St, tuple]] = []
        if p == END and d < 0:
            # len(x) - k: a NEGATIVE number when the string is shorter than k, and a negative index / bound wraps around in Python
            ok, short = self.split(st, len_lang(-d, None))
            if short is not None:
                self.fail(node, 'a position computed from len(x) may be negative, i.e. wrap around (unrecognised use)')
            if ok is not None:
                res.append(self.place(ok, lambda q: suffix_is(q, nsym(-d, -d), False), node))
            return res
        if d > 0:
            if p == END:
                if clamp:
                    return [(st, END)]
                outs.append(Outcome('raise', st, text='IndexError (index beyond the end of the string)', line=getattr(node, 'lineno', 0)))
                return []
            ok, short = self.split(st, suffix_is(p, R.seq(nsym(d, d), nsym(0, None)), False))
            if ok is not None:
                res.append(self.place(ok, lambda q: between(p, q, nsym(d, d), False), node))
            if short is not None:
                if not clamp:
                    outs.append(Outcome('raise', short, text='IndexError (index beyond the end of the string)', line=getattr(node, 'lineno', 0)))
                else:
                    res.append((short, END))
        else:
            ok, short = self.split(st, prefix_is(p, R.seq(nsym(0, None), nsym(-d, -d)), False))
            if ok is not None:
                res.append(self.place(ok, lambda q: between(q, p, nsym(-d, -d), False), node))
            if short is not None:
                self.fail(node, 'position may be negative (unrecognised use)')
        return res

    def as_pos(self, st: St, v: Any, node: ast.AST, clamp: bool, outs: List[Outcome]) -> List[Tuple[St, tuple]]:
        if v[0] == 'pos':
            return [(st, v[1])]
        if v[0] == 'int':
            return self.pos_const(st, v[1], node, clamp, outs)
        self.fail(node, f'`{pf.nsrc(node)[:50]}` is not a recognised position in the string')
        return []

    def scan(self, st: St, frm: tuple, cs: R.CharSet, node: ast.AST) -> Tuple[St, tuple]:
        """first position >= frm whose character is in cs, or the end"""
        free = R.star(sym(SIG - cs))
        return self.place(st, lambda q: between(frm, q, free, True) & (at_end(q) | next_char_in(q, cs)), node)

    # ---- character tests -------------------------------------------------------------
    def char_test(self, e: ast.AST, st: St, is_char: Callable[[ast.AST], bool]) -> Optional[R.CharSet]:
        """the set of characters c for which test e (over the character expression recognised by is_char) is true"""
        if isinstance(e, ast.UnaryOp) and isinstance(e.op, ast.Not):
            c = self.char_test(e.operand, st, is_char)
            return None if c is None else (SIG - c)
        if isinstance(e, ast.BoolOp):
            cs = [self.char_test(v, st, is_char) for v in e.values]
            if any(c is None for c in cs):
                return None
            out = cs[0]
            for c in cs[1:]:
                out = (out & c) if isinstance(e.op, ast.And) else (out | c)
            return out
        if isinstance(e, ast.Compare) and len(e.ops) == 1 and is_char(e.left):
            rv = self.const_of(e.comparators[0], st)
            if rv is None:
                return None
            op = e.ops[0]
            if isinstance(op, (ast.In, ast.NotIn)):
                c = _charset_const(rv)
                if c is None:
                    return None
                return c if isinstance(op, ast.In) else SIG - c
            if isinstance(op, (ast.Eq, ast.NotEq)) and rv[0] == 'cstr':
                c = cs_of(rv[1]) if len(rv[1]) == 1 else R.CharSet.empty()
                return c if isinstance(op, ast.Eq) else SIG - c
            return None
        if isinstance(e, ast.Call) and isinstance(e.func, ast.Attribute) and not e.args and is_char(e.func.value) and e.func.attr in ('isdigit', 'isdecimal', 'isnumeric', 'isalpha', 'isspace', 'isalnum'):
            return str_pred(e.func.attr)
        return None

    def const_of(self, e: ast.AST, st: St) -> Optional[Any]:
        if isinstance(e, ast.Constant) and isinstance(e.value, str):
            return ('cstr', e.value)
        if isinstance(e, (ast.Tuple, ast.List, ast.Set)) and all(isinstance(x, ast.Constant) and isinstance(x.value, str) for x in e.elts):
            return ('list', [('cstr', x.value) for x in e.elts])
        if isinstance(e, ast.Name) and e.id in st.env and st.env[e.id][0] in ('cstr',):
            return st.env[e.id]
        return None

    # ---- expressions -----------------------------------------------------------------
    BOOLISH = (ast.Compare, ast.BoolOp)

    def eval(self, e: ast.AST, st: St, outs: List[Outcome]) -> List[Tuple[St, Any]]:
        if isinstance(e, ast.Constant):
            v = e.value
            if isinstance(v, bool):
                return [(st, ('bool', v))]
            if isinstance(v, int):
                return [(st, ('int', v))]
            if isinstance(v, str):
                return [(st, ('cstr', v))]
            if v is None:
                return [(st, ('none',))]
            return [(st, ('unknown', pf.nsrc(e)))]
        if isinstance(e, ast.Name):
            if e.id in st.env:
                return [(st, st.env[e.id])]
            if e.id in ('True', 'False'):
                return [(st, ('bool', e.id == 'True'))]
            return [(st, ('unknown', e.id))]
        if isinstance(e, self.BOOLISH) or (isinstance(e, ast.UnaryOp) and isinstance(e.op, ast.Not)) or self.is_pred_call(e):
            ts, fs = self.branch(e, st, outs)
            return [(s, ('bool', True)) for s in ts] + [(s, ('bool', False)) for s in fs]
        if isinstance(e, ast.IfExp):
            ts, fs = self.branch(e.test, st, outs)
            out: List[Tuple[St, Any]] = []
            for s in ts:
                out += self.eval(e.body, s, outs)
            for s in fs:
                out += self.eval(e.orelse, s, outs)
            return out
        if isinstance(e, (ast.List, ast.Tuple)):
            acc: List[Tuple[St, List[Any]]] = [(st, [])]
            for el in e.elts:
                nxt: List[Tuple[St, List[Any]]] = []
                for s, vs in acc:
                    for s2, v in self.eval(el, s, outs):
                        nxt.append((s2, vs + [v]))
                acc = nxt
            return [(s, ('list', vs)) for s, vs in acc]
        if isinstance(e, (ast.ListComp, ast.GeneratorExp)) and len(e.generators) == 1 and not e.generators[0].ifs and isinstance(e.generators[0].target, ast.Name):
            g = e.generators[0]
            out = []
            for s1, seqv in self.eval(g.iter, st, outs):
                for s2, items in self.unroll(seqv, s1, g.iter, outs):
                    acc: List[Tuple[St, List[Any]]] = [(s2, [])]
                    for item in items:
                        nxt: List[Tuple[St, List[Any]]] = []
                        for s3, vs in acc:
                            s4 = s3.fork()
                            saved = s4.env.get(g.target.id)
                            s4.env[g.target.id] = item
                            for s5, v in self.eval(e.elt, s4, outs):
                                s6 = s5.fork()
                                if saved is None:
                                    s6.env.pop(g.target.id, None)
                                else:
                                    s6.env[g.target.id] = saved
                                nxt.append((s6, vs + [v]))
                        acc = nxt
                    out += [(s3, ('list', vs)) for s3, vs in acc]
            return out
        if isinstance(e, ast.UnaryOp) and isinstance(e.op, ast.USub):
            return [(s, ('int', -v[1]) if v[0] == 'int' else ('unknown', pf.nsrc(e))) for s, v in self.eval(e.operand, st, outs)]
        if isinstance(e, ast.BinOp) and isinstance(e.op, (ast.Add, ast.Sub)):
            out = []
            for s1, a in self.eval(e.left, st, outs):
                for s2, b in self.eval(e.right, s1, outs):
                    sign = 1 if isinstance(e.op, ast.Add) else -1
                    if a[0] == 'int' and b[0] == 'int':
                        out.append((s2, ('int', a[1] + sign * b[1])))
                    elif a[0] == 'pos' and b[0] == 'int':
                        # kept symbolic until it is used (as a slice bound it clamps, as an index it must exist)
                        out.append((s2, ('posoff', a[1], sign * b[1])))
                    elif a[0] == 'posoff' and b[0] == 'int':
                        out.append((s2, ('posoff', a[1], a[2] + sign * b[1])))
                    elif a[0] == 'int' and b[0] == 'pos' and sign == 1:
                        out.append((s2, ('posoff', b[1], a[1])))
                    elif a[0] == 'ord' and b[0] == 'int' and sign == -1 and b[1] == 48:
                        out.append((s2, ('digitval', a[1])))
                    elif a[0] == 'ord' and b[0] == 'ord0' and sign == -1:
                        out.append((s2, ('digitval', a[1])))
                    else:
                        out.append((s2, ('unknown', pf.nsrc(e))))
            return out
        if isinstance(e, ast.Subscript):
            return self.eval_subscript(e, st, outs)
        if isinstance(e, ast.Call):
            return self.eval_call(e, st, outs)
        return [(st, ('unknown', pf.nsrc(e)))]

    def unroll(self, seqv: Any, st: St, node: ast.AST, outs: List[Outcome]) -> List[Tuple[St, List[Any]]]:
        """the elements of a sequence value: a list, or the parts of a split (case split on the number of separators, at most 3)"""
        if seqv[0] == 'list':
            return [(st, list(seqv[1]))]
        if seqv[0] == 'split':
            c = cs_of(seqv[1])
            free = R.star(sym(SIG - c))
            res: List[Tuple[St, List[Any]]] = []
            rest: Optional[St] = st
            for n in range(0, 4):
                if rest is None:
                    break
                exact, rest = self.split(rest, whole(R.seq(R.rep(R.seq(free, sym(c)), n, n), free)))
                if exact is None:
                    continue
                cur = exact
                parts: List[Any] = []
                for k in range(n + 1):
                    r = self.split_part(cur, seqv[1], k, node, outs)
                    if len(r) != 1:
                        self.fail(node, 'internal: split part is ambiguous')
                    cur, v = r[0]
                    parts.append(v)
                res.append((cur, parts))
            if rest is not None:
                self.fail(node, 'a split with more than 3 separators (unrecognised)')
            return res
        self.fail(node, f'iteration over `{pf.nsrc(node)[:40]}` is not recognised')
        return []

    def resolve_pos(self, s: St, v: Any, node: ast.AST, clamp: bool, outs: List[Outcome]) -> List[Tuple[St, tuple]]:
        if v[0] == 'posoff':
            return self.pos_offset(s, v[1], v[2], node, clamp, outs)
        return self.as_pos(s, v, node, clamp, outs)

    def eval_subscript(self, e: ast.Subscript, st: St, outs: List[Outcome]) -> List[Tuple[St, Any]]:
        out: List[Tuple[St, Any]] = []
        for s0, base in self.eval(e.value, st, outs):
            if base[0] == 'slice' and (base[1], base[2]) == (START, END):
                if isinstance(e.slice, ast.Slice):
                    if e.slice.step is not None:
                        self.fail(e, 'extended slice of the wire string')
                    los: List[Tuple[St, tuple]] = [(s0, START)]
                    if e.slice.lower is not None:
                        los = []
                        for s1, v in self.eval(e.slice.lower, s0, outs):
                            los += self.resolve_pos(s1, v, e.slice.lower, True, outs)
                    for s1, lo in los:
                        his: List[Tuple[St, tuple]] = [(s1, END)]
                        if e.slice.upper is not None:
                            his = []
                            for s2, v in self.eval(e.slice.upper, s1, outs):
                                his += self.resolve_pos(s2, v, e.slice.upper, True, outs)
                        for s2, hi in his:
                            # Python yields '' when hi < lo; keep only the ordered case, otherwise the slice is empty
                            ordered, crossed = self.split(s2, between(lo, hi, nsym(0, None), True))
                            if ordered is not None:
                                out.append((ordered, ('slice', lo, hi)))
                            if crossed is not None:
                                out.append((crossed, ('cstr', '')))
                else:
                    for s1, v in self.eval(e.slice, s0, outs):
                        if v[0] == 'pos' or v[0] == 'posoff':
                            for s2, p in self.resolve_pos(s1, v, e.slice, False, outs):
                                ok, bad = self.split(s2, ~at_end(p))
                                if ok is not None:
                                    out.append((ok, ('char', p)))
                                if bad is not None:
                                    outs.append(Outcome('raise', bad, text='IndexError (index == len(x))', line=e.lineno))
                        elif v[0] == 'int':
                            for s2, p in self.pos_const(s1, v[1], e.slice, False, outs):
                                out.append((s2, ('char', p)))
                        else:
                            self.fail(e, f'index `{pf.nsrc(e.slice)[:40]}` of the wire string is not a recognised position')
            elif base[0] == 'list':
                for s1, v in self.eval(e.slice, s0, outs):
                    if v[0] != 'int':
                        self.fail(e, f'list index `{pf.nsrc(e.slice)[:40]}` is not a constant')
                    k = v[1]
                    if -len(base[1]) <= k < len(base[1]):
                        out.append((s1, base[1][k]))
                    else:
                        outs.append(Outcome('raise', s1, text='IndexError (list index)', line=e.lineno))
            elif base[0] == 'split':
                for s1, v in self.eval(e.slice, s0, outs):
                    if v[0] != 'int':
                        self.fail(e, 'index of a split result is not a constant')
                    out += self.split_part(s1, base[1], v[1], e, outs)
            elif base[0] == 'cstr' and isinstance(e.slice, ast.Constant) and isinstance(e.slice.value, int) and -len(base[1]) <= e.slice.value < len(base[1]):
                out.append((s0, ('cstr', base[1][e.slice.value])))
            else:
                out.append((s0, ('unknown', pf.nsrc(e))))
        return out

    def split_part(self, st: St, sep: str, k: int, node: ast.AST, outs: List[Outcome]) -> List[Tuple[St, Any]]:
        """part k of x.split(sep) for a one-character separator"""
        c = cs_of(sep)
        free = R.star(sym(SIG - c))
        one = R.seq(free, sym(c))
        out: List[Tuple[St, Any]] = []
        if k >= 0:
            ok, short = self.split(st, whole(R.seq(R.rep(one, k, None), free)))
            if short is not None:
                outs.append(Outcome('raise', short, text=f'IndexError (part {k} of a split with fewer parts)', line=node.lineno))
            if ok is None:
                return out
            s1, a = (ok, START) if k == 0 else self.place(ok, lambda p: prefix_is(p, R.rep(one, k, k), False), node)
            s2, b = self.scan(s1, a, c, node)
            out.append((s2, ('slice', a, b)))
        elif k == -1:
            s1, a = self.place(st, lambda p: suffix_is(p, free, True) & (at_start(p) | prev_char_in(p, c)), node)
            out.append((s1, ('slice', a, END)))
        else:
            self.fail(node, f'part {k} of a split result')
        return out

    def is_pred_call(self, e: ast.AST) -> bool:
        return (isinstance(e, ast.Call) and isinstance(e.func, ast.Attribute)
                and e.func.attr in ('startswith', 'endswith', 'isdigit', 'isdecimal', 'isnumeric', 'isalpha', 'isalnum', 'isspace', '__contains__'))

    def eval_call(self, e: ast.Call, st: St, outs: List[Outcome]) -> List[Tuple[St, Any]]:
        d = pf.dotted(e.func)
        out: List[Tuple[St, Any]] = []
        if self.is_ctor(e):
            args: Dict[str, ast.AST] = {}
            for i, a in enumerate(e.args):
                if isinstance(a, ast.Starred) or i >= len(self.ctor_params):
                    self.fail(e, 'unrecognised constructor arguments')
                args[self.ctor_params[i]] = a
            for kw in e.keywords:
                if kw.arg is None or kw.arg not in self.ctor_params or kw.arg in args:
                    self.fail(e, 'unrecognised constructor arguments')
                args[kw.arg] = kw.value
            if 'alleles' not in args:
                self.fail(e, 'constructor call without alleles')
            for s1, al in self.eval(args['alleles'], st, outs):
                if 'phased' in args:
                    for s2, ph in self.eval(args['phased'], s1, outs):
                        if ph[0] != 'bool':
                            ts, fs = self.truth_states(ph, s2, args['phased'])
                            out += [(s, ('call', al, True)) for s in ts] + [(s, ('call', al, False)) for s in fs]
                        else:
                            out.append((s2, ('call', al, ph[1])))
                else:
                    out.append((s1, ('call', al, False)))
            return out
        if d == 'len' and len(e.args) == 1:
            for s1, v in self.eval(e.args[0], st, outs):
                if v[0] == 'slice' and (v[1], v[2]) == (START, END):
                    out.append((s1, ('pos', END)))
                elif v[0] == 'list':
                    out.append((s1, ('int', len(v[1]))))
                elif v[0] == 'cstr':
                    out.append((s1, ('int', len(v[1]))))
                elif v[0] == 'split':
                    out.append((s1, ('splitlen', v[1])))
                else:
                    out.append((s1, ('unknown', pf.nsrc(e))))
            return out
        if d == 'int' and len(e.args) == 1 and not e.keywords:
            for s1, v in self.eval(e.args[0], st, outs):
                if v[0] == 'slice':
                    ok, bad = self.split(s1, between(v[1], v[2], INTOK_L, False))
                    if ok is not None:
                        out.append((ok, ('intof', v[1], v[2])))
                    if bad is not None:
                        outs.append(Outcome('raise', bad, text=f'ValueError (int() of `{pf.nsrc(e.args[0])[:30]}`, which is not a numeral)', line=e.lineno))
                elif v[0] == 'char':
                    ok, bad = self.split(s1, next_char_in(v[1], DIGITS))
                    if ok is not None:
                        out.append((ok, ('digitval', v[1])))
                    if bad is not None:
                        outs.append(Outcome('raise', bad, text=f'ValueError (int() of the character `{pf.nsrc(e.args[0])[:30]}`, which is not a digit)', line=e.lineno))
                elif v[0] == 'cstr':
                    try:
                        out.append((s1, ('int', int(v[1]))))
                    except ValueError:
                        outs.append(Outcome('raise', s1, text=f'ValueError (int({v[1]!r}))', line=e.lineno))
                elif v[0] in ('int', 'intof', 'digitval'):
                    out.append((s1, v))
                else:
                    out.append((s1, ('unknown', pf.nsrc(e))))
            return out
        if d == 'ord' and len(e.args) == 1:
            for s1, v in self.eval(e.args[0], st, outs):
                if v[0] == 'char':
                    out.append((s1, ('ord', v[1])))
                elif v[0] == 'slice':
                    ok, bad = self.split(s1, between(v[1], v[2], nsym(1, 1), False))
                    if ok is not None:
                        out.append((ok, ('ord', v[1])))
                    if bad is not None:
                        outs.append(Outcome('raise', bad, text='TypeError (ord() of a string whose length is not 1)', line=e.lineno))
                elif v[0] == 'cstr' and v[1] == '0':
                    out.append((s1, ('ord0',)))
                elif v[0] == 'cstr' and len(v[1]) == 1:
                    out.append((s1, ('int', ord(v[1]))))
                else:
                    out.append((s1, ('unknown', pf.nsrc(e))))
            return out
        if d == 'map' and len(e.args) == 2 and isinstance(e.args[0], ast.Name) and e.args[0].id == 'int':
            comp = ast.copy_location(ast.ListComp(elt=ast.copy_location(ast.Call(func=e.args[0], args=[ast.Name(id='_map_item', ctx=ast.Load())], keywords=[]), e),
                                                  generators=[ast.comprehension(target=ast.Name(id='_map_item', ctx=ast.Store()), iter=e.args[1], ifs=[], is_async=0)]), e)
            ast.fix_missing_locations(comp)
            return self.eval(comp, st, outs)
        if d in ('list', 'tuple') and len(e.args) == 1:
            return self.eval(e.args[0], st, outs)
        if d == 'bool' and len(e.args) == 1:
            for s1, v in self.eval(e.args[0], st, outs):
                ts, fs = self.truth_states(v, s1, e)
                out += [(s, ('bool', True)) for s in ts] + [(s, ('bool', False)) for s in fs]
            return out
        helper: Optional[Tuple[ast.FunctionDef, int, bool]] = None
        if isinstance(e.func, ast.Name) and e.func.id in st.env and st.env[e.func.id][0] == 'func':
            helper = st.env[e.func.id][1:]
        elif d is not None and self.resolver is not None and d.split('.')[0] not in st.env:
            r = self.resolver(d)
            if r is not None:
                helper = (r[0], r[1], False)
        if helper is not None:
            return self.call_helper(helper, e, st, outs)
        if isinstance(e.func, ast.Attribute):
            meth = e.func.attr
            recvs = self.eval(e.func.value, st, outs)
            if meth in ('find', 'index', 'rfind', 'count', 'split', 'partition', 'rpartition') and len(e.args) == 1 and not isinstance(e.args[0], ast.Constant):
                # the searched character may be computed (`'|' if phased else '/'`): one case per value
                forked = []
                for s1, recv in recvs:
                    for s2, av in self.eval(e.args[0], s1, outs):
                        if av[0] != 'cstr':
                            self.fail(e, f'`{pf.nsrc(e)[:50]}`: the argument is not a constant character')
                        s3 = s2.fork()
                        s3.env['$arg'] = av
                        forked.append((s3, recv))
                recvs = forked
                e = ast.copy_location(ast.Call(func=e.func, args=[ast.copy_location(ast.Name(id='$arg', ctx=ast.Load()), e)], keywords=e.keywords), e)
            for s1, recv in recvs:
                whole_x = recv[0] == 'slice' and (recv[1], recv[2]) == (START, END)
                if whole_x and meth in ('find', 'index') and len(e.args) == 1:
                    cv = self.const_of(e.args[0], s1)
                    if cv is None or cv[0] != 'cstr' or len(cv[1]) != 1:
                        self.fail(e, f'`{pf.nsrc(e)[:50]}`: not a search for one constant character')
                    found, missing = self.split(s1, contains(cv[1]))
                    if found is not None:
                        s2, p = self.scan(found, START, cs_of(cv[1]), e)
                        out.append((s2, ('pos', p)))
                    if missing is not None:
                        if meth == 'find':
                            out.append((missing, ('int', -1)))
                        else:
                            outs.append(Outcome('raise', missing, text=f'ValueError ({pf.nsrc(e)[:40]}: substring not found)', line=e.lineno))
                elif whole_x and meth == 'rfind' and len(e.args) == 1:
                    cv = self.const_of(e.args[0], s1)
                    if cv is None or cv[0] != 'cstr' or len(cv[1]) != 1:
                        self.fail(e, f'`{pf.nsrc(e)[:50]}`: not a search for one constant character')
                    found, missing = self.split(s1, contains(cv[1]))
                    if found is not None:
                        c = cs_of(cv[1])
                        s2, p = self.place(found, lambda q: next_char_in(q, c) & suffix_is(q, R.seq(sym(c), R.star(sym(SIG - c))), False), e)
                        out.append((s2, ('pos', p)))
                    if missing is not None:
                        out.append((missing, ('int', -1)))
                elif whole_x and meth == 'count' and len(e.args) == 1:
                    cv = self.const_of(e.args[0], s1)
                    if cv is None or cv[0] != 'cstr' or len(cv[1]) != 1:
                        self.fail(e, f'`{pf.nsrc(e)[:50]}`: not a count of one constant character')
                    out.append((s1, ('countof', cv[1])))
                elif whole_x and meth == 'split' and len(e.args) == 1 and not e.keywords:
                    cv = self.const_of(e.args[0], s1)
                    if cv is None or cv[0] != 'cstr' or len(cv[1]) != 1:
                        self.fail(e, f'`{pf.nsrc(e)[:50]}`: not a split on one constant character')
                    out.append((s1, ('split', cv[1])))
                elif whole_x and meth in ('partition', 'rpartition') and len(e.args) == 1:
                    cv = self.const_of(e.args[0], s1)
                    if cv is None or cv[0] != 'cstr' or len(cv[1]) != 1:
                        self.fail(e, f'`{pf.nsrc(e)[:50]}`: not a partition on one constant character')
                    c = cs_of(cv[1])
                    found, missing = self.split(s1, contains(cv[1]))
                    if found is not None:
                        if meth == 'partition':
                            s2, p = self.scan(found, START, c, e)
                        else:
                            s2, p = self.place(found, lambda q: next_char_in(q, c) & suffix_is(q, R.seq(sym(c), R.star(sym(SIG - c))), False), e)
                        for s3, q in self.pos_offset(s2, p, 1, e, True, outs):
                            out.append((s3, ('list', [('slice', START, p), ('cstr', cv[1]), ('slice', q, END)])))
                    if missing is not None:
                        parts = [('slice', START, END), ('cstr', ''), ('cstr', '')]
                        out.append((missing, ('list', parts if meth == 'partition' else list(reversed(parts)))))
                elif recv[0] == 'slice' and meth in ('strip', 'lstrip', 'rstrip') and not e.args:
                    # white space never occurs in the strings analysed unless the encoder writes it; decided by the language
                    ws = self.restrict(s1, contains_class(_WS))
                    if ws is not None:
                        self.fail(e, 'strip() of a wire string that may contain white space')
                    out.append((s1, recv))
                else:
                    out.append((s1, ('unknown', pf.nsrc(e))))
            return out
        return [(st, ('unknown', pf.nsrc(e)))]

    def call_helper(self, helper: Tuple[ast.FunctionDef, int, bool], e: ast.Call, st: St, outs: List[Outcome]) -> List[Tuple[St, Any]]:
        """a same-module helper (nested def, method, module-level function) is executed in place: its return values are the values of the call"""
        fn, skip, closure = helper
        if self.depth >= 3:
            self.fail(e, 'helper calls nested too deep')
        a = fn.args
        if a.vararg or a.kwarg or a.posonlyargs or a.kwonlyargs or any(isinstance(x, ast.Starred) for x in e.args) or fn.decorator_list and not all(
                (pf.dotted(d_) or '') in ('staticmethod',) for d_ in fn.decorator_list):
            self.fail(e, f'helper {fn.name}: unrecognised signature / decorator')
        params = [x.arg for x in a.args][skip:]
        if len(e.args) > len(params):
            self.fail(e, f'too many arguments for helper {fn.name}')
        acc: List[Tuple[St, Dict[str, Any]]] = [(st, {})]
        pairs: List[Tuple[str, ast.AST]] = list(zip(params, e.args))
        for kw in e.keywords:
            if kw.arg is None or kw.arg not in params or kw.arg in dict(pairs):
                self.fail(e, f'bad keyword for helper {fn.name}')
            pairs.append((kw.arg, kw.value))
        defaults = dict(zip(params[len(params) - len(a.defaults):], a.defaults)) if a.defaults else {}
        for p_ in params:
            if p_ not in dict(pairs):
                if p_ not in defaults:
                    self.fail(e, f'argument {p_} of helper {fn.name} unbound')
                pairs.append((p_, defaults[p_]))
        for name, arg in pairs:
            nxt: List[Tuple[St, Dict[str, Any]]] = []
            for s1, bound in acc:
                for s2, v in self.eval(arg, s1, outs):
                    b2 = dict(bound)
                    b2[name] = v
                    nxt.append((s2, b2))
            acc = nxt
        res: List[Tuple[St, Any]] = []
        for s1, bound in acc:
            caller_env = s1.env
            env = dict(caller_env) if closure else {}
            env.update(bound)
            inner: List[Outcome] = []
            self.depth += 1
            try:
                body = [x for x in fn.body if not (isinstance(x, ast.Expr) and isinstance(x.value, ast.Constant))]
                live = self.block(body, [St(s1.L, env)], inner)
            finally:
                self.depth -= 1
            for s2 in live:
                res.append((St(s2.L, dict(caller_env)), ('none',)))
            for o in inner:
                if o.kind == 'return':
                    res.append((St(o.st.L, dict(caller_env)), o.value))
                elif o.kind == 'raise':
                    outs.append(Outcome('raise', St(o.st.L, dict(caller_env)), text=o.text, line=o.line))
                else:
                    self.fail(e, f'helper {fn.name}: break outside a loop')
        return res

    # ---- conditions ---------------------------------------------------------------------
    def truth_states(self, v: Any, st: St, node: ast.AST) -> Tuple[List[St], List[St]]:
        if v[0] == 'bool':
            return ([st], []) if v[1] else ([], [st])
        if v[0] == 'int':
            return ([st], []) if v[1] != 0 else ([], [st])
        if v[0] == 'none':
            return [], [st]
        if v[0] == 'cstr':
            return ([st], []) if v[1] else ([], [st])
        if v[0] == 'list':
            return ([st], []) if v[1] else ([], [st])
        if v[0] == 'slice':
            t, f = self.split(st, apart(v[1], v[2]))
            return ([t] if t else []), ([f] if f else [])
        if v[0] == 'pos':
            t, f = self.split(st, ~at_start(v[1]))
            return ([t] if t else []), ([f] if f else [])
        self.fail(node, f'truth value of `{pf.nsrc(node)[:50]}` ({v[0]}) is not recognised')
        return [], []

    def branch(self, e: ast.AST, st: St, outs: List[Outcome]) -> Tuple[List[St], List[St]]:
        if isinstance(e, ast.UnaryOp) and isinstance(e.op, ast.Not):
            t, f = self.branch(e.operand, st, outs)
            return f, t
        if isinstance(e, ast.BoolOp):
            if isinstance(e.op, ast.And):
                live, fs = [st], []
                for v in e.values:
                    nxt: List[St] = []
                    for s in live:
                        t, f = self.branch(v, s, outs)
                        nxt += t
                        fs += f
                    live = nxt
                return live, fs
            live, ts = [st], []
            for v in e.values:
                nxt = []
                for s in live:
                    t, f = self.branch(v, s, outs)
                    ts += t
                    nxt += f
                live = nxt
            return ts, live
        if isinstance(e, ast.Compare):
            if len(e.ops) > 1:
                # a < b < c  ==  a < b and b < c   (b has no side effects in the forms recognised)
                parts = []
                left = e.left
                for op, right in zip(e.ops, e.comparators):
                    parts.append(ast.copy_location(ast.Compare(left=left, ops=[op], comparators=[right]), e))
                    left = right
                return self.branch(ast.copy_location(ast.BoolOp(op=ast.And(), values=parts), e), st, outs)
            ts: List[St] = []
            fs: List[St] = []
            for s1, a in self.eval(e.left, st, outs):
                for s2, b in self.eval(e.comparators[0], s1, outs):
                    cond = self.compare(a, e.ops[0], b, s2, e, outs)
                    if isinstance(cond, list):
                        for s3, c3 in cond:
                            t, f = self.split(s3, c3)
                            if t is not None:
                                ts.append(t)
                            if f is not None:
                                fs.append(f)
                        continue
                    t, f = self.split(s2, cond)
                    if t is not None:
                        ts.append(t)
                    if f is not None:
                        fs.append(f)
            return ts, fs
        if isinstance(e, ast.Call) and isinstance(e.func, ast.Attribute) and self.is_pred_call(e):
            ts, fs = [], []
            for s1, recv in self.eval(e.func.value, st, outs):
                meth = e.func.attr
                whole_x = recv[0] == 'slice' and (recv[1], recv[2]) == (START, END)
                cond: Any = None
                if whole_x and meth in ('startswith', 'endswith') and len(e.args) == 1:
                    cv = self.const_of(e.args[0], s1)
                    if cv is not None:
                        alts = [cv[1]] if cv[0] == 'cstr' else [x[1] for x in cv[1]]
                        cond = R.nothing()
                        for a in alts:
                            cond = cond | (R.lang(R.seq(lit_l(a), ANY), 'startswith') if meth == 'startswith' else
                                           R.lang(R.seq(ANY, R.seq(*[R.seq(R.chars(cs_of(ch)), T) for ch in a]) if a else R.EPS), 'endswith'))
                elif recv[0] == 'slice' and meth in ('isdigit', 'isdecimal', 'isnumeric', 'isalpha', 'isalnum', 'isspace') and not e.args:
                    cond = between(recv[1], recv[2], R.plus(sym(str_pred(meth))), False)
                elif recv[0] == 'char' and meth in ('isdigit', 'isdecimal', 'isnumeric', 'isalpha', 'isalnum', 'isspace') and not e.args:
                    cond = next_char_in(recv[1], str_pred(meth))
                elif whole_x and meth == '__contains__' and len(e.args) == 1:
                    cv = self.const_of(e.args[0], s1)
                    if cv is not None and cv[0] == 'cstr' and cv[1]:
                        cond = contains(cv[1])
                if cond is None:
                    self.fail(e, f'test `{pf.nsrc(e)[:60]}` is not recognised')
                t, f = self.split(s1, cond)
                if t is not None:
                    ts.append(t)
                if f is not None:
                    fs.append(f)
            return ts, fs
        ts, fs = [], []
        for s1, v in self.eval(e, st, outs):
            t, f = self.truth_states(v, s1, e)
            ts += t
            fs += f
        return ts, fs

    def compare(self, a: Any, op: ast.cmpop, b: Any, st: St, node: ast.AST, outs: List[Outcome]) -> Any:
        """condition (Lang | bool | list of (state, Lang|bool)) of `a op b`"""
        neg = isinstance(op, (ast.NotEq, ast.NotIn, ast.IsNot))
        pos_op = {ast.NotEq: ast.Eq, ast.NotIn: ast.In, ast.IsNot: ast.Is}.get(type(op), type(op))

        def fin(c: Any) -> Any:
            if isinstance(c, bool):
                return (not c) if neg else c
            return ~c if neg else c

        if pos_op is ast.Is:
            if a[0] == 'unknown' or b[0] == 'unknown':
                self.fail(node, f'identity test on an unrecognised value `{pf.nsrc(node)[:50]}`')
            return fin(a == b if (a[0] == 'none' or b[0] == 'none') else a == b)
        if pos_op is ast.In:
            if a[0] == 'char':
                c = _charset_const(b)
                if c is not None:
                    return fin(next_char_in(a[1], c))
            if a[0] == 'cstr' and b[0] == 'slice' and (b[1], b[2]) == (START, END) and a[1]:
                return fin(contains(a[1]))
            if a[0] == 'cstr' and b[0] in ('cstr',):
                return fin(a[1] in b[1])
            if a[0] == 'cstr' and b[0] == 'list' and all(x[0] == 'cstr' for x in b[1]):
                return fin(any(a[1] == x[1] for x in b[1]))
            if a[0] == 'slice' and b[0] == 'list' and all(x[0] == 'cstr' for x in b[1]):
                c = R.nothing()
                for x in b[1]:
                    c = c | between(a[1], a[2], lit_l(x[1]), x[1] == '')
                return fin(c)
            self.fail(node, f'membership test `{pf.nsrc(node)[:60]}` is not recognised')
        if pos_op is ast.Eq:
            for u, v in ((a, b), (b, a)):
                if u[0] == 'slice' and v[0] == 'cstr':
                    return fin(between(u[1], u[2], lit_l(v[1]), v[1] == ''))
                if u[0] == 'char' and v[0] == 'cstr':
                    return fin(next_char_in(u[1], cs_of(v[1])) if len(v[1]) == 1 else False)
            if a[0] == 'cstr' and b[0] == 'cstr':
                return fin(a[1] == b[1])
            if a[0] == 'bool' and b[0] == 'bool':
                return fin(a[1] == b[1])
            if a[0] == 'none' or b[0] == 'none':
                if 'unknown' in (a[0], b[0]):
                    self.fail(node, f'comparison with an unrecognised value `{pf.nsrc(node)[:50]}`')
                return fin(a[0] == b[0])
        # numeric comparisons
        num = ('int', 'pos', 'posoff', 'splitlen', 'countof')
        if a[0] in num and b[0] in num:
            flip = {ast.Lt: ast.Gt, ast.Gt: ast.Lt, ast.LtE: ast.GtE, ast.GtE: ast.LtE, ast.Eq: ast.Eq}
            if pos_op not in flip:
                self.fail(node, f'comparison `{pf.nsrc(node)[:50]}` is not recognised')
            if a[0] == 'int' and b[0] != 'int':
                a, b, pos_op = b, a, flip[pos_op]
            if a[0] == 'int' and b[0] == 'int':
                return fin({ast.Eq: a[1] == b[1], ast.Lt: a[1] < b[1], ast.LtE: a[1] <= b[1], ast.Gt: a[1] > b[1], ast.GtE: a[1] >= b[1]}[pos_op])

            def rng(k: int) -> Tuple[int, Optional[int]]:
                return {ast.Eq: (k, k), ast.Lt: (0, k - 1), ast.LtE: (0, k), ast.Gt: (k + 1, None), ast.GtE: (k, None)}[pos_op]

            if a[0] in ('splitlen', 'countof') and b[0] == 'int':
                c = cs_of(a[1])
                free = R.star(sym(SIG - c))
                lo, hi = rng(b[1] - (1 if a[0] == 'splitlen' else 0))
                if hi is not None and hi < 0:
                    return fin(False)
                return fin(whole(R.seq(R.rep(R.seq(free, sym(c)), max(lo, 0), hi), free)))
            if a[0] == 'posoff' and b[0] == 'int':
                a, b = ('pos', a[1]), ('int', b[1] - a[2])
            if a[0] == 'pos' and b[0] == 'posoff':
                a, b, pos_op = ('pos', b[1]), ('posoff', a[1], -b[2]), flip[pos_op]
            if a[0] == 'pos' and b[0] == 'int':
                lo, hi = rng(b[1])
                if hi is not None and hi < 0:
                    return fin(False)
                return fin(prefix_is(a[1], nsym(max(lo, 0), hi), lo <= 0))
            if a[0] == 'pos' and b[0] == 'pos':
                p, q = a[1], b[1]
                eq = ~apart(p, q)
                le = between(p, q, nsym(0, None), True)          # p <= q
                ge = between(q, p, nsym(0, None), True)
                return fin({ast.Eq: eq, ast.LtE: le, ast.GtE: ge, ast.Lt: le & ~eq, ast.Gt: ge & ~eq}[pos_op])
            if a[0] == 'posoff' and b[0] == 'pos':
                # p + d  op  q
                p, d, q = a[1], a[2], b[1]
                if d > 0:
                    lo, hi = {ast.Eq: (d, d), ast.Lt: (d + 1, None), ast.LtE: (d, None), ast.Gt: (0, d - 1), ast.GtE: (0, d)}[pos_op]
                    c1 = between(p, q, nsym(lo, hi), lo == 0)
                    if pos_op in (ast.Gt, ast.GtE):
                        c1 = c1 | between(q, p, nsym(0, None), True)
                    return fin(c1)
            self.fail(node, f'comparison `{pf.nsrc(node)[:50]}` between positions is not recognised')
        self.fail(node, f'comparison `{pf.nsrc(node)[:60]}` ({a[0]} vs {b[0]}) is not recognised')

    # ---- statements ---------------------------------------------------------------------
    def block(self, stmts: Sequence[ast.stmt], live: List[St], outs: List[Outcome]) -> List[St]:
        for st_ in stmts:
            if not live:
                break
            nxt: List[St] = []
            for s in live:
                nxt += self.stmt(st_, s, outs)
            live = nxt
        return live

    def bind(self, tg: ast.AST, v: Any, s: St, node: ast.stmt, outs: List[Outcome]) -> List[St]:
        if isinstance(tg, ast.Name):
            s2 = s.fork()
            s2.env[tg.id] = v
            return [s2]
        if isinstance(tg, (ast.Tuple, ast.List)) and all(isinstance(x, ast.Name) for x in tg.elts):
            n = len(tg.elts)
            if v[0] == 'list':
                if len(v[1]) != n:
                    outs.append(Outcome('raise', s, text='ValueError (unpacking)', line=node.lineno))
                    return []
                s2 = s.fork()
                for x, vv in zip(tg.elts, v[1]):
                    s2.env[x.id] = vv
                return [s2]
            if v[0] == 'split':
                c = cs_of(v[1])
                free = R.star(sym(SIG - c))
                ok, bad = self.split(s, whole(R.seq(R.rep(R.seq(free, sym(c)), n - 1, n - 1), free)))
                if bad is not None:
                    outs.append(Outcome('raise', bad, text=f'ValueError (unpacking {n} names from a split with a different number of parts)', line=node.lineno))
                if ok is None:
                    return []
                cur = ok
                for k, x in enumerate(tg.elts):
                    res = self.split_part(cur, v[1], k, node, outs)
                    if len(res) != 1:
                        self.fail(node, 'internal: split part is ambiguous')
                    cur = res[0][0].fork()
                    cur.env[x.id] = res[0][1]
                return [cur]
        self.fail(node, f'assignment target `{pf.nsrc(tg)[:40]}` / value {v[0]} is not recognised')
        return []

    def stmt(self, st_: ast.stmt, s: St, outs: List[Outcome]) -> List[St]:
        if isinstance(st_, ast.Pass) or (isinstance(st_, ast.Expr) and isinstance(st_.value, ast.Constant)):
            return [s]
        if isinstance(st_, ast.Expr) and isinstance(st_.value, ast.Call) and isinstance(st_.value.func, ast.Attribute) and st_.value.func.attr == 'append' \
                and isinstance(st_.value.func.value, ast.Name) and s.env.get(st_.value.func.value.id, ('?',))[0] == 'list' and len(st_.value.args) == 1:
            out: List[St] = []
            name = st_.value.func.value.id
            for s1, v in self.eval(st_.value.args[0], s, outs):
                s2 = s1.fork()
                s2.env[name] = ('list', list(s2.env[name][1]) + [v])
                out.append(s2)
            return out
        if isinstance(st_, ast.Expr):
            if any(isinstance(n, ast.Name) and n.id in s.env for n in ast.walk(st_)):
                self.fail(st_, f'expression statement `{pf.nsrc(st_)[:50]}` over the wire string (unrecognised effect)')
            return [s]
        if isinstance(st_, (ast.Assign, ast.AugAssign, ast.AnnAssign)):
            tgs = st_.targets if isinstance(st_, ast.Assign) else [st_.target]
            if all(isinstance(t_, (ast.Attribute, ast.Subscript)) for t_ in tgs):
                # a store into an object (a counter, a cache): no local of the decoder changes; what is read back from such state is not a
                # recognised value, and purity is the subject of another rule
                return [s]
        if isinstance(st_, ast.FunctionDef):
            s2 = s.fork()
            s2.env[st_.name] = ('func', st_, 0, True)
            return [s2]
        if isinstance(st_, (ast.Assign, ast.AnnAssign)):
            if isinstance(st_, ast.AnnAssign):
                if st_.value is None:
                    return [s]
                targets, value = [st_.target], st_.value
            else:
                targets, value = st_.targets, st_.value
            out: List[St] = []
            for s1, v in self.eval(value, s, outs):
                cur = [s1]
                for tg in targets:
                    nxt: List[St] = []
                    for c in cur:
                        nxt += self.bind(tg, v, c, st_, outs)
                    cur = nxt
                out += cur
            return out
        if isinstance(st_, ast.AugAssign) and isinstance(st_.target, ast.Name) and isinstance(st_.op, (ast.Add, ast.Sub)):
            e = ast.copy_location(ast.BinOp(left=ast.copy_location(ast.Name(id=st_.target.id, ctx=ast.Load()), st_), op=st_.op, right=st_.value), st_)
            out = []
            for s1, v in self.eval(e, s, outs):
                s2 = s1.fork()
                s2.env[st_.target.id] = v
                out.append(s2)
            return out
        if isinstance(st_, ast.If):
            ts, fs = self.branch(st_.test, s, outs)
            return self.block(st_.body, ts, outs) + self.block(st_.orelse, fs, outs)
        if isinstance(st_, ast.Return):
            if st_.value is None:
                outs.append(Outcome('return', s, ('none',), line=st_.lineno))
            else:
                for s1, v in self.eval(st_.value, s, outs):
                    outs.append(Outcome('return', s1, v, text=pf.nsrc(st_.value)[:80], line=st_.lineno))
            return []
        if isinstance(st_, ast.Raise):
            outs.append(Outcome('raise', s, text=(pf.nsrc(st_.exc)[:60] if st_.exc is not None else 'raise'), line=st_.lineno))
            return []
        if isinstance(st_, ast.Assert):
            ts, fs = self.branch(st_.test, s, outs)
            for f in fs:
                outs.append(Outcome('raise', f, text=f'AssertionError (`{pf.nsrc(st_.test)[:50]}`)', line=st_.lineno))
            return ts
        if isinstance(st_, ast.Break):
            outs.append(Outcome('break', s, line=st_.lineno))
            return []
        if isinstance(st_, ast.While):
            return self.while_scan(st_, s, outs)
        if isinstance(st_, ast.For):
            return self.for_loop(st_, s, outs)
        if isinstance(st_, ast.Try):
            return self.try_stmt(st_, s, outs)
        self.fail(st_, f'unsupported statement {type(st_).__name__}')
        return []

    def try_stmt(self, st_: ast.Try, s: St, outs: List[Outcome]) -> List[St]:
        if st_.finalbody:
            self.fail(st_, 'try/finally in the decoder')
        inner: List[Outcome] = []
        live = self.block(st_.body, [s], inner)
        live = self.block(st_.orelse, live, outs)
        for o in inner:
            if o.kind != 'raise':
                outs.append(o)
                continue
            kind = o.text.split(' ', 1)[0].split('(', 1)[0]
            handled = False
            for h in st_.handlers:
                names: List[str] = []
                if h.type is None:
                    names = ['*']
                elif isinstance(h.type, ast.Tuple):
                    names = [pf.dotted(x) or '?' for x in h.type.elts]
                else:
                    names = [pf.dotted(h.type) or '?']
                lookup = {'IndexError': ('IndexError', 'LookupError'), 'ValueError': ('ValueError',), 'TypeError': ('TypeError',), 'AssertionError': ('AssertionError',)}
                if any(n in ('*', 'Exception', 'BaseException') or n in lookup.get(kind, (kind,)) for n in names):
                    live += self.block(h.body, [o.st], outs)
                    handled = True
                    break
            if not handled:
                outs.append(o)
        return live

    def _loop_found_body(self, body: Sequence[ast.stmt], found: St, outs: List[Outcome], node: ast.AST) -> List[St]:
        """statements executed when the scanned character matches: they must leave the loop on every path"""
        inner: List[Outcome] = []
        fall = self.block(body, [found], inner)
        if fall:
            self.fail(node, 'the loop goes on scanning after a match (unrecognised idiom)')
        after: List[St] = []
        for o in inner:
            if o.kind == 'break':
                after.append(o.st)
            else:
                outs.append(o)
        return after

    def while_scan(self, st_: ast.While, s: St, outs: List[Outcome]) -> List[St]:
        """`while i < n: [c = x[i]]; if <test on c>: <leave>; i += 1`   and   `while i < n and <test on x[i]>: i += 1`"""
        t = st_.test
        conj = t.values if isinstance(t, ast.BoolOp) and isinstance(t.op, ast.And) else [t]
        head = conj[0]
        if not (isinstance(head, ast.Compare) and len(head.ops) == 1 and isinstance(head.ops[0], (ast.Lt, ast.NotEq)) and isinstance(head.left, ast.Name)):
            self.fail(st_, f'loop test `{pf.nsrc(t)[:50]}` is not `i < len(x)`')
        ivar = head.left.id
        bound = self.eval(head.comparators[0], s, outs)
        if len(bound) != 1 or bound[0][1] != ('pos', END):
            self.fail(st_, f'loop bound `{pf.nsrc(head.comparators[0])[:40]}` is not the length of the wire string')
        iv = s.env.get(ivar)
        if iv is None or iv[0] not in ('int', 'pos'):
            self.fail(st_, f'loop counter `{ivar}` does not start at a recognised position')
        frm_list = self.as_pos(s, iv, st_, True, outs)
        if len(frm_list) != 1:
            self.fail(st_, 'loop start position is ambiguous')
        s, frm = frm_list[0]
        cvar: Optional[str] = None

        def is_char(e: ast.AST) -> bool:
            if isinstance(e, ast.Name) and cvar is not None and e.id == cvar:
                return True
            return self.x_index(e, ivar, s)

        body = list(st_.body)
        if len(conj) == 1:
            if body and isinstance(body[0], ast.Assign) and len(body[0].targets) == 1 and isinstance(body[0].targets[0], ast.Name) and self.x_index(body[0].value, ivar, s):
                cvar = body[0].targets[0].id
                body = body[1:]
            ok_shape = (len(body) == 2 and isinstance(body[0], ast.If) and not body[0].orelse and isinstance(body[1], ast.AugAssign)
                        and pf.nsrc(body[1]) == f'{ivar} += 1')
            if not ok_shape:
                self.fail(st_, 'loop body is not `[c = x[i];] if <test>: <leave>; i += 1` (unrecognised scan)')
            cs = self.char_test(body[0].test, s, is_char)
            if cs is None:
                self.fail(body[0], f'scan test `{pf.nsrc(body[0].test)[:50]}` is not a test on the current character')
            s1, p = self.scan(s, frm, cs, st_)
            found, missing = self.split(s1, ~at_end(p))
            after: List[St] = []
            if found is not None:
                found.env[ivar] = ('pos', p)
                if cvar:
                    found.env[cvar] = ('char', p)
                after += self._loop_found_body(body[0].body, found, outs, st_)
            if missing is not None:
                missing.env[ivar] = ('pos', END)
                if cvar:
                    missing.env[cvar] = ('unknown', f'{cvar} after a scan that found nothing')
                after += self.block(st_.orelse, [missing], outs)
            return after
        # `while i < n and <test on x[i]>: i += 1`
        if len(body) != 1 or pf.nsrc(body[0]) != f'{ivar} += 1' or st_.orelse:
            self.fail(st_, 'loop body is not `i += 1` (unrecognised scan)')
        rest = conj[1] if len(conj) == 2 else ast.copy_location(ast.BoolOp(op=ast.And(), values=conj[1:]), t)
        go = self.char_test(rest, s, is_char)
        if go is None:
            self.fail(st_, f'scan test `{pf.nsrc(rest)[:50]}` is not a test on the current character')
        s1, p = self.scan(s, frm, SIG - go, st_)
        s1.env[ivar] = ('pos', p)
        return [s1]

    def for_loop(self, st_: ast.For, s: St, outs: List[Outcome]) -> List[St]:
        it = st_.iter
        # unrolled loop over a constant string / tuple of constants
        cv = self.const_of(it, s)
        if cv is not None and isinstance(st_.target, ast.Name):
            items = [('cstr', ch) for ch in cv[1]] if cv[0] == 'cstr' else cv[1]
            live = [s]
            done: List[St] = []
            for item in items:
                inner: List[Outcome] = []
                nxt: List[St] = []
                for c in live:
                    c2 = c.fork()
                    c2.env[st_.target.id] = item
                    nxt += self.block(st_.body, [c2], inner)
                for o in inner:
                    if o.kind == 'break':
                        done.append(o.st)
                    else:
                        outs.append(o)
                live = nxt
            live = self.block(st_.orelse, live, outs)
            return live + done
        # scan:  for i, c in enumerate(x)  /  for i in range(len(x))  /  for c in x (no index)
        ivar = cvar = None
        if isinstance(it, ast.Call) and pf.dotted(it.func) == 'enumerate' and len(it.args) == 1 and self.is_x(it.args[0], s) \
                and isinstance(st_.target, ast.Tuple) and len(st_.target.elts) == 2 and all(isinstance(x, ast.Name) for x in st_.target.elts):
            ivar, cvar = st_.target.elts[0].id, st_.target.elts[1].id
        elif isinstance(it, ast.Call) and pf.dotted(it.func) == 'range' and len(it.args) == 1 and isinstance(st_.target, ast.Name):
            b = self.eval(it.args[0], s, outs)
            if len(b) != 1 or b[0][1] != ('pos', END):
                self.fail(st_, f'loop range `{pf.nsrc(it)[:40]}` is not range(len(x))')
            ivar = st_.target.id
        elif self.is_x(it, s) and isinstance(st_.target, ast.Name):
            cvar = st_.target.id
        else:
            self.fail(st_, f'loop over `{pf.nsrc(it)[:40]}` is not a recognised scan of the wire string')
        body = list(st_.body)
        if ivar is not None and cvar is None and body and isinstance(body[0], ast.Assign) and len(body[0].targets) == 1 and isinstance(body[0].targets[0], ast.Name) \
                and self.x_index(body[0].value, ivar, s):
            cvar = body[0].targets[0].id
            body = body[1:]

        def is_char(e: ast.AST) -> bool:
            if isinstance(e, ast.Name) and cvar is not None and e.id == cvar:
                return True
            return ivar is not None and self.x_index(e, ivar, s)

        if not (len(body) == 1 and isinstance(body[0], ast.If) and not body[0].orelse):
            self.fail(st_, 'loop body is not `if <test on the character>: <leave>` (unrecognised scan)')
        cs = self.char_test(body[0].test, s, is_char)
        if cs is None:
            self.fail(body[0], f'scan test `{pf.nsrc(body[0].test)[:50]}` is not a test on the current character')
        s1, p = self.scan(s, START, cs, st_)
        found, missing = self.split(s1, ~at_end(p))
        after: List[St] = []
        if found is not None:
            if ivar:
                found.env[ivar] = ('pos', p)
            if cvar:
                found.env[cvar] = ('char', p)
            after += self._loop_found_body(body[0].body, found, outs, st_)
        if missing is not None:
            for v in (ivar, cvar):
                if v:
                    missing.env[v] = ('unknown', f'{v} after a scan that found nothing')
            after += self.block(st_.orelse, [missing], outs)
        return after

    # ---- driver --------------------------------------------------------------------------
    def run(self, L: R.Lang) -> List[Outcome]:
        outs: List[Outcome] = []
        body = [s for s in self.fn.body if not (isinstance(s, ast.Expr) and isinstance(s.value, ast.Constant))]
        live = self.block(body, [St(L, {self.x: ('slice', START, END)})], outs)
        for s in live:
            outs.append(Outcome('return', s, ('none',), text='(falls off the end)', line=self.fn.lineno))
        return outs


def contains_class(cs: R.CharSet) -> R.Lang:
    return R.lang(R.seq(ANY, R.chars(cs & SIG), ANY), 'contains_class')


# --------------------------------------------------------------------------------------
# verdict
# --------------------------------------------------------------------------------------


class ClassVerdict:
    def __init__(self, form: WriterForm):
        self.form = form
        self.problems: List[Tuple[str, int]] = []     # (message, line)
        self.exits = 0
        self.splits = 0


def _witness(L: R.Lang) -> str:
    w = plain(R.shortest(L))
    return w if w is not None else '?'


def _describe(form: WriterForm, wire: str) -> str:
    """the call whose wire form is `wire` (read off the encoder's own template; printing only)"""
    rest = wire
    alle: List[str] = []
    parts = form.parts
    for i, (kind, v) in enumerate(parts):
        if kind == 'lit':
            rest = rest[len(v):]
        else:
            nxt = parts[i + 1][1] if i + 1 < len(parts) and parts[i + 1][0] == 'lit' else None
            j = rest.find(nxt) if nxt else len(rest)
            if j < 0:
                j = len(rest)
            alle.append(rest[:j])
            rest = rest[j:]
    return f'Call([{", ".join(alle)}]' + (', phased=True)' if form.phased else ')')


def check_class(dec_factory: Callable[[], Decoder], form: WriterForm) -> ClassVerdict:
    v = ClassVerdict(form)
    dec = dec_factory()
    outs = dec.run(form.lang())
    v.splits = dec.n_splits
    p, f = form.ploidy, form.phased
    for o in outs:
        if is_empty(o.st.L):
            continue
        v.exits += 1
        wire = _witness(o.st.L)
        who = f'{_describe(form, wire)} is written as {wire!r}'
        if o.kind == 'break':
            raise AnalysisError(f'{dec.where} (line {o.line}): break outside a recognised loop')
        if o.kind == 'raise':
            v.problems.append((f'{who}; reading it back raises {o.text}', o.line))
            continue
        val = o.value
        if val[0] != 'call':
            if val[0] == 'unknown':
                raise AnalysisError(f'{dec.where} (line {o.line}): returns `{o.text}`, which is not a recognised construction of the call')
            v.problems.append((f'{who}; reading it back returns {"None" if val[0] == "none" else val[0]} instead of a call', o.line))
            continue
        al = val[1]
        if al[0] != 'list':
            raise AnalysisError(f'{dec.where} (line {o.line}): the alleles of `{o.text}` are not a recognised list')
        if len(al[1]) != p:
            v.problems.append((f'{who} (ploidy {p}); it is read back by `{o.text}` as a call with {len(al[1])} allele(s)', o.line))
            continue
        if val[2] != f:
            v.problems.append((f'{who}; it is read back with phased={val[2]}', o.line))
            continue
        # each allele is int() of exactly the substring the encoder wrote for it
        orders = [list(range(p))]
        if p == 2 and not f:
            orders.append([1, 0])     # an unphased pair is sorted by the constructor: either order rebuilds the same call
        best: Optional[str] = None
        for order in orders:
            bad = _alleles_problem(dec, form, o, al[1], order)
            if bad is None:
                best = None
                break
            best = best or bad
        if best is not None:
            v.problems.append((best, o.line))
    return v


def _alleles_problem(dec: 'Decoder', form: WriterForm, o: Outcome, alleles: List[Any], order: List[int]) -> Optional[str]:
    """None when allele i of the rebuilt call is int() of exactly the numeral written for allele order[i]; else a message with a witness"""
    for k, a in zip(order, alleles):
        if a[0] == 'intof':
            diff = apart(a[1], ('mark', OPEN[k])) | apart(a[2], ('mark', CLOSE[k]))
        elif a[0] == 'digitval':
            diff = apart(a[1], ('mark', OPEN[k])) | ~between(a[1], ('mark', CLOSE[k]), nsym(1, 1), False)
        elif a[0] == 'unknown':
            raise AnalysisError(f'{dec.where} (line {o.line}): allele `{a[1][:40]}` of `{o.text}` is not int() of a piece of the wire string')
        else:
            w = _witness(o.st.L)
            return f'{_describe(form, w)} is written as {w!r}; `{o.text}` rebuilds allele {k} as the value {a[1:]!r}, not from the numeral written for it'
        wbad = R.shortest(o.st.L & diff)
        if wbad is not None:
            wplain = plain(wbad)
            return (f'{_describe(form, wplain)} is written as {wplain!r}; `{o.text}` takes allele {k} from the piece {_piece(wbad, a)!r} of it, '
                    f'which is not the numeral written for that allele')
    return None


def _piece(marked: str, a: Any) -> str:
    """the substring a decoded allele is taken from, in a witness string (printing only)"""
    def idx(p: tuple) -> int:
        if p == START:
            return 0
        if p == END:
            return len(marked)
        return marked.index(p[1])
    if a[0] == 'intof':
        i, j = idx(a[1]), idx(a[2])
        return plain(marked[min(i, j):max(i, j)]) or ''
    if a[0] == 'digitval':
        i = idx(a[1])
        rest = plain(marked[i:]) or ''
        return rest[:1]
    return '?'
