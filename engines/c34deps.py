"""c34deps - which INPUTS of a conversion an expression of the call packer / unpacker may depend on (C34 purity rule).

Inputs ("atoms"):
  * decoder: the 32 bits of the word returned by `<stream>.read_int32()` - tracked PER RESULT BIT through `>> n`, `<< n`, `& mask`, `|`, `^`,
    `x + 2**k` / `x - 2**k`, sign tests and conditional expressions, so that `word >> 3` is known not to depend on bit 0 (phased) or
    bits 1-2 (ploidy) even after the unsigned bridge `w if w >= 0 else w + 2**32`;
  * encoder: access paths of the converted value (`value.phased`, `value.ploidy`, `value.alleles[0]`, ...), followed through helper
    parameters bound to such a path (`allele_pair_rep(value)` -> `c.phased`);
  * `self.<attr>` (parameters of the type) and, for a helper analysed on its own, its parameters.

Dependences are MAY-dependences over recognised constructs: data flow through every reaching definition of a local (flow-insensitive),
control dependence on the tests enclosing a definition / on every test of a called helper, helper calls evaluated with their parameters
bound to the dependences of the arguments, parameters of nested helpers bound to the union over their call sites, closure variables
looked up in the enclosing function.  Anything unrecognised raises AnalysisError.  Nothing is executed.
"""
from __future__ import annotations

import ast
from typing import Any, Callable, Dict, List, Optional, Sequence, Set, Tuple

from . import pyfacts as pf
from .common import AnalysisError

NB = 64
WORD_BITS = 32


class _Path:
    """a value that is (an alias of) an access path rooted at an input object"""

    def __init__(self, text: str):
        self.text = text


class _Fn:
    def __init__(self, fn: ast.FunctionDef, parent: Optional['_Fn']):
        self.fn, self.parent = fn, parent
        a = fn.args
        self.params: List[str] = [x.arg for x in a.posonlyargs + a.args + a.kwonlyargs]
        self.defs: Dict[str, List[Tuple[ast.AST, Tuple[ast.expr, ...], int]]] = {}     # name -> [(defining node, enclosing tests, index in a tuple target or -1)]
        self.nested: Dict[str, '_Fn'] = {}
        self.returns: List[ast.expr] = []
        self.tests: List[ast.expr] = []
        self._scan(fn.body, ())

    def _add(self, tgt: ast.AST, node: ast.AST, ctl: Tuple[ast.expr, ...]) -> None:
        if isinstance(tgt, ast.Name):
            self.defs.setdefault(tgt.id, []).append((node, ctl, -1))
        elif isinstance(tgt, (ast.Tuple, ast.List)):
            for i, x in enumerate(tgt.elts):
                if isinstance(x, ast.Name):
                    self.defs.setdefault(x.id, []).append((node, ctl, i))
                elif isinstance(x, (ast.Tuple, ast.List, ast.Starred)):
                    for y in ast.walk(x):
                        if isinstance(y, ast.Name):
                            self.defs.setdefault(y.id, []).append((node, ctl, -2))

    def _scan(self, stmts: Sequence[ast.stmt], ctl: Tuple[ast.expr, ...]) -> None:
        for st in stmts:
            if isinstance(st, (ast.FunctionDef, ast.AsyncFunctionDef)):
                if isinstance(st, ast.FunctionDef):
                    self.nested[st.name] = _Fn(st, self)
                continue
            if isinstance(st, ast.ClassDef):
                continue
            if isinstance(st, ast.Assign):
                for t in st.targets:
                    self._add(t, st, ctl)
            elif isinstance(st, ast.AnnAssign) and st.value is not None:
                self._add(st.target, st, ctl)
            elif isinstance(st, ast.AugAssign):
                self._add(st.target, st, ctl)
            elif isinstance(st, ast.If):
                self.tests.append(st.test)
                self._scan(st.body, ctl + (st.test,))
                self._scan(st.orelse, ctl + (st.test,))
            elif isinstance(st, ast.While):
                self.tests.append(st.test)
                self._scan(st.body, ctl + (st.test,))
                self._scan(st.orelse, ctl + (st.test,))
            elif isinstance(st, (ast.For, ast.AsyncFor)):
                self._add(st.target, st, ctl)
                self._scan(st.body, ctl)
                self._scan(st.orelse, ctl)
            elif isinstance(st, (ast.With, ast.AsyncWith)):
                for it in st.items:
                    if it.optional_vars is not None:
                        self._add(it.optional_vars, it, ctl)
                self._scan(st.body, ctl)
            elif isinstance(st, ast.Try):
                self._scan(st.body, ctl)
                for h in st.handlers:
                    self._scan(h.body, ctl)
                self._scan(st.orelse, ctl)
                self._scan(st.finalbody, ctl)
            elif isinstance(st, ast.Return) and st.value is not None:
                self.returns.append(st.value)
            for n in ast.walk(st) if isinstance(st, (ast.Assign, ast.AnnAssign, ast.AugAssign, ast.Return, ast.Expr)) else ():
                if isinstance(n, ast.NamedExpr) and isinstance(n.target, ast.Name):
                    self.defs.setdefault(n.target.id, []).append((n, ctl, -1))

    def chain(self) -> List['_Fn']:
        out, cur = [], self
        while cur is not None:
            out.append(cur)
            cur = cur.parent
        return out


class Deps:
    """Dependence analysis rooted at one converter (top) of class `cls` in module m."""

    def __init__(self, m: pf.Module, top: ast.FunctionDef, cls: Optional[ast.ClassDef], stream: Optional[str], roots: Sequence[str], selfname: Optional[str],
                 is_state: Callable[[ast.AST, ast.FunctionDef], bool]):
        """roots: parameters whose access paths are inputs (the converted value); stream: the byte-stream parameter;
        is_state(expr, enclosing top-level function): the expression denotes the state location under analysis (values read back from it are skipped)"""
        self.m, self.cls, self.stream, self.roots, self.selfname, self.is_state = m, cls, stream, list(roots), selfname, is_state
        self.top = _Fn(top, None)
        self.atom_index: Dict[str, int] = {}
        self.atom_names: List[str] = []
        for i in range(WORD_BITS):
            self._atom(f'word bit {i}')
        self.fn_cache: Dict[int, _Fn] = {id(top): self.top}
        self.by_node: Dict[int, _Fn] = {}
        self._index(self.top)
        self.call_sites: Dict[int, List[Tuple[ast.Call, _Fn]]] = {}
        self._collect_calls(self.top)
        self.active: Set[Tuple[int, str]] = set()
        self.depth = 0
        self.top_funcs = {f.name: f for f in m.tree.body if isinstance(f, ast.FunctionDef)}
        self.module_names = {t.id for st in m.tree.body for t in (st.targets if isinstance(st, ast.Assign) else [st.target] if isinstance(st, (ast.AnnAssign, ast.AugAssign)) else [])
                             if isinstance(t, ast.Name)}

    # ---- atoms -------------------------------------------------------------
    def _atom(self, name: str) -> int:
        i = self.atom_index.get(name)
        if i is None:
            i = self.atom_index[name] = len(self.atom_names)
            self.atom_names.append(name)
        return 1 << i

    def names(self, mask: int) -> List[str]:
        return [n for i, n in enumerate(self.atom_names) if mask >> i & 1]

    @staticmethod
    def flat(mask: int) -> List[int]:
        return [mask] * NB

    @staticmethod
    def allof(d: List[int]) -> int:
        out = 0
        for x in d:
            out |= x
        return out

    def word(self) -> List[int]:
        return [1 << i for i in range(WORD_BITS)] + [1 << (WORD_BITS - 1)] * (NB - WORD_BITS)   # read_int32: sign-extended

    # ---- function index --------------------------------------------------------
    def _index(self, f: _Fn) -> None:
        self._mark(f.fn.body, f)
        for c in f.nested.values():
            self._index(c)

    def _mark(self, stmts: Sequence[ast.stmt], f: _Fn) -> None:
        for st in stmts:
            if isinstance(st, (ast.FunctionDef, ast.AsyncFunctionDef, ast.ClassDef)):
                continue
            for n in self._walk_no_defs(st):
                self.by_node[id(n)] = f

    @staticmethod
    def _walk_no_defs(node: ast.AST):
        stack = [node]
        while stack:
            n = stack.pop()
            yield n
            for c in ast.iter_child_nodes(n):
                if isinstance(c, (ast.FunctionDef, ast.AsyncFunctionDef, ast.ClassDef, ast.Lambda)):
                    continue
                stack.append(c)

    def _collect_calls(self, f: _Fn) -> None:
        for st in f.fn.body:
            if isinstance(st, (ast.FunctionDef, ast.AsyncFunctionDef, ast.ClassDef)):
                continue
            for n in self._walk_no_defs(st):
                if isinstance(n, ast.Call) and isinstance(n.func, ast.Name):
                    tgt = self._lookup_nested(n.func.id, f)
                    if tgt is not None:
                        self.call_sites.setdefault(id(tgt.fn), []).append((n, f))
        for c in f.nested.values():
            self._collect_calls(c)

    @staticmethod
    def _lookup_nested(name: str, f: _Fn) -> Optional[_Fn]:
        for s in f.chain():
            if name in s.nested:
                return s.nested[name]
        return None

    def scope_of(self, node: ast.AST) -> _Fn:
        f = self.by_node.get(id(node))
        if f is None:
            raise AnalysisError(f'c34deps: expression `{pf.nsrc(node)[:40]}` is not inside the analysed function')
        return f

    # ---- expressions ---------------------------------------------------------------
    def dep(self, e: ast.AST, f: _Fn, bind: Optional[Dict[str, Any]] = None) -> List[int]:
        v = self.val(e, f, bind)
        if isinstance(v, _Path):
            return self.flat(self._atom(v.text))
        return v

    def val(self, e: ast.AST, f: _Fn, bind: Optional[Dict[str, Any]]) -> Any:
        self.depth += 1
        try:
            if self.depth > 60:
                raise AnalysisError('c34deps: expression nesting too deep')
            return self._val(e, f, bind)
        finally:
            self.depth -= 1

    def _const(self, e: ast.AST) -> Optional[int]:
        try:
            if isinstance(e, ast.Constant) and isinstance(e.value, int) and not isinstance(e.value, bool):
                return e.value
            if isinstance(e, ast.BinOp) and isinstance(e.op, ast.Pow):
                a, b = self._const(e.left), self._const(e.right)
                if a is not None and b is not None and 0 <= b <= 64:
                    return a ** b
            if isinstance(e, ast.BinOp) and isinstance(e.op, (ast.LShift, ast.Sub, ast.Add, ast.Mult)):
                a, b = self._const(e.left), self._const(e.right)
                if a is not None and b is not None:
                    if isinstance(e.op, ast.LShift):
                        return a << b if 0 <= b <= 64 else None
                    return a - b if isinstance(e.op, ast.Sub) else (a + b if isinstance(e.op, ast.Add) else a * b)
            if isinstance(e, ast.UnaryOp) and isinstance(e.op, ast.USub):
                a = self._const(e.operand)
                return -a if a is not None else None
        except (OverflowError, ValueError):
            return None
        return None

    def _val(self, e: ast.AST, f: _Fn, bind: Optional[Dict[str, Any]]) -> Any:
        if self._const(e) is not None or isinstance(e, ast.Constant):
            return self.flat(0)
        if isinstance(e, ast.Name):
            return self.name(e.id, f, bind, e)
        if isinstance(e, ast.Attribute):
            base = self.val(e.value, f, bind)
            if isinstance(base, _Path):
                return _Path(f'{base.text}.{e.attr}')
            return self.flat(self.allof(base))
        if isinstance(e, ast.Subscript):
            base = self.val(e.value, f, bind)
            if isinstance(e.slice, ast.Slice):
                idx = 0
                for part in (e.slice.lower, e.slice.upper, e.slice.step):
                    if part is not None:
                        idx |= self.allof(self.dep(part, f, bind))
            else:
                k = self._const(e.slice)
                if isinstance(base, _Path) and k is not None:
                    return _Path(f'{base.text}[{k}]')
                idx = self.allof(self.dep(e.slice, f, bind))
            if isinstance(base, _Path):
                base = self.flat(self._atom(base.text))
            return self.flat(self.allof(base) | idx)
        if isinstance(e, (ast.List, ast.Tuple, ast.Set)):
            m = 0
            for x in e.elts:
                m |= self.allof(self.dep(x.value if isinstance(x, ast.Starred) else x, f, bind))
            return self.flat(m)
        if isinstance(e, ast.Dict):
            m = 0
            for x in list(e.keys) + list(e.values):
                if x is not None:
                    m |= self.allof(self.dep(x, f, bind))
            return self.flat(m)
        if isinstance(e, ast.IfExp):
            t = self.allof(self.test(e.test, f, bind))
            a, b = self.dep(e.body, f, bind), self.dep(e.orelse, f, bind)
            return [x | y | t for x, y in zip(a, b)]
        if isinstance(e, (ast.Compare, ast.BoolOp)) or (isinstance(e, ast.UnaryOp) and isinstance(e.op, ast.Not)):
            return self.test(e, f, bind)
        if isinstance(e, ast.UnaryOp):
            d = self.dep(e.operand, f, bind)
            if isinstance(e.op, ast.Invert):
                return d
            return self.flat(self.allof(d))
        if isinstance(e, ast.BinOp):
            return self.binop(e, f, bind)
        if isinstance(e, ast.NamedExpr):
            return self.val(e.value, f, bind)
        if isinstance(e, ast.Call):
            return self.call(e, f, bind)
        if isinstance(e, (ast.ListComp, ast.SetComp, ast.GeneratorExp, ast.DictComp)):
            b2 = dict(bind or {})
            m = 0
            for g in e.generators:
                it = self.allof(self.dep(g.iter, f, b2))
                m |= it
                for x in ast.walk(g.target):
                    if isinstance(x, ast.Name):
                        b2[x.id] = self.flat(it)
                for c in g.ifs:
                    m |= self.allof(self.dep(c, f, b2))
            for x in ([e.key, e.value] if isinstance(e, ast.DictComp) else [e.elt]):
                m |= self.allof(self.dep(x, f, b2))
            return self.flat(m)
        if isinstance(e, ast.JoinedStr):
            m = 0
            for x in e.values:
                if isinstance(x, ast.FormattedValue):
                    m |= self.allof(self.dep(x.value, f, bind))
            return self.flat(m)
        raise AnalysisError(f'c34deps: unrecognised expression `{pf.nsrc(e)[:50]}` ({type(e).__name__})')

    def test(self, e: ast.AST, f: _Fn, bind: Optional[Dict[str, Any]]) -> List[int]:
        """dependences of a truth value; a sign test looks at the sign bit only"""
        if isinstance(e, ast.Compare) and len(e.ops) == 1:
            l, r, op = e.left, e.comparators[0], e.ops[0]
            if self._const(r) == 0 and isinstance(op, (ast.GtE, ast.Lt)):
                return self.flat(self.dep(l, f, bind)[NB - 1])
            if self._const(l) == 0 and isinstance(op, (ast.LtE, ast.Gt)):
                return self.flat(self.dep(r, f, bind)[NB - 1])
        if not (isinstance(e, (ast.Compare, ast.BoolOp)) or (isinstance(e, ast.UnaryOp) and isinstance(e.op, ast.Not))):
            return self.flat(self.allof(self.dep(e, f, bind)))
        m = 0
        for c in ast.iter_child_nodes(e):
            if isinstance(c, ast.expr):
                m |= self.allof(self.test(c, f, bind) if isinstance(c, (ast.Compare, ast.BoolOp, ast.UnaryOp)) else self.dep(c, f, bind))
        return self.flat(m)

    def binop(self, e: ast.BinOp, f: _Fn, bind: Optional[Dict[str, Any]]) -> List[int]:
        a = self.dep(e.left, f, bind)
        kr = self._const(e.right)
        kl = self._const(e.left)
        if isinstance(e.op, ast.RShift) and kr is not None and 0 <= kr < NB:
            return [a[min(i + kr, NB - 1)] for i in range(NB)]
        if isinstance(e.op, ast.LShift) and kr is not None and 0 <= kr < NB:
            return [a[i - kr] if i >= kr else 0 for i in range(NB)]
        b = self.dep(e.right, f, bind)
        if isinstance(e.op, ast.BitAnd):
            for d, k in ((a, kr), (b, kl)):
                if k is not None and k >= 0:
                    return [d[i] if k >> i & 1 else 0 for i in range(NB)]
            return [x | y for x, y in zip(a, b)]
        if isinstance(e.op, (ast.BitOr, ast.BitXor)):
            return [x | y for x, y in zip(a, b)]
        if isinstance(e.op, (ast.Add, ast.Sub)):
            for d, k in ((a, kr), (b, kl if isinstance(e.op, ast.Add) else None)):
                if k is not None and k != 0 and abs(k) & (abs(k) - 1) == 0:
                    lo = abs(k).bit_length() - 1
                    out = list(d[:lo])
                    acc = 0
                    for i in range(lo, NB):
                        acc |= d[i]
                        out.append(acc)
                    return out
                if k == 0:
                    return d
        if isinstance(e.op, ast.Mod) and kr is not None and kr > 0 and kr & (kr - 1) == 0:
            lo = kr.bit_length() - 1
            return [a[i] if i < lo else 0 for i in range(NB)]
        return self.flat(self.allof(a) | self.allof(b))

    # ---- names --------------------------------------------------------------------------
    def name(self, n: str, f: _Fn, bind: Optional[Dict[str, Any]], node: ast.AST) -> Any:
        if bind is not None and n in bind:
            return bind[n]
        for s in f.chain():
            if n in s.defs or n in s.params:
                return self.local(n, s, bind if s is f else None, node)
            if n in s.nested:
                return self.flat(0)
        if n == self.selfname:
            return _Path('self')
        return self.flat(0)     # module-level constant / table / function / builtin: not an input of the conversion

    def local(self, n: str, s: _Fn, bind: Optional[Dict[str, Any]], node: ast.AST) -> Any:
        key = (id(s.fn), n)
        if key in self.active:
            return self.flat(0)      # a definition in terms of the previous value of the same name: the other definitions carry the inputs
        self.active.add(key)
        try:
            out: Any = None
            pieces: List[Any] = []
            if n in s.params and (bind is None or n not in bind):
                pieces.append(self.param(n, s, node))
            for dnode, ctl, idx in s.defs.get(n, []):
                ctl_mask = 0
                for t in ctl:
                    ctl_mask |= self.allof(self.test(t, s, bind))
                src: Optional[ast.AST]
                if isinstance(dnode, (ast.Assign, ast.AnnAssign)):
                    src = dnode.value
                elif isinstance(dnode, ast.AugAssign):
                    src = ast.copy_location(ast.BinOp(left=ast.copy_location(ast.Name(id=n, ctx=ast.Load()), dnode), op=dnode.op, right=dnode.value), dnode)
                elif isinstance(dnode, (ast.For, ast.AsyncFor)):
                    src = dnode.iter
                    idx = -2
                elif isinstance(dnode, ast.withitem):
                    src = dnode.context_expr
                    idx = -2
                elif isinstance(dnode, ast.NamedExpr):
                    src = dnode.value
                else:
                    raise AnalysisError(f'c34deps: unrecognised definition of `{n}`')
                if src is None:
                    continue
                top = s.chain()[-1].fn
                if any(self.is_state(x, top) for x in ast.walk(src) if isinstance(x, (ast.Name, ast.Attribute))):
                    continue   # the value read back from the store itself
                v = self.val(src, s, bind)
                if idx >= 0:
                    if isinstance(v, _Path):
                        v = _Path(f'{v.text}[{idx}]')
                    elif isinstance(src, (ast.Tuple, ast.List)) and idx < len(src.elts):
                        v = self.val(src.elts[idx], s, bind)
                elif idx == -2 and isinstance(v, _Path):
                    v = self.flat(self._atom(v.text))
                if ctl_mask and isinstance(v, _Path):
                    v = self.flat(self._atom(v.text))
                if not isinstance(v, _Path):
                    v = [x | ctl_mask for x in v]
                pieces.append(v)
            if not pieces:
                return self.flat(0)
            if len(pieces) == 1:
                return pieces[0]
            acc = self.flat(0)
            for p in pieces:
                d = self.flat(self._atom(p.text)) if isinstance(p, _Path) else p
                acc = [x | y for x, y in zip(acc, d)]
            return acc
        finally:
            self.active.discard(key)

    def param(self, n: str, s: _Fn, node: ast.AST) -> Any:
        if s.parent is None:
            # a parameter of the function analysed
            if s is self.top:
                if n in self.roots:
                    return _Path(n)
                if n == self.selfname:
                    return _Path('self')
                if n == self.stream:
                    return self.flat(self._atom('the byte stream'))
                return self.flat(self._atom(f'parameter {n}'))
            return self.flat(self._atom(f'parameter {n}'))
        # a parameter of a nested helper: the union over its call sites
        sites = self.call_sites.get(id(s.fn), [])
        if not sites:
            return self.flat(self._atom(f'parameter {n} of {s.fn.name}'))
        pos = s.params.index(n)
        pieces: List[Any] = []
        for call, where in sites:
            arg: Optional[ast.AST] = None
            if pos < len(call.args) and not any(isinstance(a, ast.Starred) for a in call.args):
                arg = call.args[pos]
            for kw in call.keywords:
                if kw.arg == n:
                    arg = kw.value
            if arg is None:
                dflt = self._default(s.fn, n)
                if dflt is None:
                    raise AnalysisError(f'c34deps: argument {n} of {s.fn.name} not found at a call site')
                arg = dflt
                where = s.parent
            pieces.append(self.val(arg, where, None))
        if len(pieces) == 1:
            return pieces[0]
        if all(isinstance(p, _Path) for p in pieces) and len({p.text for p in pieces}) == 1:
            return pieces[0]
        acc = self.flat(0)
        for p in pieces:
            d = self.flat(self._atom(p.text)) if isinstance(p, _Path) else p
            acc = [x | y for x, y in zip(acc, d)]
        return acc

    @staticmethod
    def _default(fn: ast.FunctionDef, n: str) -> Optional[ast.AST]:
        pos = fn.args.posonlyargs + fn.args.args
        for a, d in zip(pos[len(pos) - len(fn.args.defaults):], fn.args.defaults):
            if a.arg == n:
                return d
        for a, d in zip(fn.args.kwonlyargs, fn.args.kw_defaults):
            if a.arg == n and d is not None:
                return d
        return None

    # ---- calls --------------------------------------------------------------------------------
    def call(self, e: ast.Call, f: _Fn, bind: Optional[Dict[str, Any]]) -> Any:
        fn = e.func
        if isinstance(fn, ast.Attribute) and isinstance(fn.value, ast.Name) and self.stream and fn.value.id == self.stream and self._is_top_param(fn.value.id, f):
            if fn.attr == 'read_int32' and not e.args:
                return self.word()
            return self.flat(self._atom('the byte stream'))
        args: List[Tuple[Optional[str], Any]] = []
        for a in e.args:
            if isinstance(a, ast.Starred):
                raise AnalysisError(f'c34deps: starred argument in `{pf.nsrc(e)[:40]}`')
            args.append((None, self.val(a, f, bind)))
        for kw in e.keywords:
            if kw.arg is None:
                raise AnalysisError(f'c34deps: ** argument in `{pf.nsrc(e)[:40]}`')
            args.append((kw.arg, self.val(kw.value, f, bind)))
        callee: Optional[_Fn] = None
        skip = 0
        if isinstance(fn, ast.Name):
            callee = self._lookup_nested(fn.id, f)
            if callee is None and fn.id in self.top_funcs and not any(fn.id in s.defs or fn.id in s.params for s in f.chain()):
                callee = self._fn_of(self.top_funcs[fn.id])
        elif isinstance(fn, ast.Attribute) and isinstance(fn.value, ast.Name) and self.cls is not None:
            recv = fn.value.id
            if recv == self.selfname or recv == self.cls.name:
                for st in self.cls.body:
                    if isinstance(st, ast.FunctionDef) and st.name == fn.attr and not st.name.startswith('_convert_'):
                        decos = pf.decorator_names(st)
                        if 'property' in decos or 'classmethod' in decos:
                            break
                        callee = self._fn_of(st)
                        skip = 0 if ('staticmethod' in decos or recv != self.selfname) else 1
                        break
        if callee is None:
            # builtin / library function / method of a value: a function of its arguments (and receiver)
            m = 0
            if isinstance(fn, ast.Attribute):
                m |= self.allof(self.dep(fn.value, f, bind))
            for _, v in args:
                m |= self.allof(self.flat(self._atom(v.text)) if isinstance(v, _Path) else v)
            return self.flat(m)
        if len(self.active) > 40:
            raise AnalysisError('c34deps: helper calls nested too deep')
        params = callee.params[skip:]
        b2: Dict[str, Any] = {}
        pos = [v for k, v in args if k is None]
        if len(pos) > len(params):
            raise AnalysisError(f'c34deps: too many arguments for {callee.fn.name}')
        for p, v in zip(params, pos):
            b2[p] = v
        for k, v in args:
            if k is not None:
                b2[k] = v
        for p in params:
            if p not in b2:
                d = self._default(callee.fn, p)
                if d is None:
                    raise AnalysisError(f'c34deps: argument {p} of {callee.fn.name} unbound')
                b2[p] = self.val(d, callee.parent or callee, None)
        if skip:
            b2[callee.params[0]] = _Path('self')
        key = (id(callee.fn), '<call>')
        if key in self.active:
            m = 0
            for v in b2.values():
                m |= self.allof(self.flat(self._atom(v.text)) if isinstance(v, _Path) else v)
            return self.flat(m)
        self.active.add(key)
        try:
            ctl = 0
            for t in callee.tests:
                ctl |= self.allof(self.test(t, callee, b2))
            rets = [self.val(r, callee, b2) for r in callee.returns]
            if len(rets) == 1 and isinstance(rets[0], _Path) and not ctl:
                return rets[0]
            acc = self.flat(ctl)
            for r in rets:
                d = self.flat(self._atom(r.text)) if isinstance(r, _Path) else r
                acc = [x | y for x, y in zip(acc, d)]
            return acc
        finally:
            self.active.discard(key)

    def _is_top_param(self, n: str, f: _Fn) -> bool:
        for s in f.chain():
            if n in s.defs:
                return False
            if n in s.params:
                return s.parent is None
        return False

    def _fn_of(self, fn: ast.FunctionDef) -> _Fn:
        r = self.fn_cache.get(id(fn))
        if r is None:
            r = self.fn_cache[id(fn)] = _Fn(fn, None)
            self._index(r)
            self._collect_calls(r)
        return r

    # ---- coverage ---------------------------------------------------------------------------------
    def missing(self, value_mask: int, key_mask: int) -> List[str]:
        """atoms of the value that the key does not determine (an access path is covered by any prefix of it)"""
        keys = self.names(key_mask)
        out = []
        for a in self.names(value_mask & ~key_mask):
            if any(a == k or a.startswith(k + '.') or a.startswith(k + '[') for k in keys):
                continue
            out.append(a)
        return out
