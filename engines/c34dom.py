"""c34dom - the ACCEPTANCE DOMAIN of a validating constructor (hail.genetics.Call.__init__) over the finite case split
(ploidy in 0..2) x (phased in F/T) and an interval per allele index (C34: the Python front end must be able to represent every call the
engine can represent).

The constructor body is executed abstractly - per case, never on concrete calls: the state is one integer interval per allele (a box)
plus an environment of symbolic values; a test on one allele (`a < c`, `0 <= a <= c`, `a > MAX`, `max(alleles) > c`,
`all(... for a in alleles)`) splits the box, tests on `len(alleles)` / `phased` are decided by the case, `isinstance` tests hold
(well-typed arguments), loops over the alleles are unrolled (ploidy <= 2), same-module helpers are executed in place.  Tests that
relate two alleles or that are not recognised fork without refining and taint the path: a `raise` / failing `assert` reached on a
tainted path makes the analysis decline (AnalysisError); reached on an untainted, non-empty box it is a rejection of every call in
that box.  Nothing is run; concrete numbers are only read off a box to print a witness.
"""
from __future__ import annotations

import ast
from typing import Any, Callable, Dict, List, Optional, Sequence, Tuple

from . import pyfacts as pf
from .common import AnalysisError

Interval = Tuple[int, int]


class St:
    __slots__ = ('box', 'env', 'taint')

    def __init__(self, box: Tuple[Interval, ...], env: Dict[str, Any], taint: Optional[str] = None):
        self.box, self.env, self.taint = box, env, taint

    def fork(self, box: Optional[Tuple[Interval, ...]] = None, taint: Optional[str] = None) -> 'St':
        return St(self.box if box is None else box, dict(self.env), taint or self.taint)


class Rejection:
    def __init__(self, st: St, text: str, line: int):
        self.st, self.text, self.line = st, text, line


class Acceptance:
    """abstract execution of fn(self, alleles, phased) for one (ploidy, phased) case"""

    def __init__(self, m: pf.Module, cls: Optional[ast.ClassDef], fn: ast.FunctionDef, where: str, consts: Callable[[str], Optional[int]]):
        self.m, self.cls, self.fn, self.where, self.consts = m, cls, fn, where, consts
        self.depth = 0
        self.returned: List[List[St]] = [[]]
        self.budget = 2000
        self.top_funcs = {f.name: f for f in m.tree.body if isinstance(f, ast.FunctionDef)}

    def fail(self, node: Optional[ast.AST], msg: str):
        raise AnalysisError(f'{self.where} (line {getattr(node, "lineno", 0)}): {msg}')

    # ---- values ---------------------------------------------------------------------------
    def const(self, e: ast.AST) -> Optional[int]:
        try:
            if isinstance(e, ast.Constant) and isinstance(e.value, int) and not isinstance(e.value, bool):
                return e.value
            if isinstance(e, ast.UnaryOp) and isinstance(e.op, ast.USub):
                v = self.const(e.operand)
                return -v if v is not None else None
            if isinstance(e, ast.BinOp):
                a, b = self.const(e.left), self.const(e.right)
                if a is None or b is None:
                    return None
                if isinstance(e.op, ast.Pow) and 0 <= b <= 64:
                    return a ** b
                if isinstance(e.op, ast.LShift) and 0 <= b <= 64:
                    return a << b
                if isinstance(e.op, ast.Add):
                    return a + b
                if isinstance(e.op, ast.Sub):
                    return a - b
                if isinstance(e.op, ast.Mult):
                    return a * b
                if isinstance(e.op, ast.BitOr):
                    return a | b
            if isinstance(e, (ast.Name, ast.Attribute)):
                d = pf.dotted(e)
                if d is not None:
                    return self.consts(d)
        except (OverflowError, ValueError):
            return None
        return None

    def eval(self, e: ast.AST, st: St) -> Any:
        k = self.const(e) if not (isinstance(e, ast.Name) and e.id in st.env) else None
        if k is not None:
            return ('int', k)
        if isinstance(e, ast.Constant):
            if isinstance(e.value, bool):
                return ('bool', e.value)
            if e.value is None:
                return ('none',)
            return ('unknown', pf.nsrc(e))
        if isinstance(e, ast.Name):
            return st.env.get(e.id, ('unknown', e.id))
        if isinstance(e, ast.Attribute):
            d = pf.dotted(e)
            if d is not None and d in st.env:
                return st.env[d]
            return ('unknown', pf.nsrc(e))
        if isinstance(e, ast.Subscript):
            base = self.eval(e.value, st)
            idx = self.eval(e.slice, st) if not isinstance(e.slice, ast.Slice) else ('unknown', '')
            if base[0] == 'alleles' and idx[0] == 'int':
                n = len(st.box)
                i = idx[1] + n if idx[1] < 0 else idx[1]
                if 0 <= i < n:
                    return ('allele', i)
                return ('raises', 'IndexError')
            if base[0] == 'list' and idx[0] == 'int' and -len(base[1]) <= idx[1] < len(base[1]):
                return base[1][idx[1]]
            return ('unknown', pf.nsrc(e))
        if isinstance(e, (ast.List, ast.Tuple)):
            return ('list', [self.eval(x, st) for x in e.elts])
        if isinstance(e, ast.Call):
            d = pf.dotted(e.func)
            args = [self.eval(a, st) for a in e.args]
            if d == 'len' and len(args) == 1:
                if args[0][0] == 'alleles':
                    return ('int', len(st.box))
                if args[0][0] == 'list':
                    return ('int', len(args[0][1]))
            if d in ('max', 'min') and len(args) == 1 and args[0][0] == 'alleles' and not e.keywords:
                if not st.box:
                    return ('raises', f'ValueError ({d}() of an empty sequence)')
                return (d, [('allele', i) for i in range(len(st.box))])
            if d in ('max', 'min') and len(args) >= 2 and all(a[0] in ('allele', 'int') for a in args):
                return (d, args)
            if d in ('list', 'tuple', 'sorted') and len(args) == 1 and args[0][0] == 'alleles':
                if d != 'sorted':
                    return ('alleles',)
                n = len(st.box)
                if n <= 1 and not e.keywords:
                    return ('alleles',)
                if n == 2 and not e.keywords:
                    pair = [('allele', 0), ('allele', 1)]
                    return ('list', [('min', pair), ('max', pair)])
                return ('unknown', pf.nsrc(e))
            if d in ('list', 'tuple') and len(args) == 1 and args[0][0] == 'list':
                return args[0]
            if d in ('int',) and len(args) == 1 and args[0][0] in ('allele', 'int'):
                return args[0]
            if d == 'bool' and len(args) == 1 and args[0][0] == 'bool':
                return args[0]
            return ('unknown', pf.nsrc(e))
        if isinstance(e, (ast.ListComp, ast.GeneratorExp)) and len(e.generators) == 1 and not e.generators[0].ifs:
            g = e.generators[0]
            items = self.iter_items(g.iter, g.target, st)
            if items is not None:
                out = []
                for bind in items:
                    s2 = st.fork()
                    s2.env.update(bind)
                    out.append(self.eval(e.elt, s2))
                return ('list', out)
            return ('unknown', pf.nsrc(e))
        return ('unknown', pf.nsrc(e))

    # ---- tests ---------------------------------------------------------------------------------
    def refine(self, st: St, i: int, lo: Optional[int], hi: Optional[int]) -> Optional[St]:
        a, b = st.box[i]
        if lo is not None:
            a = max(a, lo)
        if hi is not None:
            b = min(b, hi)
        if a > b:
            return None
        return st.fork(st.box[:i] + ((a, b),) + st.box[i + 1:])

    def cmp_allele_int(self, st: St, i: int, op: type, c: int) -> Tuple[List[St], List[St]]:
        """split the box on `allele_i op c`"""
        def both(t: List[Optional[St]], f: List[Optional[St]]):
            return [x for x in t if x is not None], [x for x in f if x is not None]
        if op is ast.Lt:
            return both([self.refine(st, i, None, c - 1)], [self.refine(st, i, c, None)])
        if op is ast.LtE:
            return both([self.refine(st, i, None, c)], [self.refine(st, i, c + 1, None)])
        if op is ast.Gt:
            return both([self.refine(st, i, c + 1, None)], [self.refine(st, i, None, c)])
        if op is ast.GtE:
            return both([self.refine(st, i, c, None)], [self.refine(st, i, None, c - 1)])
        if op is ast.Eq:
            return both([self.refine(st, i, c, c)], [self.refine(st, i, None, c - 1), self.refine(st, i, c + 1, None)])
        if op is ast.NotEq:
            return both([self.refine(st, i, None, c - 1), self.refine(st, i, c + 1, None)], [self.refine(st, i, c, c)])
        raise AnalysisError(f'{self.where}: comparison operator {op.__name__} on an allele index')

    FLIP = {ast.Lt: ast.Gt, ast.Gt: ast.Lt, ast.LtE: ast.GtE, ast.GtE: ast.LtE, ast.Eq: ast.Eq, ast.NotEq: ast.NotEq}

    def compare(self, a: Any, op: ast.cmpop, b: Any, st: St, node: ast.AST) -> Tuple[List[St], List[St]]:
        t = type(op)
        if a[0] == 'raises' or b[0] == 'raises':
            raise _Raises((a if a[0] == 'raises' else b)[1], st, node)
        if t in (ast.Is, ast.IsNot) and (a[0] == 'none' or b[0] == 'none'):
            other = b if a[0] == 'none' else a
            if other[0] == 'unknown':
                return self.unknown(st, node)
            same = other[0] == 'none'
            return ([st], []) if same == (t is ast.Is) else ([], [st])
        if t not in self.FLIP:
            return self.unknown(st, node)
        if a[0] == 'int' and b[0] != 'int':
            a, b, t = b, a, self.FLIP[t]
        if a[0] in ('int', 'bool') and b[0] in ('int', 'bool'):
            x, y = a[1], b[1]
            r = {ast.Lt: x < y, ast.LtE: x <= y, ast.Gt: x > y, ast.GtE: x >= y, ast.Eq: x == y, ast.NotEq: x != y}[t]
            return ([st], []) if r else ([], [st])
        if a[0] == 'allele' and b[0] == 'int':
            return self.cmp_allele_int(st, a[1], t, b[1])
        if a[0] in ('max', 'min') and b[0] == 'int':
            # max(xs) > c  ==  any(x > c);  max(xs) <= c == all(x <= c);  min dual
            exists = (a[0] == 'max' and t in (ast.Gt, ast.GtE)) or (a[0] == 'min' and t in (ast.Lt, ast.LtE))
            forall = (a[0] == 'max' and t in (ast.Lt, ast.LtE)) or (a[0] == 'min' and t in (ast.Gt, ast.GtE))
            if not (exists or forall):
                return self.unknown(st, node)
            live, ts, fs = [st], [], []
            for x in a[1]:
                nxt: List[St] = []
                for s in live:
                    tt, ff = self.compare(x, op, b, s, node)
                    if exists:
                        ts += tt
                        nxt += ff
                    else:
                        fs += ff
                        nxt += tt
                live = nxt
            return (ts, live) if exists else (live, fs)
        if a[0] == 'allele' and b[0] == 'allele':
            if a[1] == b[1]:
                r = t in (ast.LtE, ast.GtE, ast.Eq)
                return ([st], []) if r else ([], [st])
            # a relation between two alleles (the sort of an unphased pair): both outcomes, no refinement
            return [st.fork(taint=f'`{pf.nsrc(node)[:50]}` relates two alleles')], [st.fork(taint=f'`{pf.nsrc(node)[:50]}` relates two alleles')]
        return self.unknown(st, node)

    def unknown(self, st: St, node: ast.AST) -> Tuple[List[St], List[St]]:
        why = f'test `{pf.nsrc(node)[:60]}` is not recognised'
        return [st.fork(taint=why)], [st.fork(taint=why)]

    def branch(self, e: ast.AST, st: St) -> Tuple[List[St], List[St]]:
        self.budget -= 1
        if self.budget <= 0:
            raise AnalysisError(f'{self.where}: too many case splits')
        if isinstance(e, ast.UnaryOp) and isinstance(e.op, ast.Not):
            t, f = self.branch(e.operand, st)
            return f, t
        if isinstance(e, ast.BoolOp):
            if isinstance(e.op, ast.And):
                live, fs = [st], []
                for v in e.values:
                    nxt: List[St] = []
                    for s in live:
                        t, f = self.branch(v, s)
                        nxt += t
                        fs += f
                    live = nxt
                return live, fs
            live, ts = [st], []
            for v in e.values:
                nxt = []
                for s in live:
                    t, f = self.branch(v, s)
                    ts += t
                    nxt += f
                live = nxt
            return ts, live
        if isinstance(e, ast.Compare):
            if len(e.ops) > 1:
                parts, left = [], e.left
                for op, right in zip(e.ops, e.comparators):
                    parts.append(ast.copy_location(ast.Compare(left=left, ops=[op], comparators=[right]), e))
                    left = right
                return self.branch(ast.copy_location(ast.BoolOp(op=ast.And(), values=parts), e), st)
            if isinstance(e.ops[0], (ast.In, ast.NotIn)):
                return self.unknown(st, e)
            return self.compare(self.eval(e.left, st), e.ops[0], self.eval(e.comparators[0], st), st, e)
        if isinstance(e, ast.Call):
            d = pf.dotted(e.func)
            if d == 'isinstance' and len(e.args) == 2:
                return [st], []        # arguments are well-typed (a sequence of ints, a bool): type tests hold
            if d in ('all', 'any') and len(e.args) == 1 and isinstance(e.args[0], (ast.GeneratorExp, ast.ListComp)) and len(e.args[0].generators) == 1:
                g = e.args[0].generators[0]
                items = self.iter_items(g.iter, g.target, st)
                if items is not None and not g.ifs:
                    live, ts, fs = [st], [], []
                    for bind in items:
                        nxt: List[St] = []
                        for s in live:
                            s2 = s.fork()
                            s2.env.update(bind)
                            tt, ff = self.branch(e.args[0].elt, s2)
                            if d == 'any':
                                ts += tt
                                nxt += ff
                            else:
                                fs += ff
                                nxt += tt
                        live = nxt
                    return (ts, live) if d == 'any' else (live, fs)
            return self.unknown(st, e)
        v = self.eval(e, st)
        if v[0] == 'bool':
            return ([st], []) if v[1] else ([], [st])
        if v[0] == 'int':
            return ([st], []) if v[1] != 0 else ([], [st])
        if v[0] == 'alleles':
            return ([st], []) if st.box else ([], [st])
        if v[0] == 'none':
            return [], [st]
        if v[0] == 'allele':
            return self.cmp_allele_int(st, v[1], ast.NotEq, 0)
        return self.unknown(st, e)

    def iter_items(self, it: ast.AST, target: ast.AST, st: St) -> Optional[List[Dict[str, Any]]]:
        """bindings of a loop / comprehension target per element when the iteration is over the alleles"""
        n = len(st.box)
        v = self.eval(it, st)
        if v[0] == 'alleles' and isinstance(target, ast.Name):
            return [{target.id: ('allele', i)} for i in range(n)]
        if v[0] == 'list' and isinstance(target, ast.Name):
            return [{target.id: x} for x in v[1]]
        if isinstance(it, ast.Call):
            d = pf.dotted(it.func)
            if d == 'enumerate' and len(it.args) == 1 and self.eval(it.args[0], st)[0] == 'alleles' and isinstance(target, ast.Tuple) and len(target.elts) == 2 \
                    and all(isinstance(x, ast.Name) for x in target.elts):
                return [{target.elts[0].id: ('int', i), target.elts[1].id: ('allele', i)} for i in range(n)]
            if d == 'range' and len(it.args) == 1 and isinstance(target, ast.Name):
                b = self.eval(it.args[0], st)
                if b[0] == 'int' and 0 <= b[1] <= 4:
                    return [{target.id: ('int', i)} for i in range(b[1])]
        return None

    # ---- statements --------------------------------------------------------------------------------
    def block(self, stmts: Sequence[ast.stmt], live: List[St], rej: List[Rejection]) -> List[St]:
        for st_ in stmts:
            if not live:
                break
            nxt: List[St] = []
            for s in live:
                try:
                    nxt += self.stmt(st_, s, rej)
                except _Raises as r:
                    rej.append(Rejection(r.st, r.text, getattr(r.node, 'lineno', st_.lineno)))
            live = nxt
        return live

    @staticmethod
    def _may_reject(node: ast.AST) -> bool:
        return any(isinstance(n, (ast.Raise, ast.Assert)) for n in ast.walk(node))

    def stmt(self, st_: ast.stmt, s: St, rej: List[Rejection]) -> List[St]:
        if isinstance(st_, (ast.Pass, ast.Import, ast.ImportFrom, ast.Global, ast.Nonlocal)) or (isinstance(st_, ast.Expr) and isinstance(st_.value, ast.Constant)):
            return [s]
        if isinstance(st_, ast.Expr):
            if isinstance(st_.value, ast.Call):
                h = self.helper(st_.value, s)
                if h is not None:
                    return self.call_helper(h, st_.value, s, rej)
            return [s]
        if isinstance(st_, (ast.Assign, ast.AnnAssign)):
            value = st_.value
            targets = st_.targets if isinstance(st_, ast.Assign) else [st_.target]
            if value is None:
                return [s]
            v = self.eval(value, s)
            if v[0] == 'raises':
                raise _Raises(v[1], s, st_)
            s2 = s.fork()
            for tg in targets:
                if isinstance(tg, ast.Name):
                    s2.env[tg.id] = v
                elif isinstance(tg, (ast.Tuple, ast.List)) and v[0] == 'list' and len(v[1]) == len(tg.elts):
                    for x, vv in zip(tg.elts, v[1]):
                        if isinstance(x, ast.Name):
                            s2.env[x.id] = vv
                elif isinstance(tg, (ast.Tuple, ast.List)) and v[0] == 'alleles' and len(tg.elts) == len(s.box):
                    for i, x in enumerate(tg.elts):
                        if isinstance(x, ast.Name):
                            s2.env[x.id] = ('allele', i)
                elif isinstance(tg, (ast.Tuple, ast.List)):
                    for x in ast.walk(tg):
                        if isinstance(x, ast.Name):
                            s2.env[x.id] = ('unknown', pf.nsrc(value))
                elif isinstance(tg, ast.Attribute):
                    d = pf.dotted(tg)
                    if d is not None:
                        s2.env[d] = v
            return [s2]
        if isinstance(st_, ast.AugAssign):
            s2 = s.fork()
            if isinstance(st_.target, ast.Name):
                s2.env[st_.target.id] = ('unknown', pf.nsrc(st_))
            return [s2]
        if isinstance(st_, ast.If):
            ts, fs = self.branch(st_.test, s)
            tainted_here = any(x.taint != s.taint for x in ts + fs)
            sw = self.swap_idiom(st_, s) if tainted_here else None
            if sw is not None:
                s2 = s.fork()
                s2.env.update(sw)
                return [s2]
            if not tainted_here:
                return self.block(st_.body, ts, rej) + self.block(st_.orelse, fs, rej)
            # a test that is not decided (it relates two alleles, or is not recognised): when neither branch can reject, return or narrow an
            # interval, the two outcomes are joined again - locals they bind differently become unknown - and the path is as clean as before
            local: List[Rejection] = []
            n_ret = len(self.returned[-1])
            outs = self.block(st_.body, ts, local) + self.block(st_.orelse, fs, local)
            rej += local
            if not local and len(self.returned[-1]) == n_ret and outs and all(o.box == s.box for o in outs):
                env: Dict[str, Any] = {}
                keys = set()
                for o in outs:
                    keys |= set(o.env)
                for k in keys:
                    vs = [o.env.get(k) for o in outs]
                    env[k] = vs[0] if all(v == vs[0] for v in vs) else ('unknown', f'{k} after `{pf.nsrc(st_.test)[:40]}`')
                return [St(s.box, env, s.taint)]
            return outs
        if isinstance(st_, ast.Assert):
            ts, fs = self.branch(st_.test, s)
            for f in fs:
                rej.append(Rejection(f, f'AssertionError (`assert {pf.nsrc(st_.test)[:60]}`)', st_.lineno))
            return ts
        if isinstance(st_, ast.Raise):
            rej.append(Rejection(s, pf.nsrc(st_.exc)[:90] if st_.exc is not None else 'raise', st_.lineno))
            return []
        if isinstance(st_, ast.Return):
            self.returned[-1].append(s)
            return []
        if isinstance(st_, (ast.For, ast.AsyncFor)):
            items = self.iter_items(st_.iter, st_.target, s)
            if items is None:
                if self._may_reject(st_):
                    self.fail(st_, f'loop over `{pf.nsrc(st_.iter)[:40]}` contains a raise / assert (unrecognised iteration)')
                return [s.fork()]
            live = [s]
            for bind in items:
                nxt: List[St] = []
                for c in live:
                    c2 = c.fork()
                    c2.env.update(bind)
                    nxt += self.block(st_.body, [c2], rej)
                live = nxt
            return self.block(st_.orelse, live, rej)
        if isinstance(st_, (ast.While, ast.Try)) or (hasattr(ast, 'Match') and isinstance(st_, ast.Match)):
            if self._may_reject(st_) or isinstance(st_, ast.Try):
                self.fail(st_, f'{type(st_).__name__} statement in a validating constructor (unrecognised control flow)')
            return [s.fork()]
        if isinstance(st_, (ast.With, ast.AsyncWith)):
            return self.block(st_.body, [s], rej)
        if isinstance(st_, (ast.FunctionDef, ast.ClassDef, ast.Delete)):
            return [s]
        self.fail(st_, f'unsupported statement {type(st_).__name__}')
        return []

    def swap_idiom(self, st_: ast.If, s: St) -> Optional[Dict[str, Any]]:
        """`if P < Q: P, Q = Q, P`  (or `>`): afterwards P = max(P, Q), Q = min(P, Q)  (resp. min / max)"""
        t = st_.test
        if st_.orelse or len(st_.body) != 1 or not (isinstance(t, ast.Compare) and len(t.ops) == 1 and isinstance(t.ops[0], (ast.Lt, ast.Gt, ast.LtE, ast.GtE))
                                                    and isinstance(t.left, ast.Name) and isinstance(t.comparators[0], ast.Name)):
            return None
        a = st_.body[0]
        if not (isinstance(a, ast.Assign) and len(a.targets) == 1 and isinstance(a.targets[0], ast.Tuple) and isinstance(a.value, ast.Tuple)
                and len(a.targets[0].elts) == 2 and len(a.value.elts) == 2 and all(isinstance(x, ast.Name) for x in a.targets[0].elts + a.value.elts)):
            return None
        tg = [x.id for x in a.targets[0].elts]
        vl = [x.id for x in a.value.elts]
        P, Q = t.left.id, t.comparators[0].id
        if tg != list(reversed(vl)) or {P, Q} != set(tg) or P == Q:
            return None
        vp, vq = s.env.get(P), s.env.get(Q)
        if vp is None or vq is None or vp[0] not in ('allele', 'int') or vq[0] not in ('allele', 'int'):
            return None
        less = isinstance(t.ops[0], (ast.Lt, ast.LtE))
        return {P: ('max' if less else 'min', [vp, vq]), Q: ('min' if less else 'max', [vp, vq])}

    # ---- helpers ---------------------------------------------------------------------------------------
    def helper(self, call: ast.Call, s: St) -> Optional[Tuple[ast.FunctionDef, int]]:
        f = call.func
        if isinstance(f, ast.Name) and f.id in self.top_funcs and f.id not in s.env:
            return self.top_funcs[f.id], 0
        if isinstance(f, ast.Attribute) and isinstance(f.value, ast.Name) and self.cls is not None and f.value.id in ('self', self.cls.name, 'cls'):
            for x in self.cls.body:
                if isinstance(x, ast.FunctionDef) and x.name == f.attr:
                    decos = pf.decorator_names(x)
                    if 'property' in decos:
                        return None
                    return x, (0 if 'staticmethod' in decos or f.value.id == self.cls.name and 'classmethod' not in decos else 1)
        return None

    def call_helper(self, h: Tuple[ast.FunctionDef, int], call: ast.Call, s: St, rej: List[Rejection]) -> List[St]:
        fn, skip = h
        if self.depth >= 3:
            self.fail(call, 'helper calls nested too deep')
        if not self._may_reject(fn):
            return [s]
        params = [a.arg for a in fn.args.args][skip:]
        if fn.args.vararg or fn.args.kwarg or any(isinstance(a, ast.Starred) for a in call.args) or len(call.args) > len(params):
            self.fail(call, f'helper {fn.name}: unrecognised signature')
        env: Dict[str, Any] = {}
        for p_, a in zip(params, call.args):
            env[p_] = self.eval(a, s)
        for kw in call.keywords:
            if kw.arg is None:
                self.fail(call, f'helper {fn.name}: ** argument')
            env[kw.arg] = self.eval(kw.value, s)
        pos = fn.args.args
        for a, d in zip(pos[len(pos) - len(fn.args.defaults):], fn.args.defaults):
            if a.arg not in env and a.arg in params:
                env[a.arg] = self.eval(d, St(s.box, {}))
        inner = St(s.box, env, s.taint)
        self.depth += 1
        self.returned.append([])
        try:
            live = self.block(fn.body, [inner], rej)
            live = live + self.returned[-1]
        finally:
            self.returned.pop()
            self.depth -= 1
        # the helper cannot change the caller's locals; the box refinements it established on the surviving paths are kept
        return [St(x.box, dict(s.env), x.taint) for x in live]

    # ---- driver ------------------------------------------------------------------------------------------
    def run(self, box: Tuple[Interval, ...], env: Dict[str, Any]) -> Tuple[List[St], List[Rejection]]:
        rej: List[Rejection] = []
        self.returned = [[]]
        live = self.block(self.fn.body, [St(box, dict(env))], rej)
        return live + self.returned[0], rej


class _Raises(Exception):
    def __init__(self, text: str, st: St, node: ast.AST):
        self.text, self.st, self.node = text, st, node
